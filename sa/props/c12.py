"""C12 - transformations compute what their names say; degenerate ones are dropped.

 1 (R13) preset union: the collection merged with each preset inside the loop over preset.split(',') is initialised once,
         outside the loop, to a FRESH dict (never to a vault dict, which a later merge would mutate)
 2 (R14) keep/drop: emitted iff len(unique) > 1 and max(c)/sum(c) < 0.80 and count('nan')/len < 0.75
 3 (R15) numeric parse: '' -> 0.0, else float(x)
 4 (R12) fw family: static evaluation of fw_transformers.py enumerates every generated (name, formula); the formula must be
         where(X < T, X, where(X > T, round(f(X - T) * R, 0), 0)) with f, R, T exactly those embedded in the name
 5 (R6)  a transformer name present in several presets maps to the same canonical formula in all of them, and - where the text
         after _tr_ parses as an expression over sqrt, log, abs, div, pow, round - to that expression
 6       column name is f'{feature}{transformer}', values are astype(str) of the formula evaluated on X = get_vals(feature)
"""
from __future__ import annotations

import ast
import re

from ..cfg import CFG
from ..match import calls, expected_term, fold_with, init_constants, returns, term_of
from ..model import Inconclusive, own_nodes, parents
from ..terms import Canon, Scope, show, walk_term

EXPLANATION = ('Accumulator discipline (R13) and freshness of the preset collection; comparison normal form (R14) with folded thresholds for the keep/drop rule and guard dominance of the emission; '
               'canonical-term equality (R15) of the numeric parse; complete static evaluation of the fw generator module (loops over literal grids, f-strings, helper calls) and comparison of every '
               'generated formula with the function its name declares (R12); cross-preset agreement (R6) of shared names. Decides formulas as terms, not floating-point results.')
TRUSTED_BASE = ['numpy ufunc semantics of the names used in the formulas', 'f-string formatting of int and float loop values is str()']
ASSUMPTIONS = ['informal names (e.g. _tr_log*sqrt) are only checked for cross-preset agreement']

RT = 'outrank.feature_transformations.ranking_transformers'
VAULT = 'outrank.feature_transformations.feature_transformer_vault'
DEF = VAULT + '.default_transformers'
FW = VAULT + '.fw_transformers'
CLS = 'FeatureTransformerGeneric'


def run(repo, chk, tier):
    presets(repo, chk)
    keep_drop(repo, chk)
    numeric_parse(repo, chk)
    tables = vault_tables(repo, chk)
    if tables is not None:
        fw_family(repo, chk, tables)
        cross_preset(repo, chk, tables)
    transformer_per_call(repo, chk)
    missing_share(repo, chk)


def missing_share(repo, chk):
    """C12.2n - the share compared with the NaN threshold counts NaN values and nothing else.  The operand of the comparison with
    nan_prop_support is traced backwards (locals, parameters at their call sites, record fields, helper returns); a test for *finiteness*
    in what it is computed from counts +-inf (log(0), overflow) as missing, which the statement does not."""
    from .common import value_origins
    m = repo.mod(RT)
    thr = lambda x: isinstance(x, ast.Attribute) and x.attr == 'nan_prop_support'
    n_cmp = 0
    for f in ast.walk(m.tree):
        if not isinstance(f, (ast.FunctionDef, ast.AsyncFunctionDef)):
            continue
        for c in ast.walk(f):
            if not (isinstance(c, ast.Compare) and any(thr(x) for x in ast.walk(c))):
                continue
            n_cmp += 1
            for o in [c.left] + list(c.comparators):
                if any(thr(x) for x in ast.walk(o)):
                    continue
                for g, e in value_origins(m, f, o):
                    d = (m.dotted(e.func) or '') if isinstance(e, ast.Call) else ''
                    if d in ('numpy.isfinite', 'numpy.isinf', 'numpy.isneginf', 'numpy.isposinf', 'math.isfinite', 'math.isinf'):
                        chk.bad('C12.2n', 'R14', m.relpath + f':{e.lineno} {g.name}', ast.unparse(e)[:100], 'the share compared with the NaN threshold is computed with a test for (in)finiteness: +inf / -inf results '
                                '(log(0), overflow) are counted as missing, so a column with fewer than 75% NaN can be dropped; only NaN counts as missing')
                        return
    if n_cmp:
        chk.ok('C12.2n', 'R14', m.relpath, f'{n_cmp} comparison(s) with nan_prop_support', 'nothing the compared share is computed from tests finiteness')


# -- 1 ------------------------------------------------------------------------------------------
def _is_self_attr(e, attr):
    return isinstance(e, ast.Attribute) and isinstance(e.value, ast.Name) and e.value.id == 'self' and e.attr == attr


def _precedes(fn, a, b):
    """statement a is executed before statement b on the straight-line order of the function (pre-order position)"""
    order = [n for n in ast.walk(fn.node)]
    pos = {id(n): i for i, n in enumerate(_preorder(fn.node))}
    return pos.get(id(a), 0) < pos.get(id(b), 0)


def _preorder(node):
    yield node
    for c in ast.iter_child_nodes(node):
        yield from _preorder(c)


def vault_aliases(repo, chk, m):
    """C12.1h - no preset table of the vault is ever written through.  In every function of the transformer module: what is looked up in
    _tr_global_namespace (get / subscript / .values() / iteration) is a vault table; the mark follows plain bindings, elements of lists the tables are
    collected in (append, [..], subscripts, loop targets) - and stops at a copy (dict(x), {**x}, x.copy(), x | y).  A mutating operation on a marked
    object (update, [k] = v, pop, setdefault, clear, |=, del) changes the preset for every later transformer of the process."""
    n_seen = 0
    for f in m.funcs.values():
        tables, boxes = set(), set()

        def is_vault(e):
            return any((isinstance(x, ast.Attribute) and x.attr == '_tr_global_namespace') or (isinstance(x, ast.Name) and x.id in vault_names) for x in ast.walk(e))

        vault_names = {n.targets[0].id for n in own_nodes(f.node) if isinstance(n, ast.Assign) and len(n.targets) == 1 and isinstance(n.targets[0], ast.Name)
                       and isinstance(n.value, (ast.Attribute, ast.Name)) and ast.unparse(n.value).endswith('_tr_global_namespace')}

        def kind(e):
            """'table' / 'box' (a list of tables) / None"""
            if isinstance(e, ast.Name):
                return 'table' if e.id in tables else 'box' if e.id in boxes else None
            if isinstance(e, ast.Subscript):
                if is_vault(e.value) and not isinstance(e.slice, ast.Slice):
                    return 'table'
                k = kind(e.value)
                if k == 'box':
                    return 'box' if isinstance(e.slice, ast.Slice) else 'table'
                return None
            if isinstance(e, ast.Call) and isinstance(e.func, ast.Attribute):
                if e.func.attr in ('get', 'pop', 'setdefault') and is_vault(e.func.value) and not isinstance(e.func.value, ast.Call):
                    return 'table'
                if e.func.attr == 'values' and is_vault(e.func.value):
                    return 'box'
                return None
            if isinstance(e, (ast.List, ast.Tuple)) and any(kind(x) == 'table' for x in e.elts):
                return 'box'
            if isinstance(e, ast.IfExp):
                return kind(e.body) or kind(e.orelse)
            if isinstance(e, ast.BoolOp):
                return next((kind(v) for v in e.values if kind(v)), None)
            if isinstance(e, (ast.ListComp, ast.GeneratorExp)) and len(e.generators) == 1:
                return None
            return None
        changed = True
        rounds = 0
        while changed and rounds < 6:
            changed, rounds = False, rounds + 1
            for n in own_nodes(f.node):
                if isinstance(n, (ast.Assign, ast.AnnAssign)) and n.value is not None:
                    k = kind(n.value)
                    for t in (n.targets if isinstance(n, ast.Assign) else [n.target]):
                        if isinstance(t, ast.Name) and k:
                            tgt = tables if k == 'table' else boxes
                            if t.id not in tgt:
                                tgt.add(t.id)
                                changed = True
                elif isinstance(n, ast.For) and isinstance(n.target, ast.Name) and kind(n.iter) == 'box' and n.target.id not in tables:
                    tables.add(n.target.id)
                    changed = True
                elif isinstance(n, ast.Call) and isinstance(n.func, ast.Attribute) and n.func.attr in ('append', 'insert', 'extend') and isinstance(n.func.value, ast.Name) and n.args and \
                        (kind(n.args[-1]) == 'table' or (n.func.attr == 'extend' and kind(n.args[-1]) == 'box')) and n.func.value.id not in boxes and n.func.value.id not in tables:
                    boxes.add(n.func.value.id)
                    changed = True
        n_seen += len(tables) + len(boxes)
        for n in own_nodes(f.node):
            hit = None
            if isinstance(n, ast.Call) and isinstance(n.func, ast.Attribute) and n.func.attr in ('update', 'pop', 'popitem', 'setdefault', 'clear', '__setitem__', '__delitem__') and kind(n.func.value) == 'table' \
                    and not (n.func.attr in ('pop', 'setdefault') and is_vault(n.func.value)):
                hit = n
            elif isinstance(n, (ast.Assign, ast.AugAssign)):
                for t in (n.targets if isinstance(n, ast.Assign) else [n.target]):
                    if isinstance(t, ast.Subscript) and kind(t.value) == 'table':
                        hit = n
                    if isinstance(n, ast.AugAssign) and isinstance(n.op, ast.BitOr) and kind(n.target) == 'table':
                        hit = n
            elif isinstance(n, ast.Delete) and any(isinstance(t, ast.Subscript) and kind(t.value) == 'table' for t in n.targets):
                hit = n
            if hit is not None:
                chk.bad('C12.1h', 'R11', f.site(hit), ast.unparse(hit).replace('\n', ' ')[:120], 'a preset table of the vault is written through (the object is the vault\'s own dictionary, reached without a copy): the preset is changed '
                        'for every transformer built later in the process, so a later preset name no longer selects its own table')
                return
    chk.ok('C12.1h', 'R11', m.relpath, f'{len(m.funcs)} function(s), {n_seen} name(s) bound to vault tables', 'no vault table is written through')


def presets(repo, chk):
    fn = repo.func(RT, f'{CLS}.__init__')
    m = fn.module
    par = parents(fn.node)
    preset = fn.params[2] if len(fn.params) > 2 else 'preset'
    loops = [n for n in own_nodes(fn.node) if isinstance(n, ast.For) and term_of(fn, n.iter, inline=True) == expected_term(m, f"{preset}.split(',')")]
    if len(loops) != 1 or not isinstance(loops[0].target, ast.Name):
        chk.bad('C12.1a', 'R13', fn.site(), f"for ns in {preset}.split(',')", "no loop over the comma-separated preset names was found: a preset list does not select the union of the presets")
        return
    lp = loops[0]
    ns = lp.target.id
    chk.ok('C12.1a', 'R13', fn.site(lp), ast.unparse(lp.iter), 'every name of the comma-separated list is visited')
    # the collection object: self.transformer_collection, or a local that is finally bound to it (collected = dict(); ...; self.transformer_collection = collected)
    coll_names = set()
    changed = True
    while changed:
        changed = False
        for n in own_nodes(fn.node):
            if isinstance(n, (ast.Assign, ast.AnnAssign)) and n.value is not None and isinstance(n.value, ast.Name):
                tgs = n.targets if isinstance(n, ast.Assign) else [n.target]
                if any(_is_self_attr(t, 'transformer_collection') or (isinstance(t, ast.Name) and t.id in coll_names) for t in tgs) and n.value.id not in coll_names and n.value.id not in fn.params:
                    coll_names.add(n.value.id)
                    changed = True

    def is_coll(e):
        return _is_self_attr(e, 'transformer_collection') or (isinstance(e, ast.Name) and e.id in coll_names)

    def mentions_coll(txt):
        return 'self.transformer_collection' in txt or any(re.search(rf'\b{re.escape(c)}\b', txt) for c in coll_names)
    assigns = [n for n in own_nodes(fn.node) if isinstance(n, (ast.Assign, ast.AnnAssign)) and any(is_coll(t) for t in (n.targets if isinstance(n, ast.Assign) else [n.target])) and n.value is not None
               and not (isinstance(n.value, ast.Name) and n.value.id in coll_names)]
    inside = [a for a in assigns if any(x is a for x in ast.walk(lp))]
    before = [a for a in assigns if a not in inside and not any(x is a for x in ast.walk(lp)) and _precedes(fn, a, lp)]
    sub_names = set()
    for n in ast.walk(lp):
        if isinstance(n, ast.Assign) and isinstance(n.targets[0], ast.Name) and '_tr_global_namespace' in ast.unparse(n.value):
            sub_names.add(n.targets[0].id)
            # lookup keyed by the loop variable
            okk = isinstance(n.value, ast.Call) and n.value.args and ast.unparse(n.value.args[0]) == ns or (isinstance(n.value, ast.Subscript) and ast.unparse(n.value.slice) == ns)
            chk.expect(okk, 'C12.1b', 'R6', fn.site(n), ast.unparse(n)[:120], 'the preset is looked up by its name', 'the vault must be looked up with the current preset name')

    def fresh_empty(v):
        return (isinstance(v, ast.Dict) and not v.keys) or (isinstance(v, ast.Call) and isinstance(v.func, ast.Name) and v.func.id == 'dict' and not v.args and not v.keywords)

    def self_merge(v):
        txt = ast.unparse(v)
        refs_self = mentions_coll(txt)
        refs_sub = any(re.search(rf'\b{re.escape(s)}\b', txt) for s in sub_names)
        fresh = isinstance(v, ast.Dict) or (isinstance(v, ast.Call) and isinstance(v.func, ast.Name) and v.func.id == 'dict') or (isinstance(v, ast.BinOp) and isinstance(v.op, ast.BitOr))
        return refs_self and refs_sub and fresh

    for a in inside:
        if self_merge(a.value):
            chk.ok('C12.1c', 'R13', fn.site(a), ast.unparse(a).replace('\n', ' ')[:120], 'merge keeps what earlier presets contributed and builds a fresh dict')
        elif fresh_empty(a.value) or not mentions_coll(ast.unparse(a.value)):
            chk.bad('C12.1c', 'R13', fn.site(a), ast.unparse(a).replace('\n', ' ')[:120], 'the collection is (re-)initialised inside the loop over the preset names: only the last preset of a list survives (or a vault dict is aliased and later mutated)')
        else:
            chk.unsure('C12.1c', 'R13', fn.site(a), ast.unparse(a)[:120], 'unrecognised update of the collection inside the preset loop')
    # the merge of the preset that was looked up must happen per name, inside the loop: after the loop the lookup variable holds the LAST preset only
    outside = [c for c in own_nodes(fn.node) if isinstance(c, ast.Call) and isinstance(c.func, ast.Attribute) and c.func.attr == 'update' and is_coll(c.func.value) and not any(c is x for x in ast.walk(lp))
               and c.args and isinstance(c.args[0], ast.Name) and c.args[0].id in sub_names and getattr(c, 'lineno', 0) > getattr(lp, 'end_lineno', lp.lineno)]
    if outside and not any(isinstance(c, ast.Call) and isinstance(c.func, ast.Attribute) and c.func.attr == 'update' and is_coll(c.func.value) for c in ast.walk(lp)) and not inside:
        chk.bad('C12.1e', 'R13', fn.site(outside[0]), ast.unparse(outside[0])[:100], f'the preset is merged into the collection AFTER the loop over the preset names: `{outside[0].args[0].id}` then holds only the last '
                'preset of the list, so a comma-separated list selects its last preset instead of the union')
        return
    updates = [c for c in ast.walk(lp) if isinstance(c, ast.Call) and isinstance(c.func, ast.Attribute) and c.func.attr == 'update' and is_coll(c.func.value)]
    for c in updates:
        # merging by .update(<preset>) is fine on a fresh dict of our own (the vault dict is only read)
        ok_u = len(c.args) == 1 and isinstance(c.args[0], ast.Name) and c.args[0].id in sub_names
        chk.expect(ok_u, 'C12.1c', 'R13', fn.site(c), ast.unparse(c)[:120], 'the preset is merged into the collection (the vault dict is only read)', 'the update of the collection does not merge the preset that was looked up', soft=True)
    # "not found" is a statement about the shape of __init__ (it abstains when __init__ was restructured); what is found and wrong is decided by 1c / 1f / 1h
    chk.expect(len(before) == 1 and fresh_empty(before[0].value), 'C12.1d', 'R13', fn.site(before[0]) if before else fn.site(), ast.unparse(before[0]) if before else 'self.transformer_collection = dict()',
               'the collection starts as a fresh empty dict before the loop', 'the collection must be initialised exactly once, before the loop, to a fresh empty dict', soft=True)
    chk.expect(bool(inside) or bool(updates), 'C12.1e', 'R13', fn.site(lp), 'merge of each preset', 'each preset is merged', 'presets are not merged into the collection', soft=True)
    vault_aliases(repo, chk, m)
    # no vault dictionary may be mutated anywhere in the class module
    for f in m.funcs.values():
        for n in own_nodes(f.node):
            if isinstance(n, ast.Assign) and any(_is_self_attr(t, 'transformer_collection') or (isinstance(t, ast.Name) and f is fn and t.id in coll_names) for t in n.targets) and isinstance(n.value, ast.Name) and n.value.id in sub_names:
                chk.bad('C12.1f', 'R11', f.site(n), ast.unparse(n), 'the collection aliases a vault dictionary: merging further presets into it mutates the global preset for every later transformer in the process')
    # the vault's name table
    v = repo.mod(VAULT)
    tab = v.assigns.get('_tr_global_namespace', [])
    want = {'default': 'DEFAULT_TRANSFORMERS', 'minimal': 'MINIMAL_TRANSFORMERS', 'fw-transformers': 'FW_TRANSFORMERS'}
    got = {}
    if len(tab) == 1 and isinstance(tab[0], ast.Dict):
        for k, val in zip(tab[0].keys, tab[0].values):
            if isinstance(k, ast.Constant):
                got[k.value] = ast.unparse(val)
    bad = {k: got.get(k) for k, w in want.items() if got.get(k) != w}
    chk.expect(not bad, 'C12.1g', 'R7', v.relpath, f'_tr_global_namespace: {({k: got.get(k) for k in want})}', 'preset names select their own tables', f'preset name(s) {bad} do not select the table of that name')


# -- 2 ------------------------------------------------------------------------------------------
def keep_drop(repo, chk):
    init = repo.func(RT, f'{CLS}.__init__')
    fn = repo.func(RT, f'{CLS}.construct_new_features')
    m = fn.module
    consts = init_constants(init)
    frame = [p for p in fn.params if p != 'self'][0]
    # emission: new_columns[feature_name] = transformed_array
    def _is_str_array(e):
        if isinstance(e, ast.Name):
            return any(isinstance(c, ast.Call) and isinstance(c.func, ast.Attribute) and c.func.attr == 'astype' for d in own_nodes(fn.node) if isinstance(d, ast.Assign) and isinstance(d.targets[0], ast.Name) and d.targets[0].id == e.id for c in ast.walk(d.value))
        return isinstance(e, ast.Call) and isinstance(e.func, ast.Attribute) and e.func.attr == 'astype'
    emits = [n for n in own_nodes(fn.node) if isinstance(n, ast.Assign) and isinstance(n.targets[0], ast.Subscript) and isinstance(n.targets[0].value, ast.Name) and _is_str_array(n.value)]
    if len(emits) != 1:
        chk.unsure('C12.2', 'R14', fn.site(), 'new_columns[name] = transformed_array', f'{len(emits)} emission sites found')
        return
    em = emits[0]

    def subst(t):
        if isinstance(t, tuple):
            if len(t) == 3 and t[0] == 'attr' and t[1] == ('name', 'self') and t[2] in consts and isinstance(consts[t[2]], (int, float)):
                return ('num', consts[t[2]])
            return tuple(subst(x) for x in t)
        return t
    # one transformer applied to one column, path by path: which atomic tests decide whether the column is emitted
    from ..match import run_paths
    par0 = parents(fn.node)
    tl = par0.get(em)
    while tl is not None and not (isinstance(tl, ast.For) and 'transformer_collection' in ast.unparse(tl.iter)):
        tl = par0.get(tl)
    if tl is None:
        chk.unsure('C12.2', 'R14', fn.site(em), ast.unparse(em), 'the loop over the transformer collection that contains the emission was not found')
        return
    paths = run_paths(fn, None, None, max_forks=6, body=tl.body)
    if paths is None:
        chk.unsure('C12.2', 'R14', fn.site(tl), 'for name, formula in self.transformer_collection.items()', 'too many undecidable tests in the per-transformer body')
        return
    labels = {'distinct': 'more than one distinct value (len(unique) > 1)', 'majority': 'most frequent value covers < 80 % (max(c)/sum(c) < 0.80)', 'nan': "less than 75 % NaN (count('nan')/len < 0.75)"}
    cn = Canon(m, Scope(None), inline=False)
    verdict = {k: None for k in labels}
    extra_atoms = []
    emit_paths = 0
    unknown = None
    A_term = None
    for assume, res in paths:
        if res.unknown is not None:
            unknown = unknown or res.unknown
            continue
        stores = [u for u in res.updates if u['kind'] == 'store1' and isinstance(u['target'], ast.Name) and isinstance(em.targets[0].value, ast.Name) and u['target'].id == em.targets[0].value.id]
        if stores and A_term is None:
            A_term = term_of(fn, stores[0]['value'], inline=False)
    if A_term is None:
        if unknown is not None:
            chk.unsure('C12.2', 'R14', fn.site(unknown), ast.unparse(unknown)[:80], 'a statement outside the path vocabulary in the per-transformer body')
        else:
            chk.bad('C12.2', 'R14', fn.site(em), ast.unparse(em), 'no path of the per-transformer body emits the transformed column')
        return
    Asrc = None
    for assume, res in paths:
        for u in res.updates:
            if u['kind'] == 'store1' and term_of(fn, u['value'], inline=False) == A_term:
                Asrc = ast.unparse(u['value'])
    E = lambda src: subst(expected_term(m, src))
    uniq = f'numpy.unique({Asrc}, return_counts=True)'
    want = {
        'distinct': [E(f'len({uniq}[0]) > 1'), E(f'len(numpy.unique({Asrc})) > 1'), E(f'{uniq}[0].size > 1'), E(f'len({uniq}[0]) >= 2'), E(f'numpy.unique({Asrc}).size > 1')],
        'majority': [E(f'numpy.divide(numpy.max({uniq}[1]), numpy.sum({uniq}[1])) < 0.8'), E(f'numpy.max({uniq}[1]) / numpy.sum({uniq}[1]) < 0.8'), E(f'numpy.max({uniq}[1]) / len({Asrc}) < 0.8'),
                     E(f'{uniq}[1].max() / {uniq}[1].sum() < 0.8'), E(f'numpy.max({uniq}[1]) / {uniq}[1].sum() < 0.8')],
        'nan': [E(f"numpy.count_nonzero({Asrc} == 'nan') / len({Asrc}) < 0.75"), E(f"numpy.sum({Asrc} == 'nan') / len({Asrc}) < 0.75"), E(f"numpy.mean({Asrc} == 'nan') < 0.75"),
                # the count of 'nan' read from the (values, counts) of np.unique: the counts at the positions where the value is 'nan'
                E(f"{uniq}[1][{uniq}[0] == 'nan'].sum() / len({Asrc}) < 0.75"), E(f"numpy.sum({uniq}[1][{uniq}[0] == 'nan']) / len({Asrc}) < 0.75"),
                E(f"{uniq}[1][{uniq}[0] == 'nan'].sum() / numpy.sum({uniq}[1]) < 0.75"), E(f"{uniq}[1][{uniq}[0] == 'nan'].sum() / {uniq}[1].sum() < 0.75")],
    }

    def classify(t_ast, v):
        t = subst(term_of(fn, t_ast, inline=False))
        if t[0] == 'call' and t[1] == ('name', 'bool') and len(t[2]) == 1:
            t = t[2][0]
        for key, forms in want.items():
            if t in forms:
                return key, v
            if cn._not(t) in forms:
                return key, (not v)
        return 'other', (t, v, t_ast)
    bad_emit = None
    for assume, res in paths:
        if res.unknown is not None:
            continue
        emits_here = any(u['kind'] == 'store1' and term_of(fn, u['value'], inline=False) == A_term for u in res.updates)
        dec = {}
        others = []
        for t_ast, v in res.assumed:
            k, val = classify(t_ast, v)
            if k == 'other':
                others.append(val)
            else:
                dec[k] = val
        if emits_here:
            emit_paths += 1
            for k in labels:
                if dec.get(k) is True:
                    verdict[k] = verdict[k] if verdict[k] is False else True
                else:
                    verdict[k] = False
            extra_atoms += others
        else:
            # a path that does not emit must fail one of the three conditions (or an unrelated test that ends it, reported as extra)
            if not any(val is False for val in dec.values()):
                if others:
                    extra_atoms += others
                elif res.ended not in ('raise',):
                    bad_emit = bad_emit or res
    site = fn.site(tl)
    conj_txt = sorted({ast.unparse(t_ast)[:80] for _, res in paths for t_ast, _ in res.assumed})
    # library knowledge: Series.value_counts() leaves missing values out unless dropna=False is passed - support statistics taken from it
    # ignore the NaN cells, which the rule counts as one more value (the text 'nan')
    vc = [c for c in calls(fn) if isinstance(c.func, ast.Attribute) and c.func.attr == 'value_counts' and not any(k.arg == 'dropna' and isinstance(k.value, ast.Constant) and k.value.value is False for k in c.keywords)]
    # ... and the tests that decide emission read its result (directly, or through the name it is bound to)
    bound_to = {st.targets[0].id for c in vc for st in own_nodes(fn.node) if isinstance(st, ast.Assign) and st.value is c and isinstance(st.targets[0], ast.Name)}
    tests = [t_ast for _, res in paths for t_ast, _ in res.assumed]
    vc_used = [c for c in vc if any('value_counts' in ast.unparse(t) or any(isinstance(x, ast.Name) and x.id in bound_to for x in ast.walk(t)) for t in tests)]
    if vc and not vc_used and bound_to:
        vc_used = vc          # bound to a local that the (substituted) tests no longer name: still the source of the statistics
    if vc_used:
        chk.bad('C12.2-majority', 'R14', fn.site(vc_used[0]), ast.unparse(vc_used[0])[:100], "the support statistics of the keep rule are taken from Series.value_counts(), which leaves missing values out (dropna=True): the NaN cells, which count as the value 'nan' in the rule, "
                'take no part in the number of distinct values and in the majority share, so mostly-missing or constant-plus-missing columns are kept or dropped wrongly')
    for key in labels:
        if verdict[key] is True:
            chk.ok(f'C12.2-{key}', 'R14', site, labels[key], 'condition present with the stated relation and threshold')
        elif unknown is not None and emit_paths == 0:
            chk.unsure(f'C12.2-{key}', 'R14', fn.site(unknown), ast.unparse(unknown)[:80], 'a statement outside the path vocabulary in the per-transformer body')
        else:
            in_vocab = True
            from ..match import within_vocabulary
            all_forms = [f for fs in want.values() for f in fs]
            in_vocab = all(within_vocabulary(subst(term_of(fn, t_ast, inline=False)), all_forms) for _, res in paths for t_ast, _ in res.assumed)
            if in_vocab:
                chk.bad(f'C12.2-{key}', 'R14', site, '; '.join(conj_txt)[:200], f'keep rule must require {labels[key]}; tests found: {conj_txt}')
            else:
                chk.unsure(f'C12.2-{key}', 'R14', site, '; '.join(conj_txt)[:200], f'the tests that decide emission use operations outside the vocabulary of the accepted forms; keep rule must require {labels[key]}')
    extra_real = [x for x in extra_atoms if not any(x[0] in fs or cn._not(x[0]) in fs for fs in want.values())]
    if extra_real and all(v for v in verdict.values()):
        chk.bad('C12.2-only', 'R14', fn.site(extra_real[0][2]) if hasattr(extra_real[0][2], 'lineno') else site, ast.unparse(extra_real[0][2])[:160], f'additional condition(s) decide emission: {[show(x[0])[:90] for x in extra_real[:3]]}')
    elif not extra_real:
        chk.ok('C12.2-only', 'R14', site, f'{emit_paths} emitting path(s)', 'no further condition decides emission')
    if bad_emit is not None:
        chk.bad('C12.2', 'R14', site, 'a path that satisfies the three conditions does not emit the column', 'a transformed column that passes the keep rule is not emitted on every path')
    arrdef = []
    A = Asrc
    # 6: name and values
    key = em.targets[0].slice
    kt = term_of(fn, key, inline=True)
    loops = [n for n in own_nodes(fn.node) if isinstance(n, ast.For)]
    col_loop = next((l for l in loops if 'numeric_column_names' in ast.unparse(l.iter)), None)
    tr_loop = next((l for l in loops if 'transformer_collection' in ast.unparse(l.iter)), None)
    if col_loop is None or tr_loop is None or not isinstance(tr_loop.target, ast.Tuple):
        chk.unsure('C12.6', 'R12', fn.site(), 'loops over columns and transformers', 'loops not found')
        return
    col = col_loop.target.id
    k, v = tr_loop.target.elts[0].id, tr_loop.target.elts[1].id
    chk.expect(kt == expected_term(m, "f'{" + col + "}{" + k + "}'") or kt == expected_term(m, f'{col} + {k}'), 'C12.6a', 'R12', fn.site(em), ast.unparse(key), 'column name = feature name followed by the transformer name', f'the emitted column must be named <feature><transformer>; found {show(kt)[:80]}')
    at = term_of(fn, em.value, inline=True)
    chk.expect_term(at, [expected_term(m, f'eval({v}).astype(str)'), expected_term(m, f'eval({v}).astype("str")')], 'C12.6b', 'R15', fn.site(arrdef[0]) if arrdef else fn.site(em), A, 'values = the formula of that transformer evaluated, as text',
                    f'the emitted values must be eval(<formula of this transformer>).astype(str); found {show(at)[:100]}')
    xdefs = [d for d in own_nodes(fn.node) if isinstance(d, ast.Assign) and isinstance(d.targets[0], ast.Name) and d.targets[0].id == 'X']
    okx = len(xdefs) == 1 and term_of(fn, xdefs[0].value, inline=False) == expected_term(m, f'self.get_vals({frame}, {col})') and any(x is xdefs[0] for x in ast.walk(col_loop))
    chk.expect(okx, 'C12.6c', 'origin', fn.site(xdefs[0]) if xdefs else fn.site(), ast.unparse(xdefs[0]) if xdefs else 'X = self.get_vals(dataframe, column)', 'the formulas\' variable X is the numeric parse of the current feature',
               'X (the variable the formulas are written in) must be bound to self.get_vals(dataframe, <current column>) inside the column loop')
    # the kept columns reach the result
    D = em.targets[0].value.id
    dfs = [n for n in own_nodes(fn.node) if isinstance(n, ast.Assign) and isinstance(n.targets[0], ast.Name) and isinstance(n.value, ast.Call) and m.dotted(n.value.func) == 'pandas.DataFrame' and n.value.args and ast.unparse(n.value.args[0]) == D]
    conc = [n for n in own_nodes(fn.node) if isinstance(n, ast.Assign) and isinstance(n.value, ast.Call) and m.dotted(n.value.func) == 'pandas.concat' and dfs and ast.unparse(n.value.args[0]) == f'[{frame}, {dfs[0].targets[0].id}]']
    ok_c = bool(conc)
    if ok_c:
        par = parents(fn.node)
        g = par.get(conc[0])
        ok_c = (not isinstance(g, ast.If)) or term_of(fn, g.test, inline=False) in (expected_term(m, f'0 < len({D})'), expected_term(m, f'len({D}) != 0'), expected_term(m, D))
    chk.expect(ok_c, 'C12.6e', 'R11', fn.site(conc[0]) if conc else fn.site(), ast.unparse(conc[0]) if conc else f'pd.concat([{frame}, pd.DataFrame({D})], axis=1)', 'every kept column is appended to the frame (skipped only when there is none)',
               'the kept transformed columns must be appended (pd.concat of the frame with DataFrame(new_columns)), skipped only when no column was kept')
    it = term_of(fn, tr_loop.iter, inline=True)
    chk.expect(it == expected_term(m, 'self.transformer_collection.items()'), 'C12.6d', 'R13', fn.site(tr_loop), ast.unparse(tr_loop.iter), 'every selected transformer is applied to every numeric column', 'the loop must range over all selected transformers')


# -- 3 ------------------------------------------------------------------------------------------
def numeric_parse(repo, chk):
    fn = repo.func(RT, f'{CLS}.get_vals')
    m = fn.module
    # the parsed column is a float64 array: a narrower float changes the numbers the formulas are applied to (1e300 -> inf, 16777217 -> 16777216)
    for c in own_nodes(fn.node):
        if isinstance(c, ast.Call):
            dt = next((k.value for k in c.keywords if k.arg == 'dtype'), None)
            if dt is None and isinstance(c.func, ast.Attribute) and c.func.attr == 'astype' and c.args:
                dt = c.args[0]
            if dt is not None and ast.unparse(dt).split('.')[-1].strip("'\"") in ('float32', 'float16', 'half', 'single', 'int32', 'int16', 'int8', 'int64', 'int'):
                chk.bad('C12.3', 'R8', fn.site(c), ast.unparse(c)[:100], f'the numeric parse is returned as {ast.unparse(dt)}: values outside the exact range of that type are rounded / overflow (1e300 -> inf, '
                        '2**24 + 1 -> 2**24), so the transformations are evaluated on other numbers than the parsed cells')
                return
    comps = [n for n in own_nodes(fn.node) if isinstance(n, ast.ListComp) and any(isinstance(c, ast.Call) and isinstance(c.func, ast.Name) and c.func.id == 'float' for c in ast.walk(n))]
    if len(comps) != 1:
        # found and different: a tolerant parser in the place of float() - pd.to_numeric(errors='coerce') / Series.astype(float) after a replace
        tol = [c for c in own_nodes(fn.node) if isinstance(c, ast.Call) and (m.dotted(c.func) or '') == 'pandas.to_numeric' and any(k.arg == 'errors' and isinstance(k.value, ast.Constant) and k.value.value in ('coerce', 'ignore') for k in c.keywords)]
        if tol:
            chk.bad('C12.3', 'R15', fn.site(tol[0]), ast.unparse(tol[0])[:100], "the cells are parsed with pd.to_numeric(errors='coerce') instead of float(): every cell the two read differently changes the column - "
                    "'nan' / unparseable text becomes the fill value (0) instead of NaN / an error, '1_000' is rejected, long decimals are rounded differently - so the transformations are evaluated on other numbers than "
                    "'' -> 0.0, else float(x)")
            return
        chk.unsure('C12.3', 'R15', fn.site(), '[0.0 if len(x) == 0 else float(x) for x in values]', 'numeric parse comprehension not found')
        return
    lc = comps[0]
    v = lc.generators[0].target.id
    t = Canon(m, Scope(None), inline=False).t(lc.elt)
    E = lambda s: expected_term(m, s)
    forms = [E(f'0.0 if len({v}) == 0 else float({v})'), E(f"0.0 if {v} == '' else float({v})"), E(f'float({v}) if len({v}) > 0 else 0.0'), E(f'float({v}) if {v} else 0.0'), E(f'0.0 if not {v} else float({v})'),
             E(f"float({v}) if {v} != '' else 0.0"), E(f'float({v}) if len({v}) != 0 else 0.0')]
    chk.expect(t in forms and not lc.generators[0].ifs, 'C12.3', 'R15', fn.site(lc), ast.unparse(lc), "numeric parse: '' -> 0.0, otherwise float(x), for every row", f"the numeric parse must map the empty string to 0.0 and everything else through float(), for every row; found {show(t)[:120]}")
    r = returns(fn)
    ok = len(r) == 1 and term_of(fn, r[0].value, inline=False)[0] == 'call' and 'numpy.array' in show(term_of(fn, r[0].value, inline=False))
    chk.expect(ok, 'C12.3b', 'R15', fn.site(r[0]) if r else fn.site(), ast.unparse(r[0]) if r else 'return', 'returns the parsed values as an array', 'get_vals must return np.array of the parsed values')
    # the caller's frame is not written
    frame = [p for p in fn.params if p != 'self'][0]
    stores = [n for n in own_nodes(fn.node) if isinstance(n, (ast.Assign, ast.AugAssign)) and any(isinstance(t, ast.Subscript) and isinstance(t.value, ast.Name) and t.value.id == frame for t in (n.targets if isinstance(n, ast.Assign) else [n.target]))]
    chk.expect(not stores, 'C12.3c', 'R11', fn.site(stores[0]) if stores else fn.site(), ast.unparse(stores[0]) if stores else f'{frame} is only read', 'the source frame is not modified by the parse', 'get_vals writes into the caller\'s frame: original column values are changed')


# -- static evaluation of the vault modules -------------------------------------------------------
class MiniEval:
    """Evaluates the vault modules without executing them: literal dicts/lists, .copy(), for loops over evaluated lists,
    f-strings, helper functions returning an expression of their parameters, np.divide on numbers."""

    def __init__(self, repo, module, imports_env=None):
        self.repo, self.m = repo, module
        self.env = dict(imports_env or {})
        self.funcs = {f.qualname: f for f in module.funcs.values()}

    def run(self):
        for s in self.m.tree.body:
            if self.m.main_block is not None and s is self.m.main_block:
                continue
            self.stmt(s, self.env)
        return self.env

    def stmt(self, s, env):
        if isinstance(s, (ast.Import, ast.ImportFrom, ast.FunctionDef, ast.Pass)) or (isinstance(s, ast.Expr) and isinstance(s.value, ast.Constant)):
            return
        if isinstance(s, ast.Assign) and len(s.targets) == 1:
            t = s.targets[0]
            v = self.ev(s.value, env)
            if isinstance(t, ast.Name):
                env[t.id] = v
                return
            if isinstance(t, ast.Subscript) and isinstance(t.value, ast.Name) and isinstance(env.get(t.value.id), dict):
                k = self.ev(t.slice, env)
                env[t.value.id][k] = v
                env.setdefault('__sites__', {})[(t.value.id, k)] = s
                return
        if isinstance(s, ast.AnnAssign) and isinstance(s.target, ast.Name) and s.value is not None:
            env[s.target.id] = self.ev(s.value, env)
            return
        if isinstance(s, ast.For) and not s.orelse and (isinstance(s.target, ast.Name) or (isinstance(s.target, ast.Tuple) and all(isinstance(e, ast.Name) for e in s.target.elts))):
            for item in self.ev(s.iter, env):
                if isinstance(s.target, ast.Name):
                    env[s.target.id] = item
                else:
                    for e, x in zip(s.target.elts, item):
                        env[e.id] = x
                for b in s.body:
                    self.stmt(b, env)
            return
        if isinstance(s, ast.Expr) and isinstance(s.value, ast.Call) and isinstance(s.value.func, ast.Attribute) and s.value.func.attr == 'update' and isinstance(s.value.func.value, ast.Name):
            d = env.get(s.value.func.value.id)
            if isinstance(d, dict) and len(s.value.args) == 1:
                d.update(self.ev(s.value.args[0], env))
                return
        raise Inconclusive(f'{self.m.relpath}:{getattr(s, "lineno", 0)}: statement outside the static evaluator: {ast.unparse(s)[:80]}')

    def ev(self, e, env):
        if isinstance(e, ast.Constant):
            return e.value
        if isinstance(e, ast.Name):
            if e.id in env:
                return env[e.id]
            raise Inconclusive(f'{self.m.relpath}:{e.lineno}: unknown name {e.id}')
        if isinstance(e, (ast.List, ast.Tuple)):
            return [self.ev(x, env) for x in e.elts]
        if isinstance(e, ast.Dict):
            out = {}
            for k, v in zip(e.keys, e.values):
                if k is None:
                    out.update(self.ev(v, env))
                else:
                    out[self.ev(k, env)] = self.ev(v, env)
            return out
        if isinstance(e, ast.JoinedStr):
            parts = []
            for v in e.values:
                if isinstance(v, ast.Constant):
                    parts.append(v.value)
                else:
                    if v.format_spec is not None or v.conversion != -1:
                        raise Inconclusive(f'{self.m.relpath}:{e.lineno}: format spec in f-string')
                    parts.append(_fmt(self.ev(v.value, env)))
            return ''.join(parts)
        if isinstance(e, ast.BinOp):
            l, r = self.ev(e.left, env), self.ev(e.right, env)
            if isinstance(e.op, ast.Add):
                return l + r
            if isinstance(e.op, ast.Div):
                return l / r
            if isinstance(e.op, ast.Mult):
                return l * r
            if isinstance(e.op, ast.Sub):
                return l - r
            if isinstance(e.op, ast.BitOr) and isinstance(l, dict):
                return {**l, **r}
        if isinstance(e, ast.ListComp) and len(e.generators) == 1 and isinstance(e.generators[0].target, ast.Name):
            g = e.generators[0]
            out = []
            for item in self.ev(g.iter, env):
                sub = dict(env)
                sub[g.target.id] = item
                if all(self.ev(c, sub) for c in g.ifs):
                    out.append(self.ev(e.elt, sub))
            return out
        if isinstance(e, ast.Call):
            d = self.m.dotted(e.func)
            if isinstance(e.func, ast.Attribute) and e.func.attr == 'copy' and not e.args:
                return dict(self.ev(e.func.value, env))
            if isinstance(e.func, ast.Attribute) and e.func.attr in ('items', 'keys', 'values') and not e.args:
                d0 = self.ev(e.func.value, env)
                if isinstance(d0, dict):
                    return {'items': list(d0.items()), 'keys': list(d0.keys()), 'values': list(d0.values())}[e.func.attr]
            if isinstance(e.func, ast.Name) and e.func.id == 'dict' and len(e.args) <= 1 and not e.keywords:
                return dict(self.ev(e.args[0], env)) if e.args else {}
            if d in ('numpy.divide', 'numpy.true_divide') and len(e.args) == 2:
                return self.ev(e.args[0], env) / self.ev(e.args[1], env)
            if d in ('itertools.product',) and not e.keywords:
                import itertools
                return [tuple(x) for x in itertools.product(*[list(self.ev(a, env)) for a in e.args])]
            if d in ('itertools.chain',) and not e.keywords:
                return [x for a in e.args for x in self.ev(a, env)]
            if isinstance(e.func, ast.Name) and e.func.id == 'zip' and not e.keywords:
                return [tuple(x) for x in zip(*[list(self.ev(a, env)) for a in e.args])]
            if isinstance(e.func, ast.Name) and e.func.id == 'range':
                return list(range(*[self.ev(a, env) for a in e.args]))
            if isinstance(e.func, ast.Name) and e.func.id in ('list', 'tuple', 'sorted') and len(e.args) == 1:
                v = list(self.ev(e.args[0], env))
                return sorted(v) if e.func.id == 'sorted' else v
            if isinstance(e.func, ast.Name) and e.func.id in ('str', 'float', 'int') and len(e.args) == 1:
                v = self.ev(e.args[0], env)
                return {'str': _fmt, 'float': float, 'int': int}[e.func.id](v)
            if isinstance(e.func, ast.Name) and e.func.id in self.funcs:
                f = self.funcs[e.func.id]
                sub = dict(env)
                params = f.params
                defaults = f.node.args.defaults
                for p, dv in zip(params[len(params) - len(defaults):], defaults):
                    sub[p] = self.ev(dv, env)
                for p, a in zip(params, e.args):
                    sub[p] = self.ev(a, env)
                for k in e.keywords:
                    sub[k.arg] = self.ev(k.value, env)
                body = [s for s in f.node.body if not (isinstance(s, ast.Expr) and isinstance(s.value, ast.Constant))]
                for s in body:
                    if isinstance(s, ast.Return):
                        return self.ev(s.value, sub)
                    self.stmt(s, sub)
                raise Inconclusive(f'helper {f.qualname} has no return')
            if isinstance(e.func, ast.Attribute) and e.func.attr == 'format':
                fmt = self.ev(e.func.value, env)
                return fmt.format(*[_fmt(self.ev(a, env)) for a in e.args], **{k.arg: _fmt(self.ev(k.value, env)) for k in e.keywords})
        if isinstance(e, ast.Compare) and len(e.ops) == 1:
            l, r = self.ev(e.left, env), self.ev(e.comparators[0], env)
            return {ast.Eq: l == r, ast.NotEq: l != r, ast.Lt: l < r, ast.Gt: l > r, ast.LtE: l <= r, ast.GtE: l >= r}[type(e.ops[0])]
        raise Inconclusive(f'{self.m.relpath}:{getattr(e, "lineno", 0)}: expression outside the static evaluator: {ast.unparse(e)[:80]}')


def _fmt(v):
    if isinstance(v, float):
        return repr(v)
    return str(v)


def vault_tables(repo, chk):
    try:
        d = repo.mod(DEF)
        env_d = MiniEval(repo, d).run()
        f = repo.mod(FW)
        imp = {k: env_d[k] for k in env_d if isinstance(env_d.get(k), dict) and k.isupper()}
        ev = MiniEval(repo, f, {k: dict(v) for k, v in imp.items()})
        env_f = ev.run()
    except Inconclusive as e:
        chk.unsure('C12.4', 'R12', DEF, 'static evaluation of the vault', str(e))
        return None
    tables = {k: v for k, v in env_d.items() if isinstance(v, dict) and k.isupper()}
    tables['FW_TRANSFORMERS'] = env_f.get('FW_TRANSFORMERS')
    if not isinstance(tables['FW_TRANSFORMERS'], dict):
        chk.bad('C12.4', 'R12', f.relpath, 'FW_TRANSFORMERS', 'the fw preset table is not built as a dict')
        return None
    tables['__fw_sites__'] = env_f.get('__sites__', {})
    chk.analysed['vault_tables'] = {k: len(v) for k, v in tables.items() if not k.startswith('__')}
    return tables


def _formula_term(m, src):
    try:
        e = ast.parse(src, mode='eval').body
    except SyntaxError:
        return None
    return Canon(m, Scope(None), inline=False, bound={'X': ('role', 'X'), 'np': ('name', 'np')}).t(_np(e))


class _NpRewrite(ast.NodeTransformer):
    def visit_Attribute(self, node):
        self.generic_visit(node)
        if isinstance(node.value, ast.Name) and node.value.id == 'np':
            return ast.copy_location(ast.Attribute(ast.Name('numpy', ast.Load()), node.attr, ast.Load()), node)
        return node


def _np(e):
    return ast.fix_missing_locations(_NpRewrite().visit(e))


FW_NAME = re.compile(r'^_tr_fw_(prob_)?(sqrt|log)_res_([0-9.eE+-]+)_gt_([0-9.eE+-]+)$')


def fw_family(repo, chk, tables):
    m = repo.mod(FW)
    fw = tables['FW_TRANSFORMERS']
    base = tables.get('DEFAULT_TRANSFORMERS', {})
    generated = {k: v for k, v in fw.items() if k not in base}
    chk.require_count('generated fw transformers', len(generated), 128)
    n_ok = 0
    first_bad = None
    nbad = 0
    for name, formula in generated.items():
        mt = FW_NAME.match(name)
        if not mt or not isinstance(formula, str):
            nbad += 1
            first_bad = first_bad or (name, formula, 'name does not follow _tr_fw_[prob_]<f>_res_<R>_gt_<T>')
            continue
        f, R, T = mt.group(2), mt.group(3), mt.group(4)
        want = _formula_term(m, f'np.where(X < {T}, X, np.where(X > {T}, np.round(np.{f}(X - {T}) * {R}, 0), 0))')
        got = _formula_term(m, formula)
        if got is not None and got == want:
            n_ok += 1
        else:
            nbad += 1
            first_bad = first_bad or (name, formula, f'the name declares f={f}, resolution {R}, threshold {T}')
    if nbad == 0:
        chk.ok('C12.4', 'R12', m.relpath, f'{n_ok} generated fw entries', 'every generated formula is where(X < T, X, where(X > T, round(f(X - T) * R, 0), 0)) with f, R, T exactly those in its name', inspected=n_ok)
    else:
        name, formula, why = first_bad
        site = tables['__fw_sites__'].get(('FW_TRANSFORMERS', name))
        chk.bad('C12.4', 'R12', f'{m.relpath}:{getattr(site, "lineno", 0)} <module>', f'{name} = {formula}', f'{nbad} of {len(generated)} generated fw entries do not compute what their name says ({why}); expected where(X < T, X, where(X > T, round(f(X - T) * R, 0), 0))')
    # the fw table still contains the default ones
    missing = [k for k in base if k not in fw or fw[k] != base[k]]
    chk.expect(not missing, 'C12.4b', 'R6', m.relpath, f'FW_TRANSFORMERS contains DEFAULT_TRANSFORMERS ({len(base)} entries)', 'fw preset extends the default one', f'default entries missing/changed in the fw preset: {missing[:3]}')


NAME_AGGS = {'max': 'max', 'min': 'min', 'mean': 'mean', 'median': 'median', 'std': 'std'}
NAME_FUNCS = {'sqrt': 'numpy.sqrt', 'log': 'numpy.log', 'abs': 'numpy.abs', 'div': 'numpy.divide', 'pow': 'numpy.power', 'round': 'numpy.round'}


def _name_expr_term(m, name):
    """canonical term of the expression spelled by the transformer name, or None"""
    txt = name[len('_tr_'):]
    try:
        e = ast.parse(txt, mode='eval').body
    except SyntaxError:
        return None
    if isinstance(e, ast.Name) and e.id in NAME_FUNCS:
        e = ast.Call(ast.Name(e.id, ast.Load()), [ast.Name('x', ast.Load())], [])
    # a bare aggregate name is that aggregate of the column (div(x,max) = x / max(x)); round(e) rounds to 0 decimals
    class _Agg(ast.NodeTransformer):
        def visit_Call(self, node):
            node.args = [self.visit(a) for a in node.args]
            if isinstance(node.func, ast.Name) and node.func.id == 'round' and len(node.args) == 1:
                node.args.append(ast.Constant(0))
            return node

        def visit_Name(self, node):
            if node.id in NAME_AGGS:
                return ast.Call(ast.Attribute(ast.Name('numpy', ast.Load()), NAME_AGGS[node.id], ast.Load()), [ast.Name('x', ast.Load())], [])
            return node
    e = ast.fix_missing_locations(_Agg().visit(e))
    names = {n.id for n in ast.walk(e) if isinstance(n, ast.Name)}
    if not names <= set(NAME_FUNCS) | {'x', 'numpy'} or 'x' not in names:
        return None
    for n in ast.walk(e):
        if isinstance(n, ast.Call) and not (isinstance(n.func, ast.Name) and n.func.id in NAME_FUNCS) and not (isinstance(n.func, ast.Attribute) and n.func.attr in NAME_AGGS.values()):
            return None
        if isinstance(n, ast.Name) and n.id in NAME_FUNCS:
            pass
    src = ast.unparse(e)
    for k, v in NAME_FUNCS.items():
        src = re.sub(rf'\b{k}\(', v + '(', src)
    src = re.sub(r'\bx\b', 'X', src)
    try:
        return Canon(m, Scope(None), inline=False, bound={'X': ('role', 'X')}).t(ast.parse(src, mode='eval').body)
    except SyntaxError:
        return None


def cross_preset(repo, chk, tables):
    m = repo.mod(DEF)
    by_name = {}
    for tname, tab in tables.items():
        if tname.startswith('__') or not isinstance(tab, dict):
            continue
        for k, v in tab.items():
            by_name.setdefault(k, []).append((tname, v))
    shared = {k: v for k, v in by_name.items() if len(v) > 1}
    nbad = 0
    for k, lst in shared.items():
        terms = {repr(_formula_term(m, f)) for _, f in lst if isinstance(f, str)}
        if len(terms) != 1:
            nbad += 1
            chk.bad('C12.5a', 'R6', m.relpath, f'{k}: ' + '; '.join(f'{t}: {f}' for t, f in lst)[:200], f'transformer {k} maps to different formulas in different presets')
    if nbad == 0:
        chk.ok('C12.5a', 'R6', m.relpath, f'{len(shared)} names shared between presets', 'a shared name means the same formula in every preset', inspected=len(shared))
    checked = 0
    for k, lst in by_name.items():
        want = _name_expr_term(m, k)
        if want is None:
            continue
        for tname, f in lst:
            got = _formula_term(m, f) if isinstance(f, str) else None
            checked += 1
            if got != want:
                chk.bad('C12.5b', 'R15', m.relpath, f'{tname}[{k!r}] = {f!r}', f'the formula is not the expression spelled by the transformer name ({k[4:]}); expected {show(want)[:100]}, found {show(got)[:100] if got else f}')
    chk.require_count('transformer names that parse as expressions', checked, 10)
    if not any(o.oid == 'C12.5b' and o.status == 'violated' for o in chk.obs):
        chk.ok('C12.5b', 'R15', m.relpath, f'{checked} (preset, name) entries whose name parses as an expression', 'formula = the expression in the name', inspected=checked)


def show_src(fn, expr):
    """source text of expr with single-definition locals substituted (for building oracle terms)"""
    import copy
    sc = Scope(fn)

    class T(ast.NodeTransformer):
        def visit_Name(self, node):
            d = sc.single_def(node.id)
            if d is not None and node.id != 'X':
                return T().visit(copy.deepcopy(d))
            return node
    return ast.unparse(T().visit(copy.deepcopy(expr)))


# -- 7 the transformer applied to a batch is built for that call ---------------------------------------------------------------
def transformer_per_call(repo, chk):
    """C12.7 - enrich_with_transformations applies a FeatureTransformerGeneric built from ITS arguments (numeric column types, preset).  A transformer
    taken from process-level state was built for an earlier call: its numeric columns and preset need not be this call's, so columns are emitted
    under names whose formula was never applied to them / columns that should be transformed are not."""
    CRm = 'outrank.core_ranking'
    fn = repo.mod(CRm).funcs.get('enrich_with_transformations')
    if fn is None:
        chk.unsure('C12.7', 'R10', 'outrank/core_ranking.py', 'enrich_with_transformations', 'the step that applies the transformer was not found')
        return
    m = fn.module
    cs = [c for c in calls(fn, attr='construct_new_features')]
    if not cs:
        chk.unsure('C12.7', 'R10', fn.site(), 'construct_new_features', 'no application of the transformer found')
        return
    module_state = {k for k, vs in m.assigns.items() if any(isinstance(v, (ast.Dict, ast.List, ast.Set, ast.Call)) or (isinstance(v, ast.Constant) and v.value is None) for v in vs)}
    verdicts = []
    for c in cs:
        recv = c.func.value
        sources = [recv]
        seen = set()
        work = [recv]
        while work:
            e = work.pop()
            for x in ast.walk(e):
                if isinstance(x, ast.Name) and x.id not in seen and x.id not in fn.params:
                    seen.add(x.id)
                    for n in own_nodes(fn.node):
                        if isinstance(n, ast.Assign) and any(isinstance(t, ast.Name) and t.id == x.id for t in n.targets):
                            sources.append(n.value)
                            work.append(n.value)
                        elif isinstance(n, ast.NamedExpr) and n.target.id == x.id:
                            sources.append(n.value)
                            work.append(n.value)
        state = sorted({x.id for e in sources for x in ast.walk(e) if isinstance(x, ast.Name) and x.id in module_state and x.id not in fn.params})
        cached = sorted({d.func.id if isinstance(d.func, ast.Name) else ast.unparse(d.func) for d_ in [fn.node] for d in d_.decorator_list if isinstance(d, ast.Call)} |
                        {ast.unparse(d) for d in fn.node.decorator_list if not isinstance(d, ast.Call)})
        ctor = [e for e in sources if isinstance(e, ast.Call) and (m.dotted(e.func) or '').endswith('FeatureTransformerGeneric')]
        if state:
            chk.bad('C12.7', 'R10', fn.site(c), ast.unparse(c)[:100], f'the transformer applied to this batch can come from the module-level {", ".join(state)}: it was built from the numeric column types (and preset) of an earlier call, '
                    'so the numeric columns of THIS call are not the ones that are transformed')
        elif any('cache' in d for d in cached):
            chk.bad('C12.7', 'R10', fn.site(), ', '.join(cached), 'enrich_with_transformations is memoised: a later batch with equal-comparing arguments gets the frame computed for an earlier batch')
        elif len(ctor) >= 1 and all(any(isinstance(x, ast.Name) and x.id in fn.params for x in ast.walk(e)) for e in ctor):
            chk.ok('C12.7', 'R10', fn.site(c), ast.unparse(ctor[0]).replace('\n', ' ')[:100], 'the transformer is constructed in this call from its own arguments')
        else:
            chk.unsure('C12.7', 'R10', fn.site(c), ast.unparse(c)[:100], 'where the transformer applied to the batch is constructed could not be determined')
