"""C11 - feature construction is additive, row-aligned and follows its stated rule.

 1 (R11) every constructor returns its input frame or pd.concat([input, new], axis=1) with the input first; none stores into,
         drops from, sorts or re-indexes the input (also not through a helper it hands the frame to); compute_batch_ranking threads
         one frame through them
 2 (R13) every per-row list gets exactly one append on every path of the row-loop body; per-row comprehensions are unfiltered
 3       MULTIEX: '1' iff token-set membership (never substring membership); missing symbols removed from the token universe
 4       sub-features: one-sided = join(pair) iff pair[1] == value else ''; two-sided = '1' iff both components equal the mask else '0'
 5       CONTROL-target is the label column of the input, unmodified
"""
from __future__ import annotations

import ast

from ..cfg import CFG
from ..match import bind_args, calls, expected_term, returns, term_of
from ..model import own_nodes, parents
from ..terms import Canon, Scope, show
from .common import CR

EXPLANATION = ('Ownership / append-only rule (R11) on the five feature constructors and the helpers they hand the frame to; chain of custody of the frame through compute_batch_ranking; '
               'accumulator discipline (R13: exactly one append per row on every path of the row loop, by path enumeration on the CFG); canonical-term equality (R15) of the MULTIEX membership test, '
               'the two sub-feature rules and the target control. Decides construction shape, not frame contents.')
TRUSTED_BASE = ['pd.concat([a, b], axis=1) on two equal RangeIndex frames is positional and keeps a\'s columns first, unchanged',
                '`x in set(...)` is token membership; `str.contains` / `in str` is substring membership']
ASSUMPTIONS = ['new frames are built from per-row lists of the same length as the input (obligation 2)']

RT = 'outrank.feature_transformations.ranking_transformers'
MUTATING = {'drop', 'pop', 'sort_values', 'sort_index', 'reset_index', 'set_index', 'insert', 'rename', 'sample', 'dropna', 'fillna', 'reindex', 'drop_duplicates', 'update', 'replace', 'astype', 'iloc', 'loc'}


def run(repo, chk, tier):
    constructors = [
        (repo.func(CR, 'compute_expanded_multivalue_features'), 'C11.1-multiex'),
        (repo.func(CR, 'compute_subfeatures'), 'C11.1-subfeatures'),
        (repo.func(CR, 'compute_combined_features'), 'C11.1-interactions'),
        (repo.func(RT, 'FeatureTransformerGeneric.construct_new_features'), 'C11.1-transformers'),
        (repo.func(RT, 'FeatureTransformerNoise.construct_new_features'), 'C11.1-noise'),
    ]
    for fn, oid in constructors:
        frame = [p for p in fn.params if p != 'self'][0]
        append_only_rule(repo, chk, fn, frame, oid)
    wrappers(repo, chk)
    custody(repo, chk)
    one_value_per_row(repo, chk)
    multiex_rule(repo, chk)
    subfeature_rules(repo, chk)
    shared_key_tables(repo, chk)
    target_control(repo, chk)


def _root(e):
    while isinstance(e, (ast.Subscript, ast.Attribute)):
        e = e.value
    return e.id if isinstance(e, ast.Name) else None


def append_only_rule(repo, chk, fn, frame, oid, depth=0):
    m = fn.module
    stmts = sorted([n for n in own_nodes(fn.node) if isinstance(n, ast.stmt)], key=lambda s: (s.lineno, s.col_offset))
    rebinds = [s for s in stmts if isinstance(s, ast.Assign) and any(isinstance(t, ast.Name) and t.id == frame for t in s.targets)]
    first_rebind = min((s.lineno for s in rebinds), default=10 ** 9)
    viol = []
    # stores / mutations while the name still denotes the caller's frame
    for n in own_nodes(fn.node):
        line = getattr(n, 'lineno', 0)
        if line > first_rebind:
            continue
        if isinstance(n, (ast.Assign, ast.AugAssign)):
            for t in (n.targets if isinstance(n, ast.Assign) else [n.target]):
                if isinstance(t, (ast.Subscript, ast.Attribute)) and _root(t) == frame:
                    viol.append((n, 'stores into the input frame'))
        if isinstance(n, ast.Delete) and any(_root(t) == frame for t in n.targets):
            viol.append((n, 'deletes from the input frame'))
        if isinstance(n, ast.Call):
            if any(k.arg == 'inplace' and isinstance(k.value, ast.Constant) and k.value.value is True for k in n.keywords) and isinstance(n.func, ast.Attribute) and _root(n.func.value) == frame:
                viol.append((n, 'modifies the input frame in place'))
            # helpers receiving the frame
            if depth < 2:
                d = m.dotted(n.func)
                tgt = repo.find_func(d) if d else None
                if tgt is None and isinstance(n.func, ast.Attribute) and isinstance(n.func.value, ast.Name) and n.func.value.id == 'self' and fn.cls is not None:
                    tgt = m.funcs.get(fn.cls.name + '.' + n.func.attr)
                if tgt is not None and tgt is not fn:
                    ba = bind_args(n, tgt, skip_self=tgt.cls is not None and isinstance(n.func, ast.Attribute))
                    for pname, a in ba.items():
                        if isinstance(a, ast.Name) and a.id == frame:
                            sub = _stores_into(tgt, pname)
                            for node, why in sub:
                                viol.append((node, f'{why} (in helper {tgt.qualname}, which receives the input frame as `{pname}`)', tgt))
    for v in viol:
        node, why = v[0], v[1]
        owner = v[2] if len(v) > 2 else fn
        chk.bad(oid, 'R11', owner.site(node), ast.unparse(node)[:120], f'{fn.qualname} {why}: the step is no longer append-only (original columns / values / row order change)')
    # what is returned, on every path, written over the parameters: pd.concat([<input frame>, <frame of the new columns>], axis=1)
    from ..match import run_paths
    from ..terms import pattern, unify, walk_term
    paths = run_paths(fn, None, None, max_forks=6)
    F = ('name', frame)
    good_pats = [pattern(m, f'pandas.concat([{frame}, NEW], axis=1)', ['NEW']), pattern(m, f'pandas.concat(({frame}, NEW), axis=1)', ['NEW']), pattern(m, f"pandas.concat([{frame}, NEW], axis='columns')", ['NEW']),
                 pattern(m, f'pandas.concat([{frame}, NEW], axis=1, copy=CP)', ['NEW', 'CP'])]
    join_pats = [pattern(m, f'{frame}.join(NEW)', ['NEW']), pattern(m, f'{frame}.merge(NEW, left_index=True, right_index=True)', ['NEW'])]
    ok_all, any_new = True, False
    if paths is None:
        chk.unsure(oid, 'R11', fn.site(), 'return <extended frame>', 'too many undecidable tests to evaluate what the constructor returns')
        ok_all = False
        paths = []
    seen_terms = set()
    for assume, res in paths:
        if res.raised is not None and res.returned is None:
            continue
        if res.unknown is not None or res.returned is None:
            chk.unsure(oid, 'R11', fn.site(res.unknown) if res.unknown is not None else fn.site(), 'return <extended frame>', 'a statement outside the path vocabulary decides what the constructor returns')
            ok_all = False
            continue
        rt = term_of(fn, res.returned, inline=False)
        if rt in seen_terms:
            continue
        seen_terms.add(rt)
        site = fn.site(res.returned) if hasattr(res.returned, 'lineno') else fn.site()
        shown = ast.unparse(res.returned)[:140]
        if rt == F:
            continue        # nothing constructed on this path (e.g. no specification given): the input itself
        b = None
        for gp in good_pats:
            b = unify(gp, rt)
            if b is not None:
                break
        if b is None and any(unify(jp, rt) is not None for jp in join_pats):
            # a relational join on the row labels: with repeated labels every left row is paired with EVERY new row of that label
            chk.bad(oid, 'R11', site, shown, f'the new columns are attached with a join on the row labels instead of pd.concat([{frame}, <new columns>], axis=1): on a frame with repeated row labels the rows multiply and '
                    'carry the new values of other rows, so the original rows / row count are not preserved')
            ok_all = False
            continue
        if b is not None:
            new_t = b['NEW']
            if any(x == F for x in walk_term(new_t)) and new_t[:2] != ('call', ('lib', 'pandas.DataFrame')):
                chk.unsure(oid, 'R11', site, shown, 'the appended part is itself computed from the input frame in a way that is not recognised as a frame of new columns')
                ok_all = False
            else:
                any_new = True
            continue
        ok_all = False
        derived = any(x == F for x in walk_term(rt))
        concat_like = any(isinstance(x, tuple) and x[:2] in (('call', ('lib', 'pandas.concat')),) for x in walk_term(rt))
        if derived and (concat_like or rt[0] in ('sub', 'call')):
            chk.bad(oid, 'R11', site, shown, f'the frame is re-bound to something other than pd.concat([{frame}, <new columns>], axis=1): original columns, their values or the row order are not preserved', soft=not concat_like)
        elif not derived:
            chk.bad(oid, 'R11', site, shown, f'{fn.qualname} must return the (extended) input frame', soft=True)
        else:
            chk.unsure(oid, 'R11', site, shown, 'the returned frame is derived from the input in a way outside the vocabulary of append-only constructions')
    if depth == 0 and paths:
        if any_new:
            chk.ok(oid + '-new', 'R11', fn.site(), f'pd.concat([{frame}, <new columns>], axis=1)', 'the constructed columns are appended')
        elif ok_all:
            chk.bad(oid + '-new', 'R11', fn.site(), f'{frame} = pd.concat([{frame}, pd.DataFrame(<new columns>)], axis=1)', f'{fn.qualname} never appends the columns it constructs (no pd.concat of the input with the frame built from its new-column dict): the constructed features do not reach the ranked frame')
    if not viol and ok_all:
        chk.ok(oid, 'R11', fn.site(), f'{fn.qualname}: returns pd.concat([{frame}, new], axis=1) on every constructing path; no store into {frame}', 'append-only: input first, only new columns added', inspected=len(stmts))


def _stores_into(fn, pname):
    out = []
    for n in own_nodes(fn.node):
        if isinstance(n, (ast.Assign, ast.AugAssign)):
            for t in (n.targets if isinstance(n, ast.Assign) else [n.target]):
                if isinstance(t, (ast.Subscript, ast.Attribute)) and _root(t) == pname:
                    out.append((n, 'stores into the frame'))
        if isinstance(n, ast.Call) and any(k.arg == 'inplace' and isinstance(k.value, ast.Constant) and k.value.value is True for k in n.keywords) and isinstance(n.func, ast.Attribute) and _root(n.func.value) == pname:
            out.append((n, 'modifies the frame in place'))
        if isinstance(n, ast.Delete) and any(_root(t) == pname for t in n.targets):
            out.append((n, 'deletes from the frame'))
    return out


def wrappers(repo, chk):
    for name, callee_attr in (('enrich_with_transformations', 'construct_new_features'), ('include_noisy_features', 'construct_new_features')):
        fn = repo.func(CR, name)
        frame = fn.params[0]
        cs = [c for c in calls(fn, attr=callee_attr)]
        rets = returns(fn)

        def frame_arg(c):
            # the frame is handed over positionally (first) or by keyword; nothing else is a frame
            cands = list(c.args[:1]) + [k.value for k in c.keywords if k.arg in ('dataframe', 'df', 'input_dataframe', 'data')]
            return len(cands) == 1 and ast.unparse(cands[0]) == frame
        # the noise constructor is told which column is the label (second parameter): without it the default None applies and the control that copies
        # the label (CONTROL-target) is never built
        if name == 'include_noisy_features' and len(cs) == 1:
            tgt_ = repo.func(RT, 'FeatureTransformerNoise.construct_new_features')
            ps_ = [q for q in tgt_.params if q != 'self']
            if len(ps_) >= 2:
                ba_ = bind_args(cs[0], tgt_, skip_self=True)
                lab = ba_.get(ps_[1])
                if lab is None and not any(k.arg is None for k in cs[0].keywords):
                    chk.bad('C11.5w', 'R6', fn.site(cs[0]), ast.unparse(cs[0]).replace('\n', ' ')[:120], f'the noise constructor is called without its `{ps_[1]}` argument: the default applies, no label is known, and the '
                            'control column that replicates the label (CONTROL-target) is not appended')
                elif lab is not None and 'label' not in ast.unparse(lab):
                    chk.unsure('C11.5w', 'R6', fn.site(cs[0]), ast.unparse(cs[0]).replace('\n', ' ')[:120], f'what is handed to `{ps_[1]}` of the noise constructor is not visibly the configured label column')
        ok = len(cs) == 1 and frame_arg(cs[0]) and len(rets) == 1
        if ok and isinstance(rets[0].value, ast.Name):
            par = parents(fn.node)
            st = par.get(cs[0])
            ok = isinstance(st, ast.Assign) and isinstance(st.targets[0], ast.Name) and st.targets[0].id == rets[0].value.id and \
                sum(1 for n in own_nodes(fn.node) if isinstance(n, ast.Name) and isinstance(n.ctx, ast.Store) and n.id == rets[0].value.id) == 1
        elif ok:
            ok = rets[0].value is cs[0]
        if not ok and len(cs) == 1 and len(rets) > 1 and frame_arg(cs[0]):
            # several returns: each must hand back what the constructor returned for THIS frame; a return of something assembled from
            # module-level state (a cache of an earlier batch's columns) is decided positively
            m_ = fn.module
            state = {k for k, vs in m_.assigns.items() if any(isinstance(v, (ast.Dict, ast.List, ast.Set, ast.Call)) for v in vs)} - set(fn.params)

            def reads_state(e, depth=0):
                for x in ast.walk(e):
                    if isinstance(x, ast.Name) and x.id in state:
                        return x.id
                    if isinstance(x, ast.Name) and depth < 3:
                        for n in own_nodes(fn.node):
                            if isinstance(n, ast.Assign) and any(isinstance(t, ast.Name) and t.id == x.id for t in n.targets) and n.value is not e:
                                r_ = reads_state(n.value, depth + 1)
                                if r_:
                                    return r_
                return None
            par = parents(fn.node)
            st = par.get(cs[0])
            res_name = st.targets[0].id if isinstance(st, ast.Assign) and isinstance(st.targets[0], ast.Name) else None
            bad_ret = None
            for r in rets:
                if r.value is cs[0] or (isinstance(r.value, ast.Name) and r.value.id == res_name):
                    continue
                src = reads_state(r.value) if r.value is not None else None
                if src:
                    bad_ret = (r, src)
                    break
            if bad_ret:
                chk.bad('C11.1w', 'R11', fn.site(bad_ret[0]), ast.unparse(bad_ret[0])[:120], f'{name} returns a frame assembled from the module-level {bad_ret[1]} instead of what the constructor returned for this frame: '
                        'columns computed for an earlier batch are attached to the rows of this one (not one value per row OF THIS BATCH, not the stated rule applied to it)')
                continue
        if not ok and (len(cs) != 1 or len(rets) != 1):
            chk.unsure('C11.1w', 'R11', fn.site(), f'{name}: return transformer.{callee_attr}({frame}, ...)', f'{len(cs)} application(s) of the constructor and {len(rets)} return(s) in {name}: how the result reaches the caller is not decided')
            continue
        chk.expect(ok, 'C11.1w', 'R11', fn.site(), f'{name}: return transformer.{callee_attr}({frame}, ...)', 'the wrapper returns what the constructor returns', f'{name} must hand its input frame to the constructor and return the constructor\'s result unchanged')


def custody(repo, chk):
    """compute_batch_ranking evaluated as one path with every construction step switched on: the frame that reaches the ranking must be the nested
    application of the steps - each step receives, as its frame, what the previous step returned (so no column constructed earlier is lost),
    starting from the frame built from the batch - and no step's result is discarded."""
    from ..match import PathEval
    from ..terms import walk_term
    fn = repo.func(CR, 'compute_batch_ranking')
    m = fn.module
    steps = ['enrich_with_transformations', 'compute_expanded_multivalue_features', 'compute_subfeatures', 'compute_combined_features', 'include_noisy_features']
    step_libs = {('lib', f'{CR}.{s_}'): s_ for s_ in steps}

    def other(t, pe):
        txt = ast.unparse(t)
        if 'feature_set_focus' in txt or 'task' in txt:
            return False
        return True
    pe = PathEval(fn, None, None, other)
    pe.eval_closures = True
    res = pe.run()
    if res.unknown is not None or res.returned is None:
        chk.unsure('C11.1c', 'R11', fn.site(res.unknown) if res.unknown is not None else fn.site(), 'compute_batch_ranking', 'the path on which every construction step is enabled could not be evaluated')
        return
    rt = term_of(fn, res.returned, inline=False)
    # the frame handed to the ranking: first argument of mixed_rank_graph
    ranked = next((x[2][0] for x in walk_term(rt) if isinstance(x, tuple) and len(x) == 4 and x[0] == 'call' and x[1] == ('lib', f'{CR}.mixed_rank_graph') and x[2]), None)
    if ranked is None:
        chk.unsure('C11.1c', 'R11', fn.site(), show(rt)[:120], 'the frame handed to mixed_rank_graph was not found in the returned value')
        return
    # walk the nest from the outside in
    chain = []
    cur = ranked
    while isinstance(cur, tuple) and len(cur) == 4 and cur[0] == 'call' and cur[1] in step_libs and cur[2]:
        chain.append(step_libs[cur[1]])
        cur = cur[2][0]
    all_step_calls = [step_libs[x[1]] for x in walk_term(ranked) if isinstance(x, tuple) and len(x) == 4 and x[0] == 'call' and x[1] in step_libs]
    shown = ' <- '.join(chain) or show(ranked)[:100]
    base_ok = any(x == ('lib', 'pandas.DataFrame') for x in walk_term(cur)) and not any(isinstance(x, tuple) and len(x) == 4 and x[0] == 'call' and x[1] in step_libs for x in walk_term(cur))
    discarded = [c for c in res.calls if (m.dotted(c['call'].func) or '').startswith(CR + '.') and (m.dotted(c['call'].func) or '').split('.')[-1] in steps]
    for c in discarded:
        chk.bad('C11.1c', 'R11', fn.site(c['node']), ast.unparse(c['node']).replace('\n', ' ')[:120], 'the result of a construction step is discarded: its new columns never reach the ranked frame')
    if len(all_step_calls) > len(chain):
        lost = [s_ for s_ in all_step_calls if s_ not in chain] or all_step_calls[len(chain):]
        chk.bad('C11.1c', 'R11', fn.site(), shown, f'the construction steps are not applied to one another\'s results: `{chain[-1] if chain else "the ranking"}` receives a frame that `{lost[0]}` (and the steps before it) did not go into / `{lost[0]}` is applied to a frame that is not the running one, so columns constructed earlier are lost')
    elif len(chain) >= 6 and base_ok:
        chk.ok('C11.1c', 'R11', fn.site(), shown, 'every construction step receives the frame returned by the previous one; the ranked frame is their composition over the batch frame', inspected=len(chain))
    elif not discarded:
        # fewer steps than the five constructors (six applications) reach the ranked frame on the all-enabled path
        missing = [s_ for s_ in steps if s_ not in chain]
        enabled_tests = sum(1 for _t, v in res.assumed if v)
        if missing and base_ok:
            # decided positively when the path did switch the steps on (their enabling tests were taken) and their result is nevertheless absent
            chk.bad('C11.1c', 'R11', fn.site(), shown, f'with every step enabled ({enabled_tests} enabling tests taken) the ranked frame does not go through {missing}: the columns these steps construct never reach the ranking '
                    '(a later step is applied to a frame from before them)', soft=enabled_tests < 6)
        else:
            chk.unsure('C11.1c', 'R11', fn.site(), shown, 'the frame handed to the ranking is not recognised as the composition of the construction steps over the batch frame')
    found = len(chain)
    chk.analysed['construction_steps_in_ranked_frame'] = chain
    # between the steps nothing may replace a column the batch came with
    from .common import column_overwrites
    ow = column_overwrites(fn)
    for n, F, k, why in ow:
        chk.bad('C11.1e', 'R11', fn.site(n), ast.unparse(n).replace('\n', ' ')[:120], f'compute_batch_ranking replaces an existing column of the batch frame ({why}): the values the batch came with are not the values that are ranked and '
                'summarised - construction must only append columns')
    if not ow:
        chk.ok('C11.1e', 'R11', fn.site(), 'stores into the batch frame in compute_batch_ranking', 'no statement of compute_batch_ranking (helpers expanded) stores into an existing column of the running frame')
    # the scored frame is that frame (C11.1d is part of the composition above: `ranked` is the argument of mixed_rank_graph)
    cs = [c for c in calls(fn) if m.dotted(c.func) == f'{CR}.mixed_rank_graph']
    chk.expect(len(cs) == 1, 'C11.1d', 'R11', fn.site(cs[0]) if cs else fn.site(), ast.unparse(cs[0])[:80] if cs else '', 'the ranked frame is the constructed frame', 'mixed_rank_graph must receive the constructed frame (one call)')


def _count_appends_paths(fn, loop, lst):
    """set of append counts to `lst` over all paths of one iteration of `loop`"""
    cfg = CFG(fn.node)
    head = next(n for n in cfg.nodes if n.kind == 'for' and n.ast is loop)
    body = next(n for n in cfg.nodes if n.kind == 'branch' and n.ast is loop and n.polarity is True)
    counts = set()

    def is_app(n):
        s = n.ast
        return n.kind == 'stmt' and isinstance(s, ast.Expr) and isinstance(s.value, ast.Call) and isinstance(s.value.func, ast.Attribute) and s.value.func.attr == 'append' and isinstance(s.value.func.value, ast.Name) and s.value.func.value.id == lst
    inner_loops = {n.id for n in cfg.nodes if n.kind == 'for' and n.ast is not loop and any(x is n.ast for x in ast.walk(loop))}
    # DFS over acyclic paths body -> head (or out of the loop via break/return)
    stack = [(body.id, 0, frozenset())]
    exits = {head.id, cfg.exit.id, cfg.raise_exit.id}
    done = next(n for n in cfg.nodes if n.kind == 'branch' and n.ast is loop and n.polarity is False)
    steps = 0
    while stack and steps < 20000:
        steps += 1
        x, c, seen = stack.pop()
        if x in exits or x == done.id:
            counts.add(c)
            continue
        if x in seen:
            continue
        n = cfg.nodes[x]
        c2 = c + (1 if is_app(n) else 0)
        for y in cfg.succ[x]:
            stack.append((y, c2, seen | {x}))
    return counts


def one_value_per_row(repo, chk):
    n_lists = 0
    for fname in ('compute_expanded_multivalue_features', 'compute_subfeatures'):
        fn = repo.func(CR, fname)
        par = parents(fn.node)
        # lists that become columns: D[name] = L
        cols = {}
        for n in own_nodes(fn.node):
            if isinstance(n, ast.Assign) and isinstance(n.targets[0], ast.Subscript) and isinstance(n.value, ast.Name):
                cols.setdefault(n.value.id, []).append(n)
        for lst, stores in cols.items():
            defs = [n for n in own_nodes(fn.node) if isinstance(n, ast.Assign) and isinstance(n.targets[0], ast.Name) and n.targets[0].id == lst]
            for d in defs:
                if isinstance(d.value, ast.List) and not d.value.elts:
                    # filled by a row loop: innermost loop containing the appends
                    apps = [c for c in own_nodes(fn.node) if isinstance(c, ast.Call) and isinstance(c.func, ast.Attribute) and c.func.attr == 'append' and isinstance(c.func.value, ast.Name) and c.func.value.id == lst and c.lineno > d.lineno]
                    if not apps:
                        continue
                    lp = par.get(apps[0])
                    while lp is not None and not isinstance(lp, ast.For):
                        lp = par.get(lp)
                    if lp is None:
                        continue
                    n_lists += 1
                    counts = _count_appends_paths(fn, lp, lst)
                    chk.expect(counts == {1}, 'C11.2', 'R13', fn.site(lp), f'{lst}: appends per row over all paths = {sorted(counts)}', 'exactly one value per row on every path', f'the per-row list `{lst}` receives {sorted(counts)} values per row depending on the path: the new column is not row-aligned / has the wrong length')
                    per_row = {n.targets[0].id for n in own_nodes(fn.node) if isinstance(n, ast.Assign) and isinstance(n.targets[0], ast.Name) and isinstance(n.value, ast.ListComp) and not n.value.generators[0].ifs
                               and ('split' in ast.unparse(n.value.elt) or 'zip(' in ast.unparse(n.value))}
                    it_src = lp.iter.args[0] if isinstance(lp.iter, ast.Call) and isinstance(lp.iter.func, ast.Name) and lp.iter.func.id == 'enumerate' and lp.iter.args else lp.iter
                    rows_ok = isinstance(it_src, ast.Name) and it_src.id in per_row
                    chk.expect(rows_ok, 'C11.2b', 'R13', fn.site(lp), ast.unparse(lp.iter), 'the row loop ranges over all rows of the source column(s)', f'the row loop must range over every row of the source column; it ranges over {ast.unparse(lp.iter)}', soft=True)
                elif isinstance(d.value, ast.ListComp):
                    n_lists += 1
                    g = d.value.generators[0]
                    chk.expect(not g.ifs and len(d.value.generators) == 1, 'C11.2', 'R13', fn.site(d), ast.unparse(d).replace('\n', ' ')[:140], 'unfiltered comprehension over the rows: one value per row', 'the per-row comprehension filters rows: the new column is shorter than the frame / mis-aligned')
    chk.require_count('per-row lists that become columns', n_lists, 3)


def multiex_rule(repo, chk):
    fn = repo.func(CR, 'compute_expanded_multivalue_features')
    m = fn.module
    E = lambda s: expected_term(m, s)
    # token sets
    sets = [n for n in own_nodes(fn.node) if isinstance(n, ast.Assign) and isinstance(n.value, ast.ListComp) and isinstance(n.value.elt, ast.Call) and isinstance(n.value.elt.func, ast.Name) and n.value.elt.func.id == 'set']
    ok_sets = False
    sname = None
    if len(sets) == 1:
        sname = sets[0].targets[0].id
        lc = sets[0].value
        v = lc.generators[0].target.id
        ok_sets = ast.unparse(lc.elt) in (f"set({v}.split('-'))",) and not lc.generators[0].ifs
        src = lc.generators[0].iter
        srcdefs = [ast.unparse(n.value).replace('\n', '').replace(' ', '') for n in own_nodes(fn.node) if isinstance(n, ast.Assign) and isinstance(n.targets[0], ast.Name) and isinstance(src, ast.Name) and n.targets[0].id == src.id]
        ok_src = any(".replace(',','-')" in d and 'if' not in d for d in srcdefs) and any('tolist()' in d for d in srcdefs)
        ok_sets = ok_sets and ok_src
    chk.expect(ok_sets, 'C11.3a', 'R15', fn.site(sets[0]) if sets else fn.site(), ast.unparse(sets[0]).replace('\n', ' ')[:140] if sets else 'multivalue_sets = [set(x.split("-")) ...]', 'each row value is split into its set of tokens', "each row's delimited value must be split into the set of its tokens (',' and '-' delimited)", soft=True)
    # the per-row token sets are what the indicators are read from: none of them may be changed - a name bound to ONE row's set (sets[0], the loop
    # variable over the sets) that is then extended (update / add / |=) puts other rows' tokens into that row
    if sname:
        row_alias = {}
        for n in own_nodes(fn.node):
            if isinstance(n, ast.Assign) and len(n.targets) == 1 and isinstance(n.targets[0], ast.Name) and isinstance(n.value, ast.Subscript) and isinstance(n.value.value, ast.Name) and n.value.value.id == sname \
                    and not isinstance(n.value.slice, ast.Slice):
                row_alias[n.targets[0].id] = n
        for n in own_nodes(fn.node):
            hit = None
            if isinstance(n, ast.Call) and isinstance(n.func, ast.Attribute) and n.func.attr in ('update', 'add', 'discard', 'remove', 'clear', 'intersection_update', 'difference_update', 'pop') \
                    and isinstance(n.func.value, ast.Name) and n.func.value.id in row_alias:
                hit = (n, n.func.value.id)
            elif isinstance(n, ast.AugAssign) and isinstance(n.target, ast.Name) and n.target.id in row_alias and not getattr(n, 'from_plain', False):
                hit = (n, n.target.id)
            if hit:
                b = row_alias[hit[1]]
                chk.bad('C11.3e', 'R11', fn.site(hit[0]), f'{ast.unparse(b)[:60]} ... {ast.unparse(hit[0])[:60]}', f'`{hit[1]}` is the token set of ONE row (an element of `{sname}`, bound without a copy) and is changed in place: '
                        'that row then contains the tokens of other rows, so its indicators are 1 for tokens it does not have')
                break
    # membership test per row
    ifs = [n for n in own_nodes(fn.node) if isinstance(n, ast.If) and any(isinstance(c, ast.Call) and isinstance(c.func, ast.Attribute) and c.func.attr == 'append' for s in n.body for c in ast.walk(s))]
    ok_mem = False
    if len(ifs) == 1 and sname:
        t = ifs[0].test
        par = parents(fn.node)
        lp = par.get(ifs[0])
        while lp is not None and not isinstance(lp, ast.For):
            lp = par.get(lp)
        rowvar = None
        if isinstance(lp, ast.For):
            if isinstance(lp.target, ast.Tuple) and ast.unparse(lp.iter) == f'enumerate({sname})':
                rowvar = lp.target.elts[1].id
            elif isinstance(lp.target, ast.Name) and ast.unparse(lp.iter) == sname:
                rowvar = lp.target.id
        ok_test = isinstance(t, ast.Compare) and len(t.ops) == 1 and isinstance(t.ops[0], ast.In) and isinstance(t.comparators[0], ast.Name) and t.comparators[0].id == rowvar and isinstance(t.left, ast.Name)
        a1 = [ast.unparse(c.args[0]) for s in ifs[0].body for c in ast.walk(s) if isinstance(c, ast.Call) and isinstance(c.func, ast.Attribute) and c.func.attr == 'append']
        a0 = [ast.unparse(c.args[0]) for s in ifs[0].orelse for c in ast.walk(s) if isinstance(c, ast.Call) and isinstance(c.func, ast.Attribute) and c.func.attr == 'append']
        ok_mem = ok_test and a1 == ["'1'"] and a0 == ["''"]
        # the token tested is the loop variable over the token universe, and names the column
        if ok_mem:
            tok = t.left.id
            names = [n for n in own_nodes(fn.node) if isinstance(n, ast.Assign) and isinstance(n.targets[0], ast.Subscript) and isinstance(n.targets[0].slice, ast.JoinedStr)]
            ok_mem = bool(names) and tok in ast.unparse(names[0].targets[0].slice)
    # the same written as a conditional expression:  vec.append('1' if token in row_set else '')   /   ['1' if token in s else '' for s in sets]
    if not ifs and sname:
        par_c = parents(fn.node)
        for n_ in own_nodes(fn.node):
            if not (isinstance(n_, ast.IfExp) and isinstance(n_.body, ast.Constant) and n_.body.value == '1' and isinstance(n_.orelse, ast.Constant) and n_.orelse.value == ''):
                continue
            t_ = n_.test
            if not (isinstance(t_, ast.Compare) and len(t_.ops) == 1 and isinstance(t_.ops[0], ast.In) and isinstance(t_.left, ast.Name) and isinstance(t_.comparators[0], ast.Name)):
                continue
            rowv = t_.comparators[0].id
            # the row variable ranges over the list of token sets
            lp_ = par_c.get(n_)
            ranges = False
            while lp_ is not None and lp_ is not fn.node:
                if isinstance(lp_, ast.For):
                    if (isinstance(lp_.target, ast.Name) and lp_.target.id == rowv and ast.unparse(lp_.iter) == sname) or \
                            (isinstance(lp_.target, ast.Tuple) and len(lp_.target.elts) == 2 and getattr(lp_.target.elts[1], 'id', None) == rowv and ast.unparse(lp_.iter) == f'enumerate({sname})'):
                        ranges = True
                if isinstance(lp_, ast.ListComp) and any(isinstance(g.target, ast.Name) and g.target.id == rowv and ast.unparse(g.iter) == sname and not g.ifs for g in lp_.generators):
                    ranges = True
                lp_ = par_c.get(lp_)
            names_ = [x for x in own_nodes(fn.node) if isinstance(x, ast.Assign) and isinstance(x.targets[0], ast.Subscript) and isinstance(x.targets[0].slice, ast.JoinedStr)]
            if ranges and names_ and t_.left.id in ast.unparse(names_[0].targets[0].slice):
                chk.ok('C11.3b', 'R15', fn.site(n_), ast.unparse(n_), "'1' exactly on rows whose token set contains the token, '' otherwise (conditional expression)")
                ifs = [n_]
                ok_mem = True
                break
    if ifs and isinstance(ifs[0], ast.IfExp):
        pass
    elif not ifs:
        chk.bad('C11.3b', 'R15', fn.site(), "'1' if token in token_set(row) else ''", "the indicator is not computed by token-set membership per row (e.g. substring matching such as str.contains marks rows whose tokens merely contain the token)", soft=True)
    else:
        chk.expect(ok_mem, 'C11.3b', 'R15', fn.site(ifs[0]), ast.unparse(ifs[0].test), "'1' exactly on rows whose token set contains the token, '' otherwise", "the indicator must be '1' iff the token is a member of the row's token set (not a substring test), '' otherwise", soft=True)
    # `token in <row string>`: the container of the membership test is an element of a list of raw (delimited) row strings, not of the list of
    # token sets - a substring test.  Decided on the kinds of the local lists, whatever the shape of the surrounding code.
    def _is_str_list(v):
        if isinstance(v, ast.ListComp) and len(v.generators) == 1 and isinstance(v.generators[0].target, ast.Name):
            g = v.generators[0].target.id
            e = v.elt
            while isinstance(e, ast.Call) and isinstance(e.func, ast.Attribute) and e.func.attr in ('replace', 'strip', 'lower', 'upper', 'lstrip', 'rstrip'):
                e = e.func.value
            if isinstance(e, ast.Call) and isinstance(e.func, ast.Name) and e.func.id == 'str' and e.args:
                e = e.args[0]
            return isinstance(e, ast.Name) and e.id == g
        if isinstance(v, ast.Call) and isinstance(v.func, ast.Attribute) and v.func.attr in ('tolist', 'to_list'):
            return True
        return False
    str_lists = {n.targets[0].id for n in own_nodes(fn.node) if isinstance(n, ast.Assign) and len(n.targets) == 1 and isinstance(n.targets[0], ast.Name) and _is_str_list(n.value)}
    set_lists = {n.targets[0].id for n in own_nodes(fn.node) if isinstance(n, ast.Assign) and len(n.targets) == 1 and isinstance(n.targets[0], ast.Name) and isinstance(n.value, ast.ListComp)
                 and isinstance(n.value.elt, ast.Call) and isinstance(n.value.elt.func, ast.Name) and n.value.elt.func.id in ('set', 'frozenset')}
    str_lists -= set_lists
    elem_of = {}
    for n in own_nodes(fn.node):
        if isinstance(n, (ast.For, ast.comprehension)):
            it, tg = n.iter, n.target
            if isinstance(it, ast.Call) and isinstance(it.func, ast.Name) and it.func.id == 'enumerate' and it.args and isinstance(tg, ast.Tuple) and len(tg.elts) == 2:
                it, tg = it.args[0], tg.elts[1]
            if isinstance(it, ast.Name) and isinstance(tg, ast.Name):
                elem_of[tg.id] = it.id
    for n in own_nodes(fn.node):
        if isinstance(n, ast.Compare) and len(n.ops) == 1 and isinstance(n.ops[0], (ast.In, ast.NotIn)) and isinstance(n.comparators[0], ast.Name) and elem_of.get(n.comparators[0].id) in str_lists:
            chk.bad('C11.3b', 'R15', fn.site(n), ast.unparse(n)[:100], f"the membership test is made against an element of `{elem_of[n.comparators[0].id]}`, the list of raw delimited row strings, not against the row's set of tokens: "
                    "`token in 'ab-c'` is a substring test, so rows whose tokens merely contain the token are marked '1'")
    # a substring test on the raw delimited value is never token membership ('a' is in 'ab-c' but is not one of its tokens)
    for c in calls(fn, attr=('contains', 'find', 'count', 'startswith', 'endswith', 'match', 'search')):
        chk.bad('C11.3b', 'R15', fn.site(c), ast.unparse(c)[:120], "the indicator is computed by substring matching on the delimited value (e.g. str.contains): rows whose tokens merely contain the token as a substring are marked '1'; it must be membership in the row's token set")
    # missing symbols removed
    rm = [c for c in calls(fn, attr=('remove', 'discard', 'difference_update')) if isinstance(c.func.value, ast.Name)]
    ok_rm = any('missing' in ast.unparse(c.args[0]) for c in rm if c.args)
    # nothing in the function that could take an element out of a collection (no removal call, no set difference, no `not in` filter):
    # the missing-value symbols are then certainly kept - decided positively, whatever the shape of the rest
    could_remove = bool(rm) or any(isinstance(n, ast.BinOp) and isinstance(n.op, ast.Sub) for n in own_nodes(fn.node)) \
        or any(isinstance(n, ast.Compare) and any(isinstance(o, (ast.NotIn, ast.In)) for o in n.ops) and 'missing' in ast.unparse(n) for n in own_nodes(fn.node)) \
        or bool(calls(fn, attr=('difference', 'pop', 'symmetric_difference', 'intersection', 'intersection_update')))
    if not could_remove:
        chk.bad('C11.3c', 'R13', fn.site(), 'no removal of the missing-value symbols anywhere in the function', 'missing-value symbols must be removed from the token universe: nothing in the function removes or filters them, so they become indicator columns')
    else:
        chk.expect(ok_rm, 'C11.3c', 'R13', fn.site(rm[0]) if rm else fn.site(), ast.unparse(rm[0]) if rm else 'unique_values.remove(missing_symbol)', 'missing-value symbols do not become indicator columns', 'missing-value symbols must be removed from the token universe', soft=True)


def _fuse_comprehensions(t):
    """[f(x) for x in [g(y) for y in S]]  ->  [f(g(y)) for y in S]   (single generators, no filter on the inner one); sub-terms first"""
    if not isinstance(t, tuple):
        return t
    t = tuple(_fuse_comprehensions(x) for x in t)
    if t and t[0] in ('listcomp', 'genexp') and len(t) == 3 and len(t[2]) == 1:
        it, ifs = t[2][0]
        if isinstance(it, tuple) and it and it[0] in ('listcomp', 'genexp') and len(it[2]) == 1 and not it[2][0][1]:
            cv = ('cvar', 0, 0)
            inner_elt = it[1]

            def rep(x):
                if x == cv:
                    return inner_elt
                if isinstance(x, tuple):
                    y = tuple(rep(z) for z in x)
                    if len(y) == 3 and y[0] == 'sub' and isinstance(y[1], tuple) and y[1] and y[1][0] in ('tuple', 'list') and y[2][0] == 'num' and isinstance(y[2][1], int) and 0 <= y[2][1] < len(y[1]) - 1:
                        return y[1][1 + y[2][1]]
                    return y
                return x
            return (t[0], rep(t[1]), ((it[2][0][0], tuple(rep(c) for c in ifs)),))
    return t


def shared_key_tables(repo, chk):
    """C11.4m - a lookup table of compute_subfeatures that is filled, keyed by the bare loop variable, from loops over the values of DIFFERENT
    columns has one key space for both: a value that occurs in both columns keeps only the entry written last, so what is looked up for the first
    column is the second column's entry (rows are selected by the wrong column)."""
    fn = repo.func(CR, 'compute_subfeatures')
    par = parents(fn.node)
    tables = {}
    for n in own_nodes(fn.node):
        if isinstance(n, ast.Assign) and len(n.targets) == 1 and isinstance(n.targets[0], ast.Subscript) and isinstance(n.targets[0].value, ast.Name) and isinstance(n.targets[0].slice, ast.Name):
            lp = par.get(n)
            while lp is not None and not isinstance(lp, ast.For):
                lp = par.get(lp)
            if lp is not None and isinstance(lp.target, ast.Name) and lp.target.id == n.targets[0].slice.id:
                tables.setdefault(n.targets[0].value.id, []).append((lp, n))
    for name, fills in tables.items():
        its = {ast.unparse(lp.iter) for lp, _ in fills}
        vals = {ast.unparse(n.value).replace(lp.target.id, '_') for lp, n in fills}
        reads = [x for x in own_nodes(fn.node) if isinstance(x, ast.Subscript) and isinstance(x.ctx, ast.Load) and isinstance(x.value, ast.Name) and x.value.id == name]
        if len(fills) >= 2 and len(its) >= 2 and len(vals) >= 2 and reads:
            lp, n = fills[1]
            chk.bad('C11.4m', 'R12', fn.site(n), ast.unparse(n).replace('\n', ' ')[:120], f'the table `{name}` is filled under the bare value from loops over {sorted(its)[0][:40]} and over {sorted(its)[1][:40]}, with different contents: '
                    'a value that occurs in both columns keeps only the entry written last, so a look-up meant for the first column returns the second column\'s entry and rows are selected by the wrong column')


def subfeature_rules(repo, chk):
    """compute_subfeatures decided on a model: one seed pair is evaluated for each operator (the operator tests decided, inner list-building loops
    summarised); what is stored into the table of new columns is one `for every value (pair): table[name] = column` per operator, and name and
    column must be the stated ones:
      a->b    for v in values(b):               'SUBFEATURE-' a '&' v      = ['AND'.join((x, y)) if y == v else '' for x, y in rows(a, b)]
      a<->b   for (u, v) in values(a) x values(b): 'SUBFEATURE|a|b-' u '&' v = ['1' if x == u and y == v else '0' for x, y in rows(a, b)]"""
    from ..match import run_paths, within_vocabulary
    from .common import loop_terms
    fn = repo.func(CR, 'compute_subfeatures')
    m = fn.module
    frame = fn.params[0]
    loops = [n for n in fn.node.body if isinstance(n, ast.For)]
    if len(loops) != 1 or not isinstance(loops[0].target, ast.Name):
        chk.unsure('C11.4', 'R15', fn.site(), 'for seed_pair in <mapping>.split(";")', 'the loop over the sub-feature seeds was not found')
        return
    lp = loops[0]
    seed = lp.target.id
    it = term_of(fn, lp.iter, inline=True)
    chk.expect_term(it, [expected_term(m, f"{fn.params[2]}.subfeature_mapping.split(';')")], 'C11.4s', 'R13', fn.site(lp), ast.unparse(lp.iter)[:80], "one construction per ';'-separated seed of the mapping", f"the seeds must be args.subfeature_mapping.split(';'); found {show(it)[:100]}")
    for op, two_sided in (('->', False), ('<->', True)):
        sval = f'FA{op}FB'
        oid = 'C11.4c' if two_sided else 'C11.4b'
        paths = run_paths(fn, lambda e: isinstance(e, ast.Name) and e.id == seed, sval, max_forks=2, body=lp.body, eval_closures=True)
        good = [(a_, r) for a_, r in (paths or []) if r.unknown is None and r.raised is None]
        if not paths or len(good) != 1 or len(paths) != 1:
            node = next((r.unknown for _, r in (paths or []) if r.unknown is not None), None)
            if paths and all(r.raised is not None for _, r in paths):
                chk.bad(oid, 'R7', fn.site(lp), f'seed {sval!r}', f'a seed with the operator {op} raises: the operator is no longer served')
            else:
                chk.unsure(oid, 'R15', fn.site(node) if node is not None else fn.site(lp), f'seed {sval!r}', 'the construction for this operator could not be evaluated as one path')
            continue
        res = good[0][1]
        B = {seed: ('role', 'seed')}
        ER = lambda src: expected_term(m, src, {'seed': ('role', 'seed'), 'F': ('name', frame)})
        FIRST, SECOND = f"seed.split({op!r})[0]", f"seed.split({op!r})[1]"
        stores = [u for u in res.updates if (u['kind'] == 'foreach' and u.get('op') == 'store') or u['kind'] in ('store1', 'storeall')]
        if len(stores) != 1 or stores[0]['kind'] != 'foreach':
            other_loops = [e for e in res.effects if isinstance(e, (ast.For, ast.While))]
            if other_loops or stores:
                nd = other_loops[0] if other_loops else stores[0]['node']
                chk.unsure(oid, 'R15', fn.site(nd), ast.unparse(nd).replace('\n', ' ')[:100], 'the loop that builds the new columns for this operator is outside the vocabulary of effect loops')
            else:
                chk.bad(oid, 'R15', fn.site(lp), f'seed {sval!r}', 'no column is constructed for a seed with this operator')
            continue
        u = stores[0]
        site = fn.site(u['node'])
        chain, key, val, guard, _a, tgt = loop_terms(fn, u, roles=B)
        val = _fuse_comprehensions(val)
        def col(which, sfx):
            return [ER(f'F[[{FIRST}, {SECOND}]][{which}]{sfx}'), ER(f'F[{which}]{sfx}'), ER(f'F[[{FIRST}, {SECOND}]].copy()[{which}]{sfx}')]
        uniq = {w: col(w, '.unique()') + col(w, '.drop_duplicates()') for w in (FIRST, SECOND)}
        rows_forms = []
        for sfx in ('.tolist()', '.values', '', '.to_list()', '.values.tolist()'):
            for a_t in col(FIRST, sfx):
                for b_t in col(SECOND, sfx):
                    rows_forms.append(('call', ('name', 'zip'), (a_t, b_t), ()))
        X, Y = ('sub', ('cvar', 0, 0), ('num', 0)), ('sub', ('cvar', 0, 0), ('num', 1))
        if guard is not None:
            chk.unsure(oid, 'R15', site, show(guard)[:100], 'the columns are constructed under a condition on the values')
            continue
        if not two_sided:
            V = ('lvar', 0, 0)
            ok_dom = len(chain) == 1 and chain[0] in uniq[SECOND]
            want_key = [expected_term(m, f"'SUBFEATURE-' + {FIRST} + '&' + V", {'seed': ('role', 'seed'), 'V': V})]
            mk = lambda rows, joined: ('listcomp', ('ifexp', ('cmp', '==', V, Y) if repr(V) < repr(Y) else ('cmp', '==', Y, V), joined, ('str', '')), ((rows, ()),))
            cn = Canon(m, Scope(None), inline=False, bound={'V': V, 'X': X, 'Y': Y})
            cmp_t = cn.t(ast.parse('Y == V', mode='eval').body)
            joined = [cn.t(ast.parse(src, mode='eval').body) for src in ("'AND'.join((X, Y))", "'AND'.join([X, Y])", "X + 'AND' + Y")]
            joined.append(('call', ('attr', ('str', 'AND'), 'join'), (('cvar', 0, 0),), ()))      # the (first, second) pair of the row itself
            want_val = [('listcomp', ('ifexp', cmp_t, j, ('str', '')), ((r, ()),)) for r in rows_forms for j in joined]
            title = "one-sided: for every value v of the selector column, SUBFEATURE-<first>&<v> = joined source value where the selector is v, '' elsewhere"
        else:
            # the two loop levels in either order
            lv = {0: ('lvar', 0, 0), 1: ('lvar', 1, 0)}
            ok_dom = len(chain) == 2 and ((chain[0] in uniq[SECOND] and chain[1] in uniq[FIRST]) or (chain[0] in uniq[FIRST] and chain[1] in uniq[SECOND]))
            if ok_dom:
                S, Tv = (lv[1], lv[0]) if chain[0] in uniq[SECOND] else (lv[0], lv[1])
            else:
                S, Tv = lv[1], lv[0]
            want_key = [expected_term(m, "f'SUBFEATURE|{" + FIRST + "}|{" + SECOND + "}-' + S + '&' + T", {'seed': ('role', 'seed'), 'S': S, 'T': Tv}),
                        expected_term(m, "f'SUBFEATURE|{" + FIRST + "}|{" + SECOND + "}-{S}&{T}'", {'seed': ('role', 'seed'), 'S': S, 'T': Tv})]
            cn = Canon(m, Scope(None), inline=False, bound={'S': S, 'T': Tv, 'X': X, 'Y': Y})
            cond = cn.t(ast.parse('X == S and Y == T', mode='eval').body)
            ones = [(cn.t(ast.parse(a_, mode='eval').body), cn.t(ast.parse(b_, mode='eval').body)) for a_, b_ in (('str(1)', 'str(0)'), ("'1'", "'0'"))]
            want_val = [('listcomp', ('ifexp', cond, o1, o0), ((r, ()),)) for r in rows_forms for o1, o0 in ones]
            title = "two-sided: for every pair (u, v) of values, SUBFEATURE|<first>|<second>-<u>&<v> = '1' where both columns hold the pair, '0' elsewhere"
        if not ok_dom:
            chk.expect_term(chain[0] if chain else ('none',), uniq[SECOND], oid, 'R13', site, ' x '.join(show(c)[:60] for c in chain), '', 'the new columns must range over the distinct values of the selector column (of both columns for <->)')
            continue
        if key in want_key and val in want_val:
            chk.ok(oid, 'R15', site, f'{show(key)[:80]} = {show(val)[:80]}', title)
        elif key not in want_key:
            chk.expect_term(key, want_key, oid, 'R5', site, show(key)[:140], '', f'the name of a sub-feature column must be {show(want_key[0])[:100]}; found {show(key)[:120]}')
        else:
            # a requested value used as its own "is this side constrained" flag (`not v or x == v`): a falsy value - the empty string, the usual
            # missing value - then matches every row.  Decided positively, whatever else the expression does.
            from ..terms import walk_term as _wt
            lvars = {('lvar', 0, 0), ('lvar', 1, 0)}
            truthy = [x for x in _wt(val) if isinstance(x, tuple) and len(x) == 2 and x[0] == 'not' and x[1] in lvars]
            truthy += [y for x in _wt(val) if isinstance(x, tuple) and len(x) == 2 and x[0] in ('or', 'and') and isinstance(x[1], tuple) for y in x[1] if y in lvars]
            if truthy:
                chk.bad(oid, 'R14', site, show(val)[:200], 'the value a row is compared with is also tested for truthiness in the selection (`not v or x == v`): for a falsy value - the empty string, i.e. the usual missing '
                        "value - the comparison is skipped and EVERY row is selected, so the column is not the indicator / the joined value 'exactly on rows where the column has the given value'")
                continue
            chk.expect_term(val, want_val[:6], oid, 'R15', site, show(val)[:200], '', f'the sub-feature column must be {show(want_val[0])[:200]}; found {show(val)[:260]}')


def target_control(repo, chk):
    fn = repo.func(RT, 'FeatureTransformerNoise.construct_new_features')
    frame, label = [p for p in fn.params if p != 'self'][:2]
    st = [n for n in own_nodes(fn.node) if isinstance(n, ast.Assign) and isinstance(n.targets[0], ast.Subscript) and isinstance(n.targets[0].slice, ast.Constant) and n.targets[0].slice.value == 'CONTROL-target']
    ok = len(st) == 1 and ast.unparse(st[0].value) in (f'{frame}[{label}]', f'{frame}[{label}].values', f'{frame}[{label}].copy()')
    chk.expect(ok, 'C11.5', 'R15', fn.site(st[0]) if st else fn.site(), ast.unparse(st[0]) if st else "new_columns['CONTROL-target'] = dataframe[label_column]", 'the target control replicates the label column', 'CONTROL-target must be the label column of the input, unmodified')
    # all control columns have one value per row: on the path of the default preset every value stored under a CONTROL- key is
    # written over the number of rows of the frame (len(frame) / frame.shape[0]) or over its rows (frame.iterrows())
    from ..match import run_paths
    from ..terms import walk_term
    paths = run_paths(fn, lambda e: isinstance(e, ast.Attribute) and e.attr == 'noise_preset', 'default', max_forks=3)
    nrows = expected_term(fn.module, f'len({frame})')
    rows_it = expected_term(fn.module, f'{frame}.iterrows()')
    sized, bad, unknown = 0, [], None
    for assume, res in (paths or []):
        if res.unknown is not None:
            unknown = res.unknown
            continue
        n_here = 0
        for u in res.updates:
            if u['kind'] == 'store1' or (u['kind'] == 'foreach' and u.get('op') == 'store'):
                k = u['key']
                ktxt = k.value if isinstance(k, ast.Constant) and isinstance(k.value, str) else (k.values[0].value if isinstance(k, ast.JoinedStr) and k.values and isinstance(k.values[0], ast.Constant) else None)
                if not isinstance(ktxt, str) or not ktxt.startswith('CONTROL-') or ktxt == 'CONTROL-target':
                    continue
                mult = 1
                if u['kind'] == 'foreach':
                    lit = u['chain'][0][1] if len(u.get('chain', [])) == 1 else None
                    mult = len(lit.elts) if isinstance(lit, (ast.Tuple, ast.List)) else 1
                n_here += mult
                vt = term_of(fn, u['value'], inline=False)
                if not any(x == nrows or x == rows_it for x in walk_term(vt)):
                    bad.append(u['node'])
        sized = max(sized, n_here)
    if paths is None or (unknown is not None and not sized):
        chk.unsure('C11.5b', 'R13', fn.site(unknown) if unknown is not None else fn.site(), 'control columns', 'the default-preset path of construct_new_features could not be evaluated')
    elif bad:
        chk.bad('C11.5b', 'R13', fn.site(bad[0]), ast.unparse(bad[0])[:100], 'a control column is not sized by the number of rows of the frame')
    elif sized >= 9:
        chk.ok('C11.5b', 'R13', fn.site(), f'{sized} control columns sized by the rows of {frame}', 'every control column has one value per row')
    else:
        chk.bad('C11.5b', 'R13', fn.site(), f'{sized} control columns found on the default-preset path', 'fewer control columns than the nine noise controls are generated', soft=True)
