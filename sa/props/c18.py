"""C18 - feature summary = per-feature median of label scores, sorted, normalised.

 1 rows selected iff the label equals the part of A (resp. B) before the first '-', contributing the OTHER name with the row's score
 2 groupby('Feature').median(), sort_values(ascending=False) on the score column; nothing touches the scores between the
   construction of the frame and the median
 3 min-max normalisation (s - min)/(max - min) of the grouped, sorted frame iff 'MI' in heuristic (monotone: order preserved)
 4 interaction table: name part before '-' split on ' AND ', np.median per constituent, only when interaction_order > 1
"""
from __future__ import annotations

import ast

from ..match import calls, expected_term, returns, term_of
from ..model import own_nodes, parents
from ..terms import Canon, Scope, show

EXPLANATION = ('Canonical-term equality (R15) and comparison normal form (R14) over outrank/task_summary.py: the two row-selection tests and what they contribute, the '
               'groupby/median/sort chain, the placement and formula of the min-max normalisation (after the median, guarded by "MI" in heuristic), and the per-constituent median of interaction scores.')
TRUSTED_BASE = ['DataFrame.groupby(key).median(); sort_values(ascending=False) is descending; min-max scaling is monotone']
ASSUMPTIONS = ['feature names that themselves contain "-" are outside the statement']

TS = 'outrank.task_summary'


def run(repo, chk, tier):
    selection(repo, chk)
    summary_frame(repo, chk)
    interactions(repo, chk)
    wiring(repo, chk)


def selection(repo, chk):
    fn = repo.func(TS, 'generate_final_ranking')
    m = fn.module
    label = fn.params[1]
    loops = [n for n in own_nodes(fn.node) if isinstance(n, ast.For)]
    if len(loops) != 1:
        chk.unsure('C18.1', 'R14', fn.site(), 'for _, row in triplets.iterrows()', 'row loop not found')
        return
    lp = loops[0]
    it = term_of(fn, lp.iter, inline=True)
    ok_it = it == expected_term(m, f'{fn.params[0]}.iterrows()') and isinstance(lp.target, ast.Tuple) and len(lp.target.elts) == 2
    chk.expect(ok_it, 'C18.1a', 'R13', fn.site(lp), ast.unparse(lp.iter), 'every row of the triplet table is visited', 'the selection must visit every row of the triplet table')
    if not ok_it:
        return
    row = lp.target.elts[1].id
    bound = {row: ('role', 'row'), label: ('role', 'label')}
    ifs = [n for n in lp.body if isinstance(n, ast.If)]
    if len(ifs) != 1:
        chk.unsure('C18.1b', 'R14', fn.site(lp), 'if label == A.split("-")[0]: ... elif label == B.split("-")[0]: ...', f'{len(ifs)} selection statements in the loop')
        return
    top = ifs[0]
    E = lambda s: expected_term(m, s, {'row': ('role', 'row'), 'label': ('role', 'label')})
    branches = []
    cur = top
    while True:
        branches.append((cur.test, cur.body))
        if len(cur.orelse) == 1 and isinstance(cur.orelse[0], ast.If):
            cur = cur.orelse[0]
            continue
        tail = cur.orelse
        break
    seen = {}
    for test, body in branches:
        t = term_of(fn, test, bound, inline=True)
        side = None
        for s, o in (('FeatureA', 'FeatureB'), ('FeatureB', 'FeatureA')):
            if t == E(f"label == row['{s}'].split('-')[0]"):
                side, other = s, o
        if side is None:
            chk.bad('C18.1b', 'R14', fn.site(test), ast.unparse(test), f"a row must be selected iff the label equals the part of FeatureA / FeatureB before the first '-' (exact equality); found {show(t)[:140]}")
            continue
        aps = [c for s in body for c in ast.walk(s) if isinstance(c, ast.Call) and isinstance(c.func, ast.Attribute) and c.func.attr == 'append']
        okb = False
        if len(aps) == 1 and isinstance(aps[0].args[0], (ast.List, ast.Tuple)) and len(aps[0].args[0].elts) == 2:
            e = aps[0].args[0].elts
            okb = term_of(fn, e[0], bound, inline=True) == E(f"row['{other}']") and term_of(fn, e[1], bound, inline=True) == E("row['Score']")
        chk.expect(okb, f'C18.1c-{side}', 'R15', fn.site(aps[0]) if aps else fn.site(test), ast.unparse(aps[0]) if aps else 'append', f'label on side {side}: contributes the other name with the row\'s score',
                   f'when the label is {side}, the row must contribute [{other}, Score]')
        seen[side] = True
    chk.expect(set(seen) == {'FeatureA', 'FeatureB'} and not tail, 'C18.1d', 'R7', fn.site(top), 'label as A / label as B', 'both orientations are used, nothing else is added', 'rows must be selected for the label on either side, and only those')
    r = returns(fn)
    aps_all = calls(fn, attr='append')
    chk.expect(len(r) == 1 and isinstance(r[0].value, ast.Name) and all(isinstance(a.func.value, ast.Name) and a.func.value.id == r[0].value.id for a in aps_all), 'C18.1e', 'origin', fn.site(r[0]) if r else fn.site(), ast.unparse(r[0]) if r else 'return', 'the collected rows are returned', 'the collected rows must be returned')


def summary_frame(repo, chk):
    fn = repo.func(TS, 'create_final_dataframe')
    m = fn.module
    rows, heur = fn.params[0], fn.params[1]
    body = [s for s in fn.node.body if not (isinstance(s, ast.Expr) and isinstance(s.value, ast.Constant))]
    r = returns(fn)
    if len(r) != 1:
        chk.unsure('C18.2', 'R15', fn.site(), 'return final_df', 'single return expected')
        return
    pseudo = None
    if isinstance(r[0].value, ast.Name):
        df = r[0].value.id
    else:
        # `return <chain on the frame>`: treat the returned expression as the last re-binding of the frame
        root = r[0].value
        while isinstance(root, (ast.Call, ast.Attribute, ast.Subscript)):
            root = root.func if isinstance(root, ast.Call) else root.value
        if not isinstance(root, ast.Name):
            chk.unsure('C18.2', 'R15', fn.site(r[0]), ast.unparse(r[0])[:100], 'cannot find the frame the returned expression is built from')
            return
        df = root.id
        pseudo = ast.copy_location(ast.Assign(targets=[ast.Name(df, ast.Store())], value=r[0].value), r[0])
        ast.fix_missing_locations(pseudo)
    E = lambda s: expected_term(m, s)
    col = "f'Score {" + heur + "}'"
    base = f"pandas.DataFrame({rows}, columns=['Feature', {col}])"
    assigns = [s for s in own_nodes(fn.node) if isinstance(s, ast.Assign) and any(isinstance(t, ast.Name) and t.id == df for t in s.targets)]
    if pseudo is not None:
        assigns.append(pseudo)
        body = body + [pseudo]
    assigns.sort(key=lambda s: s.lineno)
    cn = Canon(m, Scope(None), inline=False)
    # symbolic value of df after each top-level assignment
    cur = None
    grouped_at = None
    chain_ok = False
    chains = []
    for by in (f"by={col}", col, f"by=[{col}]"):
        for g in ("'Feature'", "['Feature']"):
            chains.append(E(f"{base}.groupby({g}).median().reset_index().sort_values({by}, ascending=False)"))
            chains.append(E(f"{base}.groupby({g}, as_index=False).median().sort_values({by}, ascending=False)"))
            chains.append(E(f"{base}.groupby({g}).median().sort_values({by}, ascending=False).reset_index()"))
    for a in assigns:
        if a not in body:
            continue
        t = Canon(m, Scope(fn), inline=True, bound={df: cur} if cur is not None else {}).t(a.value)
        cur = t
        if t in chains:
            chain_ok = True
            grouped_at = a
    if not chain_ok:
        chk.bad('C18.2a', 'R15', fn.site(assigns[0]) if assigns else fn.site(), ast.unparse(assigns[-1]).replace('\n', ' ')[:200] if assigns else '',
                f"the summary must be DataFrame(rows, columns=[Feature, Score h]).groupby('Feature').median() sorted by the score, descending, with nothing applied to the scores before the median; found {show(cur)[:260] if cur else None}")
        return
    chk.ok('C18.2a', 'R15', fn.site(grouped_at), ast.unparse(grouped_at).replace('\n', ' ')[:200], 'per-feature median of the label scores, descending')
    # no column stores before the median
    early = [s for s in own_nodes(fn.node) if isinstance(s, (ast.Assign, ast.AugAssign)) and s.lineno < grouped_at.lineno and any(isinstance(t, ast.Subscript) for t in (s.targets if isinstance(s, ast.Assign) else [s.target]))]
    chk.expect(not early, 'C18.2b', 'R1', fn.site(early[0]) if early else fn.site(grouped_at), ast.unparse(early[0])[:120] if early else 'no store before the median', 'raw scores reach the median unmodified', 'scores are modified before the per-feature median is taken')
    # normalisation
    ifs = [s for s in body if isinstance(s, ast.If) and s.lineno > grouped_at.lineno]
    norm_ifs = [s for s in ifs if term_of(fn, s.test, inline=False) == E(f"'MI' in {heur}")]
    if len(norm_ifs) != 1 or norm_ifs[0].orelse:
        chk.bad('C18.3a', 'R14', fn.site(ifs[0]) if ifs else fn.site(), ast.unparse(ifs[0].test) if ifs else "if 'MI' in heuristic", "min-max normalisation must be applied, after the median and the sort, exactly when 'MI' is in the heuristic name")
        return
    ni = norm_ifs[0]
    stores = [s for s in ni.body if isinstance(s, ast.Assign) and isinstance(s.targets[0], ast.Subscript)]
    okn = False
    if len(stores) == 1:
        st = stores[0]
        sc = Scope(fn)
        t = Canon(m, sc, inline=True).t(st.value)
        c = f"{df}[{col}]"
        forms = [E(f"({c} - {c}.min()) / ({c}.max() - {c}.min())")]
        tgt_ok = Canon(m, sc, inline=True).t(st.targets[0]) == E(c)
        okn = t in forms and tgt_ok
        chk.expect(okn, 'C18.3b', 'R15', fn.site(st), ast.unparse(st)[:160], 'scores become (s - min)/(max - min) of the aggregated scores: best 1, worst 0, order kept',
                   f'normalisation must be (s - min)/(max - min) over the aggregated score column; found {show(t)[:200]}')
    else:
        chk.bad('C18.3b', 'R15', fn.site(ni), ast.unparse(ni).replace('\n', ' ')[:160], 'normalisation block does not rewrite the score column exactly once')
    # nothing re-sorts / re-binds after the normalisation
    later = [a for a in assigns if a.lineno > ni.lineno]
    chk.expect(not later, 'C18.3c', 'R1', fn.site(later[0]) if later else fn.site(r[0]), ast.unparse(later[0])[:100] if later else 'return final_df', 'the normalised frame is returned as is', 'the frame is re-bound after normalisation')


def interactions(repo, chk):
    fn = repo.func(TS, 'handle_interaction_order')
    m = fn.module
    p = fn.params
    df, heur, order = p[0], p[2], p[3]
    E = lambda s: expected_term(m, s)
    top = [s for s in fn.node.body if isinstance(s, ast.If)]
    ok = len(top) == 1 and term_of(fn, top[0].test, inline=False) == E(f'1 < {order}')
    chk.expect(ok, 'C18.4a', 'R14', fn.site(top[0]) if top else fn.site(), ast.unparse(top[0].test) if top else '', 'aggregated table only for interaction order > 1', 'the aggregated table must be produced exactly when interaction_order > 1')
    loops = [n for n in own_nodes(fn.node) if isinstance(n, ast.For)]
    row_loop = next((l for l in loops if 'iterrows' in ast.unparse(l.iter)), None)
    inner = next((l for l in loops if 'split' in ast.unparse(l.iter)), None)
    if row_loop is None or inner is None or not isinstance(row_loop.target, ast.Tuple):
        chk.bad('C18.4b', 'R15', fn.site(), "for el in name.split('-')[0].split(' AND ')", 'per-constituent split of interaction names not found')
        return
    row = row_loop.target.elts[1].id
    bound = {row: ('role', 'row')}
    col = "f'Score {" + heur + "}'"
    ER = lambda s: expected_term(m, s, {'row': ('role', 'row')})
    it = term_of(fn, inner.iter, bound, inline=True)
    chk.expect(it == ER("row['Feature'].split('-')[0].split(' AND ')"), 'C18.4b', 'R15', fn.site(inner), ast.unparse(inner.iter), "constituents = name part before '-' split on ' AND '", f"constituents must be name.split('-')[0].split(' AND '); found {show(it)[:120]}")
    aps = [c for c in ast.walk(inner) if isinstance(c, ast.Call) and isinstance(c.func, ast.Attribute) and c.func.attr == 'append']
    oka = len(aps) == 1 and isinstance(aps[0].func.value, ast.Subscript) and ast.unparse(aps[0].func.value.slice) == inner.target.id and term_of(fn, aps[0].args[0], bound, inline=True) == ER(f"row[{col}]")
    chk.expect(oka, 'C18.4c', 'R13', fn.site(aps[0]) if aps else fn.site(inner), ast.unparse(aps[0]) if aps else '', 'each constituent collects the score of every interaction it takes part in', 'each constituent must collect the interaction\'s score')
    gate = [n for n in ast.walk(row_loop) if isinstance(n, ast.If) and any(x is inner for x in ast.walk(n))]
    okg = len(gate) == 1 and term_of(fn, gate[0].test, bound, inline=True) in (ER("'AND' in row['Feature']"), ER("' AND ' in row['Feature']"))
    chk.expect(okg, 'C18.4d', 'R14', fn.site(gate[0]) if gate else fn.site(inner), ast.unparse(gate[0].test) if gate else '(no filter)', 'only interaction features contribute', 'only names containing AND may contribute to the aggregated table')
    meds = [c for c in calls(fn, dotted='numpy.median')]
    dc = [n for n in own_nodes(fn.node) if isinstance(n, ast.ListComp) and any(x in meds for x in ast.walk(n))]
    okm = False
    if len(dc) == 1 and isinstance(dc[0].elt, ast.Dict):
        g = dc[0].generators[0]
        if isinstance(g.target, ast.Tuple) and 'items' in ast.unparse(g.iter):
            k, v = g.target.elts[0].id, g.target.elts[1].id
            vals = {ast.unparse(key): ast.unparse(val) for key, val in zip(dc[0].elt.keys, dc[0].elt.values)}
            okm = vals.get("'Feature'") == k and f'np.median({v})' in vals.values() and not g.ifs
    chk.expect(okm, 'C18.4e', 'R15', fn.site(dc[0]) if dc else fn.site(), ast.unparse(dc[0]).replace('\n', ' ')[:160] if dc else 'np.median per constituent', 'per constituent: median of the collected scores', 'the aggregated table must hold np.median of the collected scores for every constituent')
    wr = [c for c in calls(fn, attr='to_csv') if 'feature_singles_aggregated.tsv' in ast.unparse(c)]
    agg = [n for n in own_nodes(fn.node) if isinstance(n, ast.Assign) and isinstance(n.targets[0], ast.Name) and dc and any(x is dc[0] for x in ast.walk(n.value))]
    chk.expect(len(wr) == 1 and agg and isinstance(wr[0].func.value, ast.Name) and wr[0].func.value.id == agg[0].targets[0].id, 'C18.4g', 'origin', fn.site(wr[0]) if wr else fn.site(), ast.unparse(wr[0]).replace('\n', ' ')[:100] if wr else 'to_csv(feature_singles_aggregated.tsv)',
               'the aggregated table is written to feature_singles_aggregated.tsv', 'feature_singles_aggregated.tsv must be written from the per-constituent table')
    it2 = term_of(fn, row_loop.iter, inline=True)
    chk.expect(it2 == E(f'{df}.iterrows()'), 'C18.4f', 'R13', fn.site(row_loop), ast.unparse(row_loop.iter), 'every row of the summary is visited', 'all rows of the feature summary must be visited')


def wiring(repo, chk):
    fn = repo.func(TS, 'outrank_task_result_summary')
    m = fn.module
    a = fn.params[0]
    want = [('generate_final_ranking', ['triplets', f'{a}.label_column']), ('create_final_dataframe', ['final_ranking', f'{a}.heuristic']),
            ('handle_interaction_order', ['final_df', f'{a}.output_folder', f'{a}.heuristic', f'{a}.interaction_order'])]
    for name, args in want:
        cs = [c for c in calls(fn) if m.dotted(c.func) == f'{TS}.{name}']
        ok = len(cs) == 1 and [ast.unparse(x) for x in cs[0].args] == args
        chk.expect(ok, 'C18.5', 'R6', fn.site(cs[0]) if cs else fn.site(), ast.unparse(cs[0]) if cs else name, f'{name} receives its arguments in their roles', f'{name} must be called with ({", ".join(args)})')
    st = repo.func(TS, 'store_summary_files')
    w = [c for c in calls(st, attr='to_csv')]
    ok = len(w) == 1 and isinstance(w[0].func.value, ast.Name) and w[0].func.value.id == st.params[0] and 'feature_singles.tsv' in ast.unparse(st.node)
    chk.expect(ok, 'C18.6', 'origin', st.site(w[0]) if w else st.site(), ast.unparse(w[0]) if w else 'to_csv', 'feature_singles.tsv is the summary frame', 'feature_singles.tsv must be written from the summary frame unmodified')
