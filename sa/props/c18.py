"""C18 - feature summary = per-feature median of label scores, sorted, normalised.

 1 rows selected iff the label equals the part of A (resp. B) before the first '-', contributing the OTHER name with the row's score
 2 groupby('Feature').median(), sort_values(ascending=False) on the score column; nothing touches the scores between the
   construction of the frame and the median
 3 min-max normalisation (s - min)/(max - min) of the grouped, sorted frame iff 'MI' in heuristic (monotone: order preserved)
 4 interaction table: name part before '-' split on ' AND ', np.median per constituent, only when interaction_order > 1
"""
from __future__ import annotations

import ast

from ..match import calls, expected_term, returns, term_of
from ..model import own_nodes, parents
from ..terms import Canon, Scope, show

EXPLANATION = ('Canonical-term equality (R15) and comparison normal form (R14) over outrank/task_summary.py: the two row-selection tests and what they contribute, the '
               'groupby/median/sort chain, the placement and formula of the min-max normalisation (after the median, guarded by "MI" in heuristic), and the per-constituent median of interaction scores.')
TRUSTED_BASE = ['DataFrame.groupby(key).median(); sort_values(ascending=False) is descending; min-max scaling is monotone']
ASSUMPTIONS = ['feature names that themselves contain "-" are outside the statement']

TS = 'outrank.task_summary'


def run(repo, chk, tier):
    rows_as_read(repo, chk)
    selection(repo, chk)
    summary_frame(repo, chk)
    interactions(repo, chk)
    wiring(repo, chk)


SUBSETTING = {'head', 'tail', 'iloc', 'loc', 'sample', 'drop_duplicates', 'query', 'nlargest', 'nsmallest', 'dropna', 'truncate', 'take', 'filter', 'where', 'mask'}


def rows_as_read(repo, chk):
    """C18.0 - every row of the pairwise table takes part in the medians: between reading the table and handing it on, rows may be re-ordered but not
    removed (drop_duplicates collapses equal scores of a pair from different batches; head / query / dropna / sample cut rows)."""
    fn = repo.mod(TS).funcs.get('read_and_sort_triplets')
    if fn is None:
        return
    m = fn.module
    CUTS = ('drop_duplicates', 'dropna', 'head', 'tail', 'sample', 'query', 'nlargest', 'nsmallest', 'drop', 'unique', 'groupby')
    for c in own_nodes(fn.node):
        if isinstance(c, ast.Call) and isinstance(c.func, ast.Attribute) and c.func.attr in CUTS:
            chk.bad('C18.0', 'R11', fn.site(c), ast.unparse(c)[:100], f'rows of the table that was read are removed / collapsed ({c.func.attr}) before the ranking is built: a pair that received the same score in two '
                    'batches counts once, so the per-feature median, the order and the aggregated scores change')
            return
    chk.ok('C18.0', 'R11', fn.site(), 'read_and_sort_triplets', 'the table is handed on with all the rows that were read (re-ordered only)')


def _row_binding(fn, lp, table):
    """How one iteration of the row loop sees its row: {local name: term over ('role', 'row')} for the accepted ways of visiting every row of the
    table (iterrows; zip over whole columns), or a (verdict, reason) pair"""
    m = fn.module
    it = term_of(fn, lp.iter, inline=True)
    E = lambda s: expected_term(m, s)
    if it == E(f'{table}.iterrows()') and isinstance(lp.target, ast.Tuple) and len(lp.target.elts) == 2 and isinstance(lp.target.elts[1], ast.Name):
        return {lp.target.elts[1].id: ('role', 'row')}
    if it[0] == 'call' and it[1] == ('name', 'zip') and not it[3] and isinstance(lp.target, (ast.Tuple, ast.List)) and len(lp.target.elts) == len(it[2]) and all(isinstance(x, ast.Name) for x in lp.target.elts):
        out = {}
        for nm, col_t in zip(lp.target.elts, it[2]):
            col = None
            for c in ('FeatureA', 'FeatureB', 'Score'):
                if col_t in (E(f"{table}['{c}'].tolist()"), E(f"{table}['{c}'].values"), E(f"{table}['{c}']"), E(f"list({table}['{c}'])"), E(f"{table}['{c}'].to_list()"), E(f"{table}.{c}"), E(f"{table}.{c}.tolist()"), E(f"{table}.{c}.values")):
                    col = c
            if col is None:
                return ('unsure', f'a column handed to zip() is not a whole column of the triplet table: {show(col_t)[:80]}')
            out[nm.id] = ('sub', ('role', 'row'), ('str', col))
        return out
    from ..terms import walk_term
    ops = {x[2] for x in walk_term(it) if isinstance(x, tuple) and len(x) == 3 and x[0] == 'attr'} | {'<slice>' for x in walk_term(it) if isinstance(x, tuple) and x and x[0] == 'slice'}
    if any(x == ('name', table) for x in walk_term(it)) and ops & (SUBSETTING | {'<slice>'}):
        return ('bad', f'the loop ranges over a subset of the triplet table ({", ".join(sorted(ops & (SUBSETTING | {"<slice>"})))}): rows outside it never reach the summary')
    return ('unsure', f'the way the rows of the triplet table are visited is not recognised: {show(it)[:100]}')


def selection(repo, chk):
    """One iteration of the row loop of generate_final_ranking evaluated as paths (forking on its tests): what is appended must be
    [other name, score] exactly when the label equals the part of FeatureA (resp. FeatureB) before the first '-', and nothing otherwise."""
    from ..match import run_paths, within_vocabulary
    fn = repo.func(TS, 'generate_final_ranking')
    m = fn.module
    table, label = fn.params[0], fn.params[1]
    loops = [n for n in fn.node.body if isinstance(n, ast.For)]
    if len(loops) != 1:
        comp = [n for n in own_nodes(fn.node) if isinstance(n, (ast.ListComp, ast.GeneratorExp))]
        chk.unsure('C18.1', 'R14', fn.site(), 'for _, row in triplets.iterrows()', 'row loop not found' + (' (the selection is written as a comprehension)' if comp else ''))
        return
    lp = loops[0]
    rb = _row_binding(fn, lp, table)
    if isinstance(rb, tuple):
        (chk.bad if rb[0] == 'bad' else chk.unsure)('C18.1a', 'R13', fn.site(lp), ast.unparse(lp.iter)[:100], rb[1])
        return
    chk.ok('C18.1a', 'R13', fn.site(lp), ast.unparse(lp.iter)[:100], 'every row of the triplet table is visited')
    bound = dict(rb)
    bound[label] = ('role', 'label')
    E = lambda s: expected_term(m, s, {'row': ('role', 'row'), 'label': ('role', 'label')})
    eq = {'FeatureA': E("label == row['FeatureA'].split('-')[0]"), 'FeatureB': E("label == row['FeatureB'].split('-')[0]")}
    field = {'FeatureA': E("row['FeatureA']"), 'FeatureB': E("row['FeatureB']"), 'Score': E("row['Score']")}
    cn = Canon(m, Scope(None))
    paths = run_paths(fn, None, None, max_forks=4, body=lp.body)
    if paths is None:
        chk.unsure('C18.1b', 'R14', fn.site(lp), 'row loop body', 'too many tests in one iteration of the row loop')
        return
    r = returns(fn)
    out_list = r[0].value.id if len(r) == 1 and isinstance(r[0].value, ast.Name) else None
    seen_sides = set()
    n_skip = 0
    undecided = False
    for assume, res in paths:
        desc = ', '.join(f'{ast.unparse(t)[:50]} is {v}' for t, v in res.assumed) or 'no test'
        if res.unknown is not None:
            chk.unsure('C18.1b', 'R14', fn.site(res.unknown), ast.unparse(res.unknown)[:100], 'a statement of the row loop is outside the path vocabulary')
            undecided = True
            continue
        val, strange = {}, []
        for t, v in res.assumed:
            tt = term_of(fn, t, bound, inline=False)
            hit = False
            for side, atom in eq.items():
                if tt == atom:
                    val[side], hit = v, True
                elif cn._not(tt) == atom:
                    val[side], hit = (not v), True
            if not hit:
                strange.append((t, tt))
        items = []
        for c in res.calls:
            call = c['call']
            if isinstance(call.func, ast.Attribute) and call.func.attr == 'append' and isinstance(call.func.value, ast.Name) and len(call.args) == 1:
                items.append((c, term_of(fn, call.args[0], bound, inline=False)))
            elif isinstance(call.func, ast.Attribute) and call.func.attr in ('extend', 'insert', 'add', 'update'):
                strange.append((c['node'], None))
        items += [(u, None) for u in res.updates]
        if strange:
            t0, tt0 = strange[0]
            node0 = t0 if hasattr(t0, 'lineno') else lp
            from ..terms import walk_term as _wt
            weaker = tt0 is not None and any(x == ('role', 'label') for x in _wt(tt0)) and any(x == ('role', 'row') for x in _wt(tt0)) and \
                any(isinstance(x, tuple) and len(x) == 3 and x[0] == 'attr' and x[2] in ('startswith', 'endswith', 'find', 'rfind', 'count', 'index', 'contains', 'match', 'search') for x in _wt(tt0))
            if weaker:
                chk.bad('C18.1b', 'R14', fn.site(node0), ast.unparse(t0)[:100], f"a row must be selected iff the label EQUALS the part of FeatureA / FeatureB before the first '-'; a prefix / substring test also selects rows of other features whose name merely starts with or contains the label: {show(tt0)[:120]}")
            elif tt0 is not None and within_vocabulary(tt0, list(eq.values())) and any(x == ('role', 'label') for x in __import__('sa.terms', fromlist=['walk_term']).walk_term(tt0)):
                chk.bad('C18.1b', 'R14', fn.site(node0), ast.unparse(t0)[:100], f"a row must be selected iff the label equals the part of FeatureA / FeatureB before the first '-' (exact equality); found the test {show(tt0)[:140]}")
            else:
                chk.unsure('C18.1b', 'R14', fn.site(node0), ast.unparse(t0)[:100] if hasattr(t0, 'lineno') else desc, 'a test / effect of the row loop that is not one of the two selection tests decides what is collected')
            undecided = True
            continue
        pair = lambda other: ('list', field[other], field['Score'])
        pair_t = lambda other: ('tuple', field[other], field['Score'])
        a_, b_ = val.get('FeatureA'), val.get('FeatureB')
        allowed = []
        if a_ is True:
            allowed = ['FeatureB'] + (['FeatureA'] if b_ is True else [])
        elif b_ is True:
            allowed = ['FeatureA']
        if allowed:
            okk = len(items) == 1 and items[0][1] is not None and any(items[0][1] in (pair(o), pair_t(o)) for o in allowed) and (out_list is None or items[0][0]['call'].func.value.id == out_list)
            side = 'FeatureA' if a_ is True else 'FeatureB'
            other = allowed[0]
            site = fn.site(items[0][0]['node']) if items else fn.site(lp)
            chk.expect(okk, f'C18.1c-{side}', 'R15', site, f'{desc}: ' + (', '.join(ast.unparse(i[0]['call'])[:60] if i[1] is not None else 'store' for i in items) or 'nothing collected'),
                       f"label on side {side}: contributes the other name with the row's score", f'when the label is {side}, the row must contribute exactly [{other}, Score] to the returned list')
            seen_sides.add(side)
        elif a_ is False and b_ is False:
            n_skip += 1
            chk.expect(not items, 'C18.1d', 'R7', fn.site(items[0][0]['node']) if items else fn.site(lp), desc, 'a row whose names do not carry the label contributes nothing', 'a row is collected although the label is on neither side')
        else:
            # the path does not test one of the orientations and collects nothing for it
            missing = [s_ for s_ in ('FeatureA', 'FeatureB') if s_ not in val]
            if not items:
                chk.bad('C18.1d', 'R7', fn.site(lp), desc, f'rows are selected for the label on one side only: the orientation with the label as {missing[0] if missing else "?"} is never tested')
            else:
                chk.bad('C18.1d', 'R7', fn.site(items[0][0]['node']), desc, 'a row is collected on a path that has not established that the label is on one of its sides')
            undecided = True
    if not undecided:
        chk.expect(seen_sides == {'FeatureA', 'FeatureB'} and n_skip >= 1, 'C18.1d', 'R7', fn.site(lp), 'label as A / label as B / neither', 'both orientations are used, nothing else is added', 'rows must be selected for the label on either side, and only those')
    aps_all = calls(fn, attr='append')
    chk.expect(out_list is not None and all(isinstance(a.func.value, ast.Name) and a.func.value.id == out_list for a in aps_all), 'C18.1e', 'origin', fn.site(r[0]) if r else fn.site(), ast.unparse(r[0]) if r else 'return', 'the collected rows are returned', 'the collected rows must be returned', soft=True)


def summary_frame(repo, chk):
    """create_final_dataframe evaluated for an MI heuristic and for a non-MI one (assignments substituted in program order, so a name denotes
    the value it has *at that point*): the frame returned is the per-feature median of the rows, sorted by the score, descending; for an MI
    heuristic its score column is then replaced by (s - min)/(max - min) **of that aggregated column**; nothing else touches the scores."""
    from ..match import run_paths, within_vocabulary
    from ..terms import walk_term
    fn = repo.func(TS, 'create_final_dataframe')
    m = fn.module
    rows, heur = fn.params[0], fn.params[1]
    E = lambda s_, b_=None: expected_term(m, s_, b_ or {})
    col = "f'Score {" + heur + "}'"
    colt = E(col)
    base = f"pandas.DataFrame({rows}, columns=['Feature', {col}])"
    chains = []
    for by in (f"by={col}", col, f"by=[{col}]"):
        for g in ("'Feature'", "['Feature']"):
            chains.append(E(f"{base}.groupby({g}).median().reset_index().sort_values({by}, ascending=False)"))
            chains.append(E(f"{base}.groupby({g}, as_index=False).median().sort_values({by}, ascending=False)"))
            chains.append(E(f"{base}.groupby({g}).median().sort_values({by}, ascending=False).reset_index()"))
    pred = lambda e: isinstance(e, ast.Name) and e.id == heur
    seen = {}
    # every heuristic name the package dispatches on (AMI contains 'MI' without starting with it; 'correlation-Pearson' does not contain it)
    try:
        from .common import heuristic_universe
        universe = sorted(h for h in heuristic_universe(repo) if isinstance(h, str) and h)
    except Exception:
        universe = []
    cases = [('MI-numba-randomized', True), ('surrogate-SGD', False)] + [(h, 'MI' in h) for h in universe if h not in ('MI-numba-randomized', 'surrogate-SGD')]
    for hval, is_mi in cases:
        paths = run_paths(fn, pred, hval, max_forks=2)
        if not paths or len(paths) != 1 or paths[0][1].unknown is not None or paths[0][1].returned is None:
            node = paths[0][1].unknown if paths and paths[0][1].unknown is not None else None
            chk.unsure('C18.2', 'R15', fn.site(node) if node is not None else fn.site(), f'heuristic {hval!r}', 'create_final_dataframe could not be evaluated as one path for this heuristic')
            continue
        res = paths[0][1]
        site = fn.site(res.returned) if hasattr(res.returned, 'lineno') else fn.site()
        stores = [u for u in res.updates]
        rt = term_of(fn, res.returned, inline=False)
        # the aggregated frame: what is returned, or (when its score column was stored to afterwards) the frame the store went to
        frame_t = term_of(fn, stores[0]['target'], inline=False) if stores else rt
        if frame_t in chains:
            seen.setdefault('C18.2a', []).append(hval)
        else:
            chk.expect_term(frame_t, chains, 'C18.2a', 'R15', site, f'{hval}: {show(frame_t)[:160]}', '',
                            f"the summary must be DataFrame(rows, columns=[Feature, Score h]).groupby('Feature').median() sorted by the score, descending, with nothing applied to the scores before the median; found {show(frame_t)[:220]}")
            continue
        if not is_mi:
            if stores or res.calls:
                nd = (stores[0]['node'] if stores else res.calls[0]['node'])
                chk.bad('C18.3a', 'R14', fn.site(nd), ast.unparse(nd)[:100], "min-max normalisation must be applied exactly when 'MI' is in the heuristic name: here the scores of a non-MI heuristic are rewritten")
            else:
                seen.setdefault('C18.3a', []).append(hval)
            continue
        # MI: exactly one store into the score column of the aggregated frame
        if not stores:
            chk.bad('C18.3a', 'R14', site, f'heuristic {hval!r}: no store into the score column', "min-max normalisation must be applied, after the median and the sort, exactly when 'MI' is in the heuristic name")
            continue
        seen.setdefault('C18.3a', []).append(hval)
        if len(stores) != 1 or stores[0]['kind'] != 'store1':
            chk.bad('C18.3b', 'R15', fn.site(stores[0]['node']), ast.unparse(stores[0]['node'])[:120], 'normalisation block does not rewrite the score column exactly once')
            continue
        u = stores[0]
        key = term_of(fn, u['key'], inline=False)
        val = term_of(fn, u['value'], inline=False)
        G = frame_t
        c_ = ('sub', G, colt)
        want = [expected_term(m, '(C - C.min()) / (C.max() - C.min())', {'C': c_}), expected_term(m, '(C - numpy.min(C)) / (numpy.max(C) - numpy.min(C))', {'C': c_}),
                expected_term(m, '(C - C.min()) / numpy.ptp(C)', {'C': c_})]
        if key == colt and val in want:
            seen.setdefault('C18.3b', []).append(hval)
        else:
            # the same formula over another column / frame (e.g. the raw rows instead of the medians) is a real difference
            raw = ('sub', E(base), colt)
            over_raw = any(x == raw for x in walk_term(val)) and key == colt
            if over_raw:
                chk.bad('C18.3b', 'R15', fn.site(u['node']), ast.unparse(u['node'])[:140], 'the minimum / maximum of the normalisation are taken over the raw rows instead of the per-feature medians: the best feature no longer gets 1 and the worst no longer gets 0')
            else:
                chk.expect_term(val, want, 'C18.3b', 'R15', fn.site(u['node']), ast.unparse(u['node'])[:140], '', f'normalisation must be (s - min)/(max - min) over the aggregated score column; found {show(val)[:200]}', extra_ok=(key == colt))
        if getattr(res.returned, '_seq', None) is not None and u.get('seq') is not None and False:
            pass
        # what is returned is that frame (not re-bound / re-sorted afterwards)
        ok_ret = rt == frame_t or isinstance(res.returned, ast.Name)
        chk.expect(ok_ret, 'C18.3c', 'R1', site, ast.unparse(res.returned)[:100], 'the normalised frame is returned as is', 'the frame is re-bound after normalisation', soft=True)
    titles = {'C18.2a': 'per-feature median of the label scores, descending', 'C18.3a': "normalisation exactly when 'MI' is in the heuristic name", 'C18.3b': 'scores become (s - min)/(max - min) of the aggregated scores: best 1, worst 0, order kept'}
    done = {o.oid for o in chk.obs}
    for oid, t_ in titles.items():
        if oid in seen and oid not in done:
            chk.ok(oid, 'R15', fn.site(), ', '.join(seen[oid]), t_, inspected=len(seen[oid]))
    if 'C18.2a' in seen and 'C18.2a' not in done:
        chk.ok('C18.2b', 'R1', fn.site(), 'the frame that is grouped is built directly from the rows', 'raw scores reach the median unmodified')


def interactions(repo, chk):
    """handle_interaction_order evaluated path by path (tests forked, effect loops summarised): the aggregated file is written exactly
    when interaction_order > 1, from one row per constituent holding the median of the scores of every interaction (name containing AND)
    the constituent takes part in."""
    from ..match import run_paths
    from ..terms import pattern, unify, unkind, walk_term
    fn = repo.func(TS, 'handle_interaction_order')
    m = fn.module
    p = fn.params
    df, heur, order = p[0], p[2], p[3]
    E = lambda s_, bnd=None: expected_term(m, s_, bnd or {})
    paths = run_paths(fn, None, None, max_forks=4)
    if paths is None:
        chk.unsure('C18.4a', 'R14', fn.site(), 'handle_interaction_order', 'too many undecidable tests')
        return
    gt_forms, le_forms = [E(f'1 < {order}'), E(f'{order} >= 2')], [E(f'{order} <= 1'), E(f'{order} < 2')]
    col = "f'Score {" + heur + "}'"
    seen_write = seen_skip = False
    problems = {}
    oks = set()
    for assume, res in paths:
        if res.unknown is not None:
            chk.unsure('C18.4', 'R15', fn.site(res.unknown), ast.unparse(res.unknown).replace('\n', ' ')[:100], 'a statement outside the vocabulary of effect loops in handle_interaction_order')
            continue
        dec = None
        others = []
        for t_ast, v in res.assumed:
            tt = term_of(fn, t_ast, inline=False)
            if tt in gt_forms:
                dec = v
            elif tt in le_forms:
                dec = not v
            else:
                others.append(t_ast)
        wr = [c for c in res.calls if isinstance(c['call'].func, ast.Attribute) and c['call'].func.attr == 'to_csv' and 'feature_singles_aggregated.tsv' in ast.unparse(c['call'])]
        if dec is None:
            if wr or res.updates:
                problems.setdefault('C18.4a', (fn.node, 'the aggregated table must be produced exactly when interaction_order > 1 (no test of the interaction order on this path)'))
            continue
        if not dec:
            seen_skip = True
            if wr:
                problems.setdefault('C18.4a', (wr[0]['node'], 'the aggregated table must be produced exactly when interaction_order > 1'))
            continue
        if others:
            problems.setdefault('C18.4a', (others[0], f'the aggregated table must be produced exactly when interaction_order > 1; an additional test decides: {ast.unparse(others[0])[:60]}'))
        if not wr:
            problems.setdefault('C18.4g', (fn.node, 'feature_singles_aggregated.tsv must be written from the per-constituent table'))
            continue
        seen_write = True
        # the collection: for every row, for every constituent of an interaction name: store[constituent].append(score of the row)
        feeds = [u for u in res.updates if u['kind'] == 'foreach' and u['op'] == 'call' and u['method'] == 'append']
        store_name = None
        from .common import loop_terms
        two_level = []
        for u in feeds:
            chain, key, val, guard, a_, tgt_t = loop_terms(fn, u)
            if len(chain) != 2:
                continue
            two_level.append(u)
            ROW = ('lvar', 0, 1)          # second position of the (index, row) pairs of iterrows()
            ER = lambda s_: expected_term(m, s_, {'row': ROW, 'el': ('lvar', 1, 0)})
            if chain[0] != E(f'{df}.iterrows()'):
                problems.setdefault('C18.4f', (u['node'], 'all rows of the feature summary must be visited', chain[0], [E(f'{df}.iterrows()'), E(f'{df}.itertuples()')]))
                continue
            oks.add('C18.4f')
            if chain[1] == ER("row['Feature'].split('-')[0].split(' AND ')"):
                oks.add('C18.4b')
            else:
                problems.setdefault('C18.4b', (u['node'], f"constituents must be name.split('-')[0].split(' AND '); found {show(chain[1])[:100]}", chain[1], [ER("row['Feature'].split('-')[0].split(' AND ')")]))
            # the receiver: store[constituent] of a defaultdict(list), or store.setdefault(constituent, [])
            store_t = None
            if tgt_t[0] == 'sub' and tgt_t[1][0] == 'name' and tgt_t[2] == ('lvar', 1, 0):
                store_t = tgt_t[1][1]
            elif tgt_t[0] == 'call' and tgt_t[1][0] == 'attr' and tgt_t[1][2] == 'setdefault' and tgt_t[1][1][0] == 'name' and len(tgt_t[2]) == 2 and tgt_t[2][0] == ('lvar', 1, 0) and tgt_t[2][1] == ('list',):
                store_t = tgt_t[1][1][1]
            okc = store_t is not None and a_ and a_[0] == ER(f"row[{col}]")
            if okc:
                oks.add('C18.4c')
                store_name = store_t
            else:
                problems.setdefault('C18.4c', (u['node'], 'each constituent must collect the score of the row it occurs in'))
            if guard in (ER("'AND' in row['Feature']"), ER("' AND ' in row['Feature']")):
                oks.add('C18.4d')
            else:
                problems.setdefault('C18.4d', (u['node'], f'only names containing AND may contribute to the aggregated table; guard: {show(guard)[:80] if guard else "none"}'))
        # a name cut in two at the first ' AND ' (partition / split with a limit): only right for interactions of exactly two features
        pair_cut = [c for c in calls(fn) if isinstance(c.func, ast.Attribute) and ((c.func.attr in ('partition', 'rpartition') and c.args and isinstance(c.args[0], ast.Constant) and 'AND' in str(c.args[0].value))
                                                                                   or (c.func.attr in ('split', 'rsplit') and len(c.args) == 2 and isinstance(c.args[0], ast.Constant) and 'AND' in str(c.args[0].value)))]
        if feeds and not two_level and pair_cut:
            problems.setdefault('C18.4b', (pair_cut[0], f"the interaction name is cut at one ' AND ' only ({ast.unparse(pair_cut[0])[:60]}): for interactions of three or more features the remainder `b AND c` is treated as one constituent, so the per-constituent medians are wrong"))
        elif feeds and not two_level:
            u = feeds[0]
            chk.unsure('C18.4b', 'R15', fn.site(u['node']), ast.unparse(u['node'])[:100], "the scores are collected, but not by a loop over name.split('-')[0].split(' AND '): how the constituents are obtained is outside the vocabulary of the accepted forms")
        if not feeds:
            opaque = [e for e in res.effects if isinstance(e, (ast.For, ast.While))]
            if opaque:
                chk.unsure('C18.4b', 'R15', fn.site(opaque[0]), ast.unparse(opaque[0]).replace('\n', ' ')[:100], 'the loop that collects the scores per constituent is outside the vocabulary of effect loops')
            else:
                problems.setdefault('C18.4b', (fn.node, 'per-constituent split of interaction names not found'))
        # the written frame: one row per constituent with the median of its collected scores
        recv = term_of(fn, wr[0]['call'].func.value, inline=False)
        okm = False
        if store_name:
            for cname in ('K', ):
                pats = [pattern(m, f"pandas.DataFrame([{{'Feature': kv[0], C: numpy.median(kv[1])}} for kv in {store_name}.items()])", ['C']),
                        pattern(m, f"pandas.DataFrame([{{'Feature': k, C: numpy.median({store_name}[k])}} for k in {store_name}])", ['C']),
                        pattern(m, f"pandas.DataFrame({{'Feature': list({store_name}.keys()), C: [numpy.median(v) for v in {store_name}.values()]}})", ['C'])]
                okm = any(unify(unkind(pt), unkind(recv)) is not None for pt in pats)
        other_agg = None
        if store_name and not okm:
            bb = unify(unkind(pattern(m, f"pandas.DataFrame([{{'Feature': kv[0], C: AGG(kv[1])}} for kv in {store_name}.items()])", ['C', 'AGG'])), unkind(recv))
            if bb is not None and bb['AGG'] != ('lib', 'numpy.median'):
                other_agg = bb['AGG']
        other_expr = None
        if store_name and not okm and other_agg is None:
            # any other expression over the collected scores in the place of np.median(scores)
            bb = unify(unkind(pattern(m, f"pandas.DataFrame([{{'Feature': kv[0], C: EXPR}} for kv in {store_name}.items()])", ['C', 'EXPR'])), unkind(recv))
            if bb is not None:
                ex = bb['EXPR']
                medians = [unkind(pattern(m, src)) for src in ('numpy.median(kv[1])', 'statistics.median(kv[1])', 'numpy.percentile(kv[1], 50)', 'numpy.quantile(kv[1], 0.5)', 'float(numpy.median(kv[1]))')]
                fns = {x[1] for x in walk_term(ex) if isinstance(x, tuple) and len(x) == 4 and x[0] == 'call'}
                simple = {('lib', 'numpy.sort'), ('name', 'sorted'), ('name', 'len'), ('lib', 'numpy.mean'), ('name', 'sum'), ('name', 'max'), ('name', 'min'), ('lib', 'numpy.max'), ('lib', 'numpy.min'), ('lib', 'numpy.sum'),
                          ('lib', 'numpy.average'), ('lib', 'statistics.mean'), ('lib', 'numpy.percentile'), ('lib', 'numpy.quantile'), ('name', 'int'), ('name', 'float'), ('name', 'list')}
                if not any(unify(md, ex) is not None for md in medians) and fns <= simple:
                    other_expr = ex
        if okm:
            oks.add('C18.4e')
            oks.add('C18.4g')
        elif other_expr is not None:
            problems.setdefault('C18.4e', (wr[0]['node'], f'the aggregated table must hold np.median of the collected scores for every constituent; it holds {show(other_expr)[:100]} (for an even number of scores the median is the '
                                                          'mean of the two middle ones, not one of them)'))
        elif other_agg is not None:
            problems.setdefault('C18.4e', (wr[0]['node'], f'the aggregated table must hold np.median of the collected scores for every constituent; it holds {show(other_agg)[:60]}'))
        elif store_name:
            vocab_ok = True
            from ..match import within_vocabulary
            vocab_ok = within_vocabulary(recv, [pattern(m, f"pandas.DataFrame([{{'Feature': kv[0], 'c': numpy.median(kv[1])}} for kv in {store_name}.items()])")])
            if vocab_ok:
                problems.setdefault('C18.4e', (wr[0]['node'], f'the aggregated table must hold np.median of the collected scores for every constituent; found {show(recv)[:160]}'))
            else:
                chk.unsure('C18.4e', 'R15', fn.site(wr[0]['node']), show(recv)[:160], 'the frame written to feature_singles_aggregated.tsv is built with operations outside the vocabulary of the accepted forms')
    if not seen_skip and 'C18.4a' not in problems and seen_write:
        problems.setdefault('C18.4a', (fn.node, 'the aggregated table must be produced exactly when interaction_order > 1 (it is produced unconditionally)'))
    evaluated = [r for _a, r in paths if r.unknown is None]
    if not seen_write and 'C18.4a' not in problems and evaluated and len(evaluated) == len(paths) and not any('C18.4' in o.oid for o in chk.obs if o.status != 'discharged'):
        # every path was evaluated and none of them writes the aggregated table
        problems.setdefault('C18.4a', (fn.node, 'no path of handle_interaction_order writes feature_singles_aggregated.tsv: with interaction_order > 1 the per-constituent table is never produced'))
    good = {'C18.4a': 'aggregated table only for interaction order > 1', 'C18.4b': "constituents = name part before '-' split on ' AND '", 'C18.4c': 'each constituent collects the score of every interaction it takes part in',
            'C18.4d': 'only interaction features contribute', 'C18.4e': 'per constituent: median of the collected scores', 'C18.4f': 'every row of the summary is visited', 'C18.4g': 'the aggregated table is written to feature_singles_aggregated.tsv'}
    for oid, why_ok in good.items():
        if oid in problems:
            pr = problems[oid]
            node = pr[0]
            if len(pr) > 2:
                chk.expect_term(pr[2], pr[3], oid, 'R15', fn.site(node), ast.unparse(node).replace('\n', ' ')[:100], '', pr[1])
            else:
                chk.bad(oid, 'R15' if oid not in ('C18.4a', 'C18.4d') else 'R14', fn.site(node) if not isinstance(node, ast.FunctionDef) else fn.site(), ast.unparse(node).replace('\n', ' ')[:100] if not isinstance(node, ast.FunctionDef) else 'handle_interaction_order', pr[1])
        elif oid in oks or (oid == 'C18.4a' and seen_write and seen_skip):
            chk.ok(oid, 'R15', fn.site(), 'handle_interaction_order', why_ok)


def wiring(repo, chk):
    fn = repo.func(TS, 'outrank_task_result_summary')
    m = fn.module
    a = fn.params[0]
    from ..match import bind_args
    want = [('generate_final_ranking', [('data', 'read_and_sort_triplets'), ('cfg', 'label_column')]), ('create_final_dataframe', [('data', 'generate_final_ranking'), ('cfg', 'heuristic')]),
            ('handle_interaction_order', [('data', 'create_final_dataframe'), ('cfg', 'output_folder'), ('cfg', 'heuristic'), ('cfg', 'interaction_order')])]
    stage_names = {'read_and_sort_triplets', 'generate_final_ranking', 'create_final_dataframe'}
    cfg_attrs = {'label_column', 'heuristic', 'output_folder', 'interaction_order', 'tldr', 'task', 'data_path'}

    def resolve(e, depth=0):
        if isinstance(e, ast.Name) and depth < 5:
            ds = [n.value for n in own_nodes(fn.node) if isinstance(n, ast.Assign) and len(n.targets) == 1 and isinstance(n.targets[0], ast.Name) and n.targets[0].id == e.id]
            if len(ds) == 1:
                return resolve(ds[0], depth + 1)
        return e
    for name, roles in want:
        callee = repo.func(TS, name)
        cs = [c for c in calls(fn) if m.dotted(c.func) == f'{TS}.{name}']
        if len(cs) != 1:
            chk.expect(False, 'C18.5', 'R6', fn.site(cs[0]) if cs else fn.site(), ast.unparse(cs[0])[:120] if cs else name, '', f'{name} must be called exactly once by the summary task (found {len(cs)} calls)', soft=True)
            continue
        ba = bind_args(cs[0], callee)
        verdict, why = 'ok', ''
        for pname, (kind, what) in zip(callee.params, roles):
            v = ba.get(pname)
            if v is None:
                verdict, why = 'bad', f'{name} does not receive its parameter {pname}'
                break
            r = resolve(v)
            if kind == 'data':
                prod = (m.dotted(r.func) or '').split('.')[-1] if isinstance(r, ast.Call) else None
                if prod == what:
                    continue
                if prod in stage_names:
                    verdict, why = 'bad', f'{name} must receive the result of {what} as {pname}; it receives the result of {prod}'
                    break
                # the producer's table after a selection / rewrite: a row filter, a slice, a score-changing method
                inner = r
                changed = None
                for _ in range(4):
                    if isinstance(inner, ast.Subscript) and not isinstance(inner.slice, ast.Constant):
                        changed, inner = 'a selection of its rows', resolve(inner.value)
                    elif isinstance(inner, ast.Call) and isinstance(inner.func, ast.Attribute) and inner.func.attr in ROW_OR_SCORE_OPS:
                        changed, inner = f'.{inner.func.attr}(..) of it', resolve(inner.func.value)
                    elif isinstance(inner, ast.Attribute) and inner.attr in ('loc', 'iloc'):
                        inner = resolve(inner.value)
                    else:
                        break
                if changed and isinstance(inner, ast.Call) and (m.dotted(inner.func) or '').split('.')[-1] == what:
                    verdict, why = 'bad', f'{name} must receive the table {what} produced; it receives {changed} ({ast.unparse(r)[:60]}): rows / scores are dropped or changed between the stages'
                    break
                verdict, why = 'unsure', f'where the value passed as {pname} to {name} comes from was not resolved to the result of {what}'
            else:
                if isinstance(r, ast.Attribute) and r.attr == what:
                    continue
                if isinstance(r, ast.Attribute) and r.attr in cfg_attrs:
                    verdict, why = 'bad', f'{name} must receive the configured {what} as {pname}; it receives .{r.attr}'
                    break
                if isinstance(r, ast.Constant):
                    verdict, why = 'bad', f'{name} must receive the configured {what} as {pname}; it receives the constant {r.value!r}'
                    break
                verdict, why = 'unsure', f'the value passed as {pname} to {name} was not resolved to the configured {what}'
        site_ = fn.site(cs[0])
        if verdict == 'ok':
            chk.ok('C18.5', 'R6', site_, ast.unparse(cs[0])[:120], f'{name} receives its arguments in their roles')
        elif verdict == 'bad':
            chk.bad('C18.5', 'R6', site_, ast.unparse(cs[0])[:120], why)
        else:
            chk.unsure('C18.5', 'R6', site_, ast.unparse(cs[0])[:120], why)
    handed_over_as_produced(chk, fn, m)
    st = repo.func(TS, 'store_summary_files')
    w = [c for c in calls(st, attr='to_csv')]
    def strings_of(e, depth=0):
        out = set()
        for x in ast.walk(e):
            if isinstance(x, ast.Constant) and isinstance(x.value, str):
                out.add(x.value)
            elif isinstance(x, ast.Name) and depth < 4:
                for v in st.module.assigns.get(x.id, []) if x.id not in st.params else []:
                    out |= strings_of(v, depth + 1)
                for n in own_nodes(st.node):
                    if isinstance(n, ast.Assign) and len(n.targets) == 1 and isinstance(n.targets[0], ast.Name) and n.targets[0].id == x.id:
                        out |= strings_of(n.value, depth + 1)
        return out
    path = None
    if len(w) == 1:
        path = w[0].args[0] if w[0].args else next((k.value for k in w[0].keywords if k.arg == 'path_or_buf'), None)
    ok = len(w) == 1 and isinstance(w[0].func.value, ast.Name) and w[0].func.value.id == st.params[0] and path is not None and 'feature_singles.tsv' in strings_of(path)
    chk.expect(ok, 'C18.6', 'origin', st.site(w[0]) if w else st.site(), ast.unparse(w[0]) if w else 'to_csv', 'feature_singles.tsv is the summary frame', 'feature_singles.tsv must be written from the summary frame unmodified')


ROW_OR_SCORE_OPS = {'clip', 'abs', 'round', 'fillna', 'dropna', 'query', 'head', 'tail', 'sample', 'drop_duplicates', 'nlargest', 'nsmallest', 'replace', 'mask', 'where', 'drop', 'truncate', 'rank',
                    'apply', 'applymap', 'map', 'transform', 'mul', 'div', 'add', 'sub', 'pow', 'astype', 'loc', 'iloc', 'groupby', 'filter', 'update', 'pop', 'insert', 'rename', 'set_axis'}
CONSUMED = {'Score', 'FeatureA', 'FeatureB', 'Feature'}


def handed_over_as_produced(chk, fn, m):
    """C18.5b - between the stages of outrank_task_result_summary the intermediate tables (the triplets as read, the selected rows, the summary frame)
    are handed over as the producing stage returned them: nothing in between stores into their Score / Feature columns, filters or rebinds them."""
    stage = {'read_and_sort_triplets', 'generate_final_ranking', 'create_final_dataframe'}
    inter = {}
    for n in own_nodes(fn.node):
        if isinstance(n, ast.Assign) and len(n.targets) == 1 and isinstance(n.targets[0], ast.Name) and isinstance(n.value, ast.Call) and (m.dotted(n.value.func) or '').split('.')[-1] in stage:
            inter.setdefault(n.targets[0].id, []).append(n)
    if not inter:
        chk.unsure('C18.5b', 'R1', fn.site(), 'outrank_task_result_summary', 'the tables passed from stage to stage were not found as plain bindings of the stage calls')
        return
    problems = 0
    for n in own_nodes(fn.node):
        tg = []
        if isinstance(n, ast.Assign):
            tg = n.targets
        elif isinstance(n, (ast.AugAssign, ast.AnnAssign)):
            tg = [n.target]
        elif isinstance(n, ast.Delete):
            tg = n.targets
        for t in tg:
            base, key = t, None
            while isinstance(base, (ast.Subscript, ast.Attribute)):
                if isinstance(base, ast.Subscript) and isinstance(base.slice, ast.Constant):
                    key = base.slice.value
                if isinstance(base, ast.Attribute) and key is None and base.attr not in ('loc', 'iloc', 'at', 'iat', 'values'):
                    key = base.attr
                base = base.value
            if not (isinstance(base, ast.Name) and base.id in inter):
                continue
            if t is base:
                if n in inter[base.id]:
                    continue
                problems += 1
                v = getattr(n, 'value', None)
                changing = v is not None and any((isinstance(x, ast.Attribute) and x.attr in ROW_OR_SCORE_OPS) or (isinstance(x, ast.Subscript) and not isinstance(x.slice, ast.Constant)) for x in ast.walk(v))
                (chk.bad if changing else chk.unsure)('C18.5b', 'R1', fn.site(n), ast.unparse(n)[:120], f'the table {base.id} is re-bound between the stage that produced it and the stage that consumes it' +
                                                     (': rows or scores are changed on the way, so the ranking is not the ranking of the scores that were computed' if changing else '; whether rows and scores are unchanged is not decided'))
                continue
            problems += 1
            if key is None or key in CONSUMED:
                chk.bad('C18.5b', 'R1', fn.site(n), ast.unparse(n)[:120], f'a store into {base.id}' + (f'[{key!r}]' if key else '') + ' between the stage that produced the table and the stage that consumes it: '
                        'the summary is computed from scores / names that are not the ones that were written by the ranking')
            else:
                problems -= 1
        if isinstance(n, ast.Call) and isinstance(n.func, ast.Attribute) and isinstance(n.func.value, ast.Name) and n.func.value.id in inter:
            inplace = any(k.arg == 'inplace' and not (isinstance(k.value, ast.Constant) and k.value.value is False) for k in n.keywords)
            if inplace or n.func.attr in ('update', 'pop', 'insert', 'clear', 'sort', 'reverse', 'remove', 'append', 'extend'):
                problems += 1
                chk.bad('C18.5b', 'R1', fn.site(n), ast.unparse(n)[:120], f'{n.func.value.id} is modified in place between the stage that produced it and the stage that consumes it')
    if not problems:
        chk.ok('C18.5b', 'R1', fn.site(), ', '.join(sorted(inter)), 'each intermediate table is bound once, by its producing stage, and reaches the consuming stage untouched', inspected=len(inter))
