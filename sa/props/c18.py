"""C18 - feature summary = per-feature median of label scores, sorted, normalised.

 1 rows selected iff the label equals the part of A (resp. B) before the first '-', contributing the OTHER name with the row's score
 2 groupby('Feature').median(), sort_values(ascending=False) on the score column; nothing touches the scores between the
   construction of the frame and the median
 3 min-max normalisation (s - min)/(max - min) of the grouped, sorted frame iff 'MI' in heuristic (monotone: order preserved)
 4 interaction table: name part before '-' split on ' AND ', np.median per constituent, only when interaction_order > 1
"""
from __future__ import annotations

import ast

from ..match import calls, expected_term, returns, term_of
from ..model import own_nodes, parents
from ..terms import Canon, Scope, show

EXPLANATION = ('Canonical-term equality (R15) and comparison normal form (R14) over outrank/task_summary.py: the two row-selection tests and what they contribute, the '
               'groupby/median/sort chain, the placement and formula of the min-max normalisation (after the median, guarded by "MI" in heuristic), and the per-constituent median of interaction scores.')
TRUSTED_BASE = ['DataFrame.groupby(key).median(); sort_values(ascending=False) is descending; min-max scaling is monotone']
ASSUMPTIONS = ['feature names that themselves contain "-" are outside the statement']

TS = 'outrank.task_summary'


def run(repo, chk, tier):
    selection(repo, chk)
    summary_frame(repo, chk)
    interactions(repo, chk)
    wiring(repo, chk)


def selection(repo, chk):
    fn = repo.func(TS, 'generate_final_ranking')
    m = fn.module
    label = fn.params[1]
    loops = [n for n in own_nodes(fn.node) if isinstance(n, ast.For)]
    if len(loops) != 1:
        chk.unsure('C18.1', 'R14', fn.site(), 'for _, row in triplets.iterrows()', 'row loop not found')
        return
    lp = loops[0]
    it = term_of(fn, lp.iter, inline=True)
    ok_it = it == expected_term(m, f'{fn.params[0]}.iterrows()') and isinstance(lp.target, ast.Tuple) and len(lp.target.elts) == 2
    chk.expect(ok_it, 'C18.1a', 'R13', fn.site(lp), ast.unparse(lp.iter), 'every row of the triplet table is visited', 'the selection must visit every row of the triplet table')
    if not ok_it:
        return
    row = lp.target.elts[1].id
    bound = {row: ('role', 'row'), label: ('role', 'label')}
    ifs = [n for n in lp.body if isinstance(n, ast.If)]
    if len(ifs) != 1:
        chk.unsure('C18.1b', 'R14', fn.site(lp), 'if label == A.split("-")[0]: ... elif label == B.split("-")[0]: ...', f'{len(ifs)} selection statements in the loop')
        return
    top = ifs[0]
    E = lambda s: expected_term(m, s, {'row': ('role', 'row'), 'label': ('role', 'label')})
    branches = []
    cur = top
    while True:
        branches.append((cur.test, cur.body))
        if len(cur.orelse) == 1 and isinstance(cur.orelse[0], ast.If):
            cur = cur.orelse[0]
            continue
        tail = cur.orelse
        break
    seen = {}
    for test, body in branches:
        t = term_of(fn, test, bound, inline=True)
        side = None
        for s, o in (('FeatureA', 'FeatureB'), ('FeatureB', 'FeatureA')):
            if t == E(f"label == row['{s}'].split('-')[0]"):
                side, other = s, o
        if side is None:
            chk.bad('C18.1b', 'R14', fn.site(test), ast.unparse(test), f"a row must be selected iff the label equals the part of FeatureA / FeatureB before the first '-' (exact equality); found {show(t)[:140]}")
            continue
        aps = [c for s in body for c in ast.walk(s) if isinstance(c, ast.Call) and isinstance(c.func, ast.Attribute) and c.func.attr == 'append']
        okb = False
        if len(aps) == 1 and isinstance(aps[0].args[0], (ast.List, ast.Tuple)) and len(aps[0].args[0].elts) == 2:
            e = aps[0].args[0].elts
            okb = term_of(fn, e[0], bound, inline=True) == E(f"row['{other}']") and term_of(fn, e[1], bound, inline=True) == E("row['Score']")
        chk.expect(okb, f'C18.1c-{side}', 'R15', fn.site(aps[0]) if aps else fn.site(test), ast.unparse(aps[0]) if aps else 'append', f'label on side {side}: contributes the other name with the row\'s score',
                   f'when the label is {side}, the row must contribute [{other}, Score]')
        seen[side] = True
    chk.expect(set(seen) == {'FeatureA', 'FeatureB'} and not tail, 'C18.1d', 'R7', fn.site(top), 'label as A / label as B', 'both orientations are used, nothing else is added', 'rows must be selected for the label on either side, and only those')
    r = returns(fn)
    aps_all = calls(fn, attr='append')
    chk.expect(len(r) == 1 and isinstance(r[0].value, ast.Name) and all(isinstance(a.func.value, ast.Name) and a.func.value.id == r[0].value.id for a in aps_all), 'C18.1e', 'origin', fn.site(r[0]) if r else fn.site(), ast.unparse(r[0]) if r else 'return', 'the collected rows are returned', 'the collected rows must be returned')


def summary_frame(repo, chk):
    fn = repo.func(TS, 'create_final_dataframe')
    m = fn.module
    rows, heur = fn.params[0], fn.params[1]
    body = [s for s in fn.node.body if not (isinstance(s, ast.Expr) and isinstance(s.value, ast.Constant))]
    r = returns(fn)
    if len(r) != 1:
        chk.unsure('C18.2', 'R15', fn.site(), 'return final_df', 'single return expected')
        return
    pseudo = None
    if isinstance(r[0].value, ast.Name):
        df = r[0].value.id
    else:
        # `return <chain on the frame>`: treat the returned expression as the last re-binding of the frame
        root = r[0].value
        while isinstance(root, (ast.Call, ast.Attribute, ast.Subscript)):
            root = root.func if isinstance(root, ast.Call) else root.value
        if not isinstance(root, ast.Name):
            chk.unsure('C18.2', 'R15', fn.site(r[0]), ast.unparse(r[0])[:100], 'cannot find the frame the returned expression is built from')
            return
        df = root.id
        pseudo = ast.copy_location(ast.Assign(targets=[ast.Name(df, ast.Store())], value=r[0].value), r[0])
        ast.fix_missing_locations(pseudo)
    E = lambda s: expected_term(m, s)
    col = "f'Score {" + heur + "}'"
    base = f"pandas.DataFrame({rows}, columns=['Feature', {col}])"
    assigns = [s for s in own_nodes(fn.node) if isinstance(s, ast.Assign) and any(isinstance(t, ast.Name) and t.id == df for t in s.targets)]
    if pseudo is not None:
        assigns.append(pseudo)
        body = body + [pseudo]
    assigns.sort(key=lambda s: s.lineno)
    cn = Canon(m, Scope(None), inline=False)
    # symbolic value of df after each top-level assignment
    cur = None
    grouped_at = None
    chain_ok = False
    chains = []
    for by in (f"by={col}", col, f"by=[{col}]"):
        for g in ("'Feature'", "['Feature']"):
            chains.append(E(f"{base}.groupby({g}).median().reset_index().sort_values({by}, ascending=False)"))
            chains.append(E(f"{base}.groupby({g}, as_index=False).median().sort_values({by}, ascending=False)"))
            chains.append(E(f"{base}.groupby({g}).median().sort_values({by}, ascending=False).reset_index()"))
    for a in assigns:
        if a not in body:
            continue
        t = Canon(m, Scope(fn), inline=True, bound={df: cur} if cur is not None else {}).t(a.value)
        cur = t
        if t in chains:
            chain_ok = True
            grouped_at = a
    if not chain_ok:
        chk.bad('C18.2a', 'R15', fn.site(assigns[0]) if assigns else fn.site(), ast.unparse(assigns[-1]).replace('\n', ' ')[:200] if assigns else '',
                f"the summary must be DataFrame(rows, columns=[Feature, Score h]).groupby('Feature').median() sorted by the score, descending, with nothing applied to the scores before the median; found {show(cur)[:260] if cur else None}")
        return
    chk.ok('C18.2a', 'R15', fn.site(grouped_at), ast.unparse(grouped_at).replace('\n', ' ')[:200], 'per-feature median of the label scores, descending')
    # no column stores before the median
    early = [s for s in own_nodes(fn.node) if isinstance(s, (ast.Assign, ast.AugAssign)) and s.lineno < grouped_at.lineno and any(isinstance(t, ast.Subscript) for t in (s.targets if isinstance(s, ast.Assign) else [s.target]))]
    chk.expect(not early, 'C18.2b', 'R1', fn.site(early[0]) if early else fn.site(grouped_at), ast.unparse(early[0])[:120] if early else 'no store before the median', 'raw scores reach the median unmodified', 'scores are modified before the per-feature median is taken')
    # normalisation
    ifs = [s for s in body if isinstance(s, ast.If) and s.lineno > grouped_at.lineno]
    norm_ifs = [s for s in ifs if term_of(fn, s.test, inline=False) == E(f"'MI' in {heur}")]
    if len(norm_ifs) != 1 or norm_ifs[0].orelse:
        chk.bad('C18.3a', 'R14', fn.site(ifs[0]) if ifs else fn.site(), ast.unparse(ifs[0].test) if ifs else "if 'MI' in heuristic", "min-max normalisation must be applied, after the median and the sort, exactly when 'MI' is in the heuristic name")
        return
    ni = norm_ifs[0]
    stores = [s for s in ni.body if isinstance(s, ast.Assign) and isinstance(s.targets[0], ast.Subscript)]
    okn = False
    if len(stores) == 1:
        st = stores[0]
        sc = Scope(fn)
        t = Canon(m, sc, inline=True).t(st.value)
        c = f"{df}[{col}]"
        forms = [E(f"({c} - {c}.min()) / ({c}.max() - {c}.min())")]
        tgt_ok = Canon(m, sc, inline=True).t(st.targets[0]) == E(c)
        okn = t in forms and tgt_ok
        if okn:
            chk.expect(okn, 'C18.3b', 'R15', fn.site(st), ast.unparse(st)[:160], 'scores become (s - min)/(max - min) of the aggregated scores: best 1, worst 0, order kept',
                       f'normalisation must be (s - min)/(max - min) over the aggregated score column; found {show(t)[:200]}')
        else:
            chk.expect_term(t, forms, 'C18.3b', 'R15', fn.site(st), ast.unparse(st)[:160], 'scores become (s - min)/(max - min) of the aggregated scores: best 1, worst 0, order kept',
                            f'normalisation must be (s - min)/(max - min) over the aggregated score column; found {show(t)[:200]}')
    else:
        chk.bad('C18.3b', 'R15', fn.site(ni), ast.unparse(ni).replace('\n', ' ')[:160], 'normalisation block does not rewrite the score column exactly once')
    # nothing re-sorts / re-binds after the normalisation
    later = [a for a in assigns if a.lineno > ni.lineno]
    chk.expect(not later, 'C18.3c', 'R1', fn.site(later[0]) if later else fn.site(r[0]), ast.unparse(later[0])[:100] if later else 'return final_df', 'the normalised frame is returned as is', 'the frame is re-bound after normalisation')


def interactions(repo, chk):
    """handle_interaction_order evaluated path by path (tests forked, effect loops summarised): the aggregated file is written exactly
    when interaction_order > 1, from one row per constituent holding the median of the scores of every interaction (name containing AND)
    the constituent takes part in."""
    from ..match import run_paths
    from ..terms import pattern, unify, unkind, walk_term
    fn = repo.func(TS, 'handle_interaction_order')
    m = fn.module
    p = fn.params
    df, heur, order = p[0], p[2], p[3]
    E = lambda s_, bnd=None: expected_term(m, s_, bnd or {})
    paths = run_paths(fn, None, None, max_forks=4)
    if paths is None:
        chk.unsure('C18.4a', 'R14', fn.site(), 'handle_interaction_order', 'too many undecidable tests')
        return
    gt_forms, le_forms = [E(f'1 < {order}'), E(f'{order} >= 2')], [E(f'{order} <= 1'), E(f'{order} < 2')]
    col = "f'Score {" + heur + "}'"
    seen_write = seen_skip = False
    problems = {}
    oks = set()
    for assume, res in paths:
        if res.unknown is not None:
            chk.unsure('C18.4', 'R15', fn.site(res.unknown), ast.unparse(res.unknown).replace('\n', ' ')[:100], 'a statement outside the vocabulary of effect loops in handle_interaction_order')
            continue
        dec = None
        others = []
        for t_ast, v in res.assumed:
            tt = term_of(fn, t_ast, inline=False)
            if tt in gt_forms:
                dec = v
            elif tt in le_forms:
                dec = not v
            else:
                others.append(t_ast)
        wr = [c for c in res.calls if isinstance(c['call'].func, ast.Attribute) and c['call'].func.attr == 'to_csv' and 'feature_singles_aggregated.tsv' in ast.unparse(c['call'])]
        if dec is None:
            if wr or res.updates:
                problems.setdefault('C18.4a', (fn.node, 'the aggregated table must be produced exactly when interaction_order > 1 (no test of the interaction order on this path)'))
            continue
        if not dec:
            seen_skip = True
            if wr:
                problems.setdefault('C18.4a', (wr[0]['node'], 'the aggregated table must be produced exactly when interaction_order > 1'))
            continue
        if others:
            problems.setdefault('C18.4a', (others[0], f'the aggregated table must be produced exactly when interaction_order > 1; an additional test decides: {ast.unparse(others[0])[:60]}'))
        if not wr:
            problems.setdefault('C18.4g', (fn.node, 'feature_singles_aggregated.tsv must be written from the per-constituent table'))
            continue
        seen_write = True
        # the collection: for every row, for every constituent of an interaction name: store[constituent].append(score of the row)
        feeds = [u for u in res.updates if u['kind'] == 'foreach' and u['op'] == 'call' and u['method'] == 'append']
        store_name = None
        for u in feeds:
            chain = u.get('chain', [])
            if len(chain) != 2:
                continue
            row_names, row_it, row_shape = chain[0]
            row_t = term_of(fn, row_it, inline=False)
            if row_t != E(f'{df}.iterrows()'):
                problems.setdefault('C18.4f', (u['node'], 'all rows of the feature summary must be visited', row_t, [E(f'{df}.iterrows()'), E(f'{df}.itertuples()')]))
                continue
            oks.add('C18.4f')
            rowv = row_shape.elts[1].id if isinstance(row_shape, ast.Tuple) and len(row_shape.elts) == 2 and isinstance(row_shape.elts[1], ast.Name) else None
            if rowv is None:
                continue
            B = {rowv: ('role', 'row')}
            ER = lambda s_: expected_term(m, s_, {'row': ('role', 'row')})
            el_names, el_it, el_shape = chain[1]
            it_t = term_of(fn, el_it, B, inline=False)
            if it_t == ER("row['Feature'].split('-')[0].split(' AND ')"):
                oks.add('C18.4b')
            else:
                problems.setdefault('C18.4b', (u['node'], f"constituents must be name.split('-')[0].split(' AND '); found {show(it_t)[:100]}", it_t, [ER("row['Feature'].split('-')[0].split(' AND ')")]))
            tgt = u['target']
            okc = isinstance(tgt, ast.Subscript) and isinstance(tgt.value, ast.Name) and isinstance(el_shape, ast.Name) and ast.unparse(tgt.slice) == el_shape.id \
                and u['value'] is not None and term_of(fn, u['value'], B, inline=False) == ER(f"row[{col}]")
            if okc:
                oks.add('C18.4c')
                store_name = tgt.value.id
            else:
                problems.setdefault('C18.4c', (u['node'], 'each constituent must collect the score of the row it occurs in'))
            g = term_of(fn, u['guard'], B, inline=False) if u.get('guard') is not None else None
            if g in (ER("'AND' in row['Feature']"), ER("' AND ' in row['Feature']")):
                oks.add('C18.4d')
            else:
                problems.setdefault('C18.4d', (u['node'], f'only names containing AND may contribute to the aggregated table; guard: {show(g)[:80] if g else "none"}'))
        if feeds and not any(len(u.get('chain', [])) == 2 for u in feeds):
            u = feeds[0]
            chk.unsure('C18.4b', 'R15', fn.site(u['node']), ast.unparse(u['node'])[:100], "the scores are collected, but not by a loop over name.split('-')[0].split(' AND '): how the constituents are obtained is outside the vocabulary of the accepted forms")
        if not feeds:
            opaque = [e for e in res.effects if isinstance(e, (ast.For, ast.While))]
            if opaque:
                chk.unsure('C18.4b', 'R15', fn.site(opaque[0]), ast.unparse(opaque[0]).replace('\n', ' ')[:100], 'the loop that collects the scores per constituent is outside the vocabulary of effect loops')
            else:
                problems.setdefault('C18.4b', (fn.node, 'per-constituent split of interaction names not found'))
        # the written frame: one row per constituent with the median of its collected scores
        recv = term_of(fn, wr[0]['call'].func.value, inline=False)
        okm = False
        if store_name:
            for cname in ('K', ):
                pats = [pattern(m, f"pandas.DataFrame([{{'Feature': kv[0], C: numpy.median(kv[1])}} for kv in {store_name}.items()])", ['C']),
                        pattern(m, f"pandas.DataFrame([{{'Feature': k, C: numpy.median({store_name}[k])}} for k in {store_name}])", ['C']),
                        pattern(m, f"pandas.DataFrame({{'Feature': list({store_name}.keys()), C: [numpy.median(v) for v in {store_name}.values()]}})", ['C'])]
                okm = any(unify(unkind(pt), unkind(recv)) is not None for pt in pats)
        other_agg = None
        if store_name and not okm:
            bb = unify(unkind(pattern(m, f"pandas.DataFrame([{{'Feature': kv[0], C: AGG(kv[1])}} for kv in {store_name}.items()])", ['C', 'AGG'])), unkind(recv))
            if bb is not None and bb['AGG'] != ('lib', 'numpy.median'):
                other_agg = bb['AGG']
        if okm:
            oks.add('C18.4e')
            oks.add('C18.4g')
        elif other_agg is not None:
            problems.setdefault('C18.4e', (wr[0]['node'], f'the aggregated table must hold np.median of the collected scores for every constituent; it holds {show(other_agg)[:60]}'))
        elif store_name:
            vocab_ok = True
            from ..match import within_vocabulary
            vocab_ok = within_vocabulary(recv, [pattern(m, f"pandas.DataFrame([{{'Feature': kv[0], 'c': numpy.median(kv[1])}} for kv in {store_name}.items()])")])
            if vocab_ok:
                problems.setdefault('C18.4e', (wr[0]['node'], f'the aggregated table must hold np.median of the collected scores for every constituent; found {show(recv)[:160]}'))
            else:
                chk.unsure('C18.4e', 'R15', fn.site(wr[0]['node']), show(recv)[:160], 'the frame written to feature_singles_aggregated.tsv is built with operations outside the vocabulary of the accepted forms')
    if not seen_skip and 'C18.4a' not in problems and seen_write:
        problems.setdefault('C18.4a', (fn.node, 'the aggregated table must be produced exactly when interaction_order > 1 (it is produced unconditionally)'))
    good = {'C18.4a': 'aggregated table only for interaction order > 1', 'C18.4b': "constituents = name part before '-' split on ' AND '", 'C18.4c': 'each constituent collects the score of every interaction it takes part in',
            'C18.4d': 'only interaction features contribute', 'C18.4e': 'per constituent: median of the collected scores', 'C18.4f': 'every row of the summary is visited', 'C18.4g': 'the aggregated table is written to feature_singles_aggregated.tsv'}
    for oid, why_ok in good.items():
        if oid in problems:
            pr = problems[oid]
            node = pr[0]
            if len(pr) > 2:
                chk.expect_term(pr[2], pr[3], oid, 'R15', fn.site(node), ast.unparse(node).replace('\n', ' ')[:100], '', pr[1])
            else:
                chk.bad(oid, 'R15' if oid not in ('C18.4a', 'C18.4d') else 'R14', fn.site(node) if not isinstance(node, ast.FunctionDef) else fn.site(), ast.unparse(node).replace('\n', ' ')[:100] if not isinstance(node, ast.FunctionDef) else 'handle_interaction_order', pr[1])
        elif oid in oks or (oid == 'C18.4a' and seen_write and seen_skip):
            chk.ok(oid, 'R15', fn.site(), 'handle_interaction_order', why_ok)


def wiring(repo, chk):
    fn = repo.func(TS, 'outrank_task_result_summary')
    m = fn.module
    a = fn.params[0]
    want = [('generate_final_ranking', ['triplets', f'{a}.label_column']), ('create_final_dataframe', ['final_ranking', f'{a}.heuristic']),
            ('handle_interaction_order', ['final_df', f'{a}.output_folder', f'{a}.heuristic', f'{a}.interaction_order'])]
    for name, args in want:
        cs = [c for c in calls(fn) if m.dotted(c.func) == f'{TS}.{name}']
        ok = len(cs) == 1 and [ast.unparse(x) for x in cs[0].args] == args
        chk.expect(ok, 'C18.5', 'R6', fn.site(cs[0]) if cs else fn.site(), ast.unparse(cs[0]) if cs else name, f'{name} receives its arguments in their roles', f'{name} must be called with ({", ".join(args)})')
    st = repo.func(TS, 'store_summary_files')
    w = [c for c in calls(st, attr='to_csv')]
    ok = len(w) == 1 and isinstance(w[0].func.value, ast.Name) and w[0].func.value.id == st.params[0] and 'feature_singles.tsv' in ast.unparse(st.node)
    chk.expect(ok, 'C18.6', 'origin', st.site(w[0]) if w else st.site(), ast.unparse(w[0]) if w else 'to_csv', 'feature_singles.tsv is the summary frame', 'feature_singles.tsv must be written from the summary frame unmodified')
