"""C10 - interaction features represent joint values faithfully.

 1 (R12) the per-row key that is hashed is an injective encoding of the value tuple: every constituent passes through the same
         self-delimiting part encoder (length prefix / repr), and all members of the combination are encoded
 2 (R8)  the digest is at least 64 bits wide and used in full
 3 (R15) the feature name is join_string.join(combination) with ' AND ' (' AND_REL ' for 3MR relation features)
 4       candidate space = itertools.combinations(non-label columns, order), reduced only by the fair sampler
 5 (R11) original columns untouched: result = concat([input, new], axis=1); constituents read through astype(str)
 6       xxhash is given bytes
"""
from __future__ import annotations

import ast

from ..match import calls, expected_term, returns, term_of
from ..model import own_nodes, parents
from ..terms import show
from .common import CR

EXPLANATION = ('Injective-construction rule (R12): string-part analysis of the key built in combine_features (initial part, loop-accumulated parts, the part encoder), constant obligation (R8) on the digest width, '
               'canonical-term equality (R15) of the feature name, origin of the candidate space, append-only rule (R11) on the returned frame, API fact that xxhash gets bytes. '
               'Decides injectivity of the encoding as a construction, up to hash collisions; not scores.')
TRUSTED_BASE = ['a concatenation of "<decimal length><non-digit separator><value>" parts is uniquely decodable', 'xxh64 / xxh3_64 / xxh128 digests have at least 64 bits',
                'pd.concat([a, b], axis=1) on equal RangeIndex keeps a\'s columns first, unchanged; astype(str) returns a new Series']
ASSUMPTIONS = ['64-bit hash collisions are outside the claim (statement)']

WIDE = {'xxhash.xxh64', 'xxhash.xxh3_64', 'xxhash.xxh128', 'xxhash.xxh3_128', 'xxhash.xxh64_hexdigest', 'xxhash.xxh3_64_hexdigest', 'xxhash.xxh128_hexdigest', 'hashlib.sha256', 'hashlib.sha1', 'hashlib.md5', 'hashlib.blake2b'}
NARROW = {'xxhash.xxh32', 'xxhash.xxh32_hexdigest', 'zlib.crc32', 'zlib.adler32', 'hash'}


def run(repo, chk, tier):
    fn = repo.func(CR, 'compute_combined_features')
    m = fn.module
    frame, args = fn.params[0], fn.params[1]
    row_labels(repo, chk, fn, frame)
    ok = path_model(repo, chk, fn, frame, args)
    if not ok:
        # the per-combination computation could not be written as one expression: fall back to the closure-shaped rules
        inner = {q.split('.')[-1]: f for q, f in m.funcs.items() if q.startswith('compute_combined_features.')}
        comb = next((f for f in inner.values() if any(isinstance(r.value, ast.Tuple) and len(r.value.elts) == 2 for r in returns(f)) and any(isinstance(c, ast.Call) and isinstance(c.func, ast.Attribute) and c.func.attr in ('apply', 'map') for c in ast.walk(f.node))), None)
        if comb is None:
            chk.unsure('C10.1', 'R12', fn.site(), 'combine_features', 'the per-combination computation could not be evaluated as one expression and the function that hashes the joint value was not found')
            return
        key_encoding(repo, chk, fn, comb, inner, frame)
        digest(repo, chk, fn, comb)
        name_and_space(repo, chk, fn, comb, frame, args)
    append_only(repo, chk, fn, frame)
    relabelling(repo, chk, fn, frame)


def row_labels(repo, chk, fn, frame):
    """C10.6 - the interaction columns are attached to the frame by ROW LABEL (pd.concat(.., axis=1) of a frame built from the new columns), so every
    new column must still carry the frame's index: element-wise string operations, .apply / .map keep it; a list comprehension, list(), .tolist(),
    .values, np.array over the joint values drop it, and the new columns then get a fresh 0..n-1 index - on a frame whose index is not 0..n-1 the
    values land on other rows (or add rows).  Decided over compute_combined_features and its closures."""
    m = fn.module
    scopes = [fn] + [f for q, f in m.funcs.items() if q.startswith(fn.qualname + '.')]
    # is the new-columns frame built with an explicit index?
    explicit_index = any(isinstance(c, ast.Call) and (m.dotted(c.func) or '') in ('pandas.DataFrame', 'pandas.Series') and any(k.arg == 'index' for k in c.keywords) for f in scopes for c in ast.walk(f.node))
    positional = any(isinstance(n, ast.Assign) and any(isinstance(t, ast.Subscript) and isinstance(t.value, ast.Name) and t.value.id == frame for t in n.targets) for f in scopes for n in own_nodes(f.node))
    hit = None
    for f in scopes:
        series = set()
        for n in sorted((x for x in own_nodes(f.node) if isinstance(x, ast.Assign)), key=lambda x: (x.lineno, x.col_offset)):
            if isinstance(n, ast.Assign) and len(n.targets) == 1 and isinstance(n.targets[0], ast.Name):
                v = n.value
                reads_series = any(isinstance(x, ast.Name) and x.id in series for x in ast.walk(v))
                from_frame = any(isinstance(x, ast.Subscript) and isinstance(x.value, ast.Name) and x.value.id == frame for x in ast.walk(v)) or \
                    any(isinstance(x, ast.Call) and isinstance(x.func, ast.Name) and (fn.qualname + '.' + x.func.id) in m.funcs for x in ast.walk(v))
                drops = isinstance(v, (ast.ListComp, ast.List)) or (isinstance(v, ast.Call) and ((isinstance(v.func, ast.Name) and v.func.id in ('list', 'tuple')) or (m.dotted(v.func) or '') in ('numpy.array', 'numpy.asarray')
                                                                                                 or (isinstance(v.func, ast.Attribute) and v.func.attr in ('tolist', 'to_numpy', 'to_list')))) or \
                    (isinstance(v, ast.Attribute) and v.attr == 'values')
                if drops and reads_series and n.targets[0].id in series:
                    hit = (f, n)
                elif from_frame or reads_series:
                    series.add(n.targets[0].id)
    if hit is not None and not explicit_index and not positional:
        f, n = hit
        chk.bad('C10.6', 'R6', f.site(n), ast.unparse(n).replace('\n', ' ')[:120], f'`{n.targets[0].id}` held a Series with the frame\'s row labels and is re-bound to a plain list / array: the new columns get a fresh 0..n-1 index and '
                'are attached by row label, so on a frame whose index is not 0..n-1 the interaction values land on other rows (or rows are added) - the joint value no longer belongs to the row it was built from')
    else:
        chk.ok('C10.6', 'R6', fn.site(), 'row labels of the interaction columns', 'the interaction columns keep the row labels of the frame they are attached to')


def relabelling(repo, chk, fn, frame):
    """C10.3b - a combined column is named after the constituents its values were computed from: the labels of the frame of new columns (and of
    the result) are never re-assigned without moving the data.  `F.columns = <re-ordering of F.columns>` renames the columns in place - the hash
    of one combination ends up under the name of another; any other re-labelling of these frames is left inconclusive."""
    m = fn.module
    found = []
    for n in own_nodes(fn.node):
        tgt = None
        if isinstance(n, ast.Assign) and len(n.targets) == 1 and isinstance(n.targets[0], ast.Attribute) and n.targets[0].attr == 'columns':
            tgt, val = n.targets[0].value, n.value
        elif isinstance(n, ast.Call) and isinstance(n.func, ast.Attribute) and n.func.attr in ('set_axis', 'rename', 'rename_axis', 'add_prefix', 'add_suffix', 'set_names'):
            tgt, val = n.func.value, n
        if tgt is None:
            continue
        base = ast.unparse(tgt)
        if isinstance(val, ast.Call) and isinstance(n, ast.Assign):
            d = m.dotted(val.func) or ''
            reorder = (isinstance(val.func, ast.Name) and val.func.id in ('sorted', 'reversed')) or d in ('numpy.sort', 'numpy.flip', 'numpy.roll', 'numpy.random.permutation', 'random.sample')
            reads_own = any(isinstance(x, ast.Attribute) and x.attr == 'columns' and ast.unparse(x.value) == base for x in ast.walk(val))
            if reorder and reads_own:
                found.append((n, 'bad', f'`{ast.unparse(n)[:90]}` assigns a re-ordering of the labels to the same frame: the columns are renamed, the data does not move, so the value computed for one combination is reported under the name of another'))
                continue
            if reads_own and isinstance(val.func, ast.Name) and val.func.id in ('list', 'tuple') and len(val.args) == 1 and ast.unparse(val.args[0]) == f'{base}.columns':
                continue      # the same labels
        found.append((n, 'unsure', f'`{ast.unparse(n)[:90]}` re-labels a frame of compute_combined_features: whether every combined column keeps the name of its constituents is not decided'))
    for n, kind, why in found:
        (chk.bad if kind == 'bad' else chk.unsure)('C10.3b', 'R5', fn.site(n), ast.unparse(n).replace('\n', ' ')[:100], why)
    if not found:
        chk.ok('C10.3b', 'R5', fn.site(), 'no re-labelling of the frames of compute_combined_features', 'a combined column keeps the name under which its values were computed')


def _rep(t, a, b):
    if t == a:
        return b
    if isinstance(t, tuple):
        return tuple(_rep(x, a, b) for x in t)
    return t


def path_model(repo, chk, fn, frame, args):
    """One selected combination, evaluated as a path (closures evaluated, the accumulation over the constituents summarised as a fold):
    new column = HASH applied to the per-row key  ENC(c[0]) + ENC(c[1]) + ...  stored under the name join_string.join(c)."""
    from ..match import run_paths
    from ..terms import pattern, unify, walk_term, alpha_norm
    m = fn.module
    loops = [n for n in fn.node.body if isinstance(n, ast.For)]
    best = None
    for lp in loops:
        paths = run_paths(fn, None, None, max_forks=3, body=lp.body, eval_closures=True)
        if not paths or len(paths) != 1 or paths[0][1].unknown is not None:
            continue
        res = paths[0][1]
        stores = [u for u in res.updates if u['kind'] == 'store1' and isinstance(u['target'], ast.Name)]
        if len(stores) == 1 and any(isinstance(x, ast.Call) and isinstance(x.func, ast.Attribute) and x.func.attr in ('apply', 'map') for x in ast.walk(stores[0]['value'])):
            best = (lp, res, stores[0])
    if best is None:
        return False
    lp, res, st = best
    # the loop variable that is the combination
    cvar_names = [x.id for x in ast.walk(lp.target) if isinstance(x, ast.Name)]
    E = lambda src, bnd=None: expected_term(m, src, bnd or {})
    vt = term_of(fn, st['value'], inline=False)
    kt = term_of(fn, st['key'], inline=True)
    site = fn.site(st['node'])
    # which loop variable is the combination: the one the name is joined from
    comb = next((n for n in cvar_names if any(x == ('name', n) for x in walk_term(kt))), cvar_names[-1])
    C = ('name', comb)
    # ---- 1c a memoising encoder must not be extended in place
    if res.memo_calls and res.inplace_folds:
        acc, loop_node = res.inplace_folds[0]
        chk.bad('C10.1c', 'R11', fn.site(loop_node), ast.unparse(loop_node).replace('\n', ' ')[:140], f'the key starts as the object returned by the memoising encoder `{res.memo_calls[0][0].split(".")[-1]}` (a cached Series shared between combinations, kept in `{res.memo_calls[0][1]}`) and is then extended in place with `+=`: the cached encoding of the first constituent accumulates the other constituents, so later combinations that start with the same feature encode extra columns and rows that agree on the named constituents get different values')
    # ---- 3 name
    flag = fn.params[3] if len(fn.params) > 3 else 'is_3mr'
    want_name = [E(f"(' AND_REL ' if {flag} else ' AND ').join({comb})")]
    bj = unify(pattern(m, 'J.join(X)', ['J', 'X']), kt)
    if bj is not None and bj['X'] != C and any(x == C for x in walk_term(bj['X'])) and bj['J'] == E(f"' AND_REL ' if {flag} else ' AND '"):
        chk.bad('C10.3', 'R15', site, ast.unparse(st['key'])[:120], f'the name lists the constituents as {show(bj["X"])[:60]}, not in the order in which their values are concatenated (candidate order): the name no longer says which value belongs to which constituent')
    else:
        chk.expect_term(kt, want_name, 'C10.3', 'R15', site, ast.unparse(st['key'])[:120], "name = ' AND '.join(constituents) (' AND_REL ' for 3MR relations), in candidate order",
                    "the feature name must be join_string.join(new_combination) with join_string = ' AND_REL ' if is_3mr else ' AND '")
    # ---- value = K.apply(H) / K.map(H)
    b_ = None
    for src in ('K.apply(H)', 'K.map(H)'):
        b_ = unify(pattern(m, src, ['K', 'H']), vt)
        if b_ is not None:
            break
    if b_ is None:
        chk.unsure('C10.1', 'R12', site, ast.unparse(st['value'])[:160], 'the stored column is not recognised as <per-row key>.apply(<hash>)')
        return True
    K, H = b_['K'], b_['H']
    # ---- key: all constituents, each through the same encoder
    first = rest_gen = None
    all_gen = None
    if K[0] in ('+', 'concat') and len(K[1]) >= 2:
        folds = [x for x in K[1] if x[:2] == ('call', ('name', '__fold_add__'))]
        others = [x for x in K[1] if x not in folds]
        if len(folds) == 1 and folds[0][2] and folds[0][2][0][0] == 'genexp':
            rest_gen = folds[0][2][0]
            first = others[0] if len(others) == 1 else (K[0], tuple(others))
    bb = unify(pattern(m, 'functools.reduce(operator.add, G)', ['G']), K)
    if bb is not None and bb['G'][0] in ('genexp', 'listcomp'):
        all_gen = bb['G']
    if K[:2] == ('call', ('name', '__fold_add__')) and K[2] and K[2][0][0] == 'genexp':
        all_gen = K[2][0]
    # parts = [ENC(f) for f in c]; key = parts[0] + fold(parts[1:])   is the fold over all parts
    if rest_gen is not None and len(rest_gen[2]) == 1 and not rest_gen[2][0][1] and rest_gen[1][:1] == ('cvar',):
        src = rest_gen[2][0][0]
        if src[0] == 'sub' and src[2] == ('slice', ('num', 1), ('none',), ('none',)) and src[1][0] in ('listcomp', 'genexp') and first == ('sub', src[1], ('num', 0)):
            all_gen, rest_gen = src[1], None
    gen = all_gen or rest_gen
    if gen is None or len(gen[2]) != 1 or gen[2][0][1]:
        raw = any(x == E(f'{frame}[{comb}[0]].astype(str)') for x in walk_term(K)) and not any(isinstance(x, tuple) and x[:1] == ('attr',) and x[2] == 'len' for x in walk_term(K))
        if raw:
            chk.bad('C10.1a', 'R12', site, ast.unparse(st['value'])[:160], "a constituent enters the hashed key as raw string value, no delimiter: different value tuples such as ('1', '11') and ('11', '1') yield the same string, hence the same interaction value")
        else:
            chk.unsure('C10.1', 'R12', site, ast.unparse(st['value'])[:160], 'the per-row key is not recognised as the concatenation of one encoded part per constituent')
        return True
    elt, (it, _ifs) = gen[1], gen[2][0]
    cv = next((x for x in walk_term(elt) if isinstance(x, tuple) and len(x) == 3 and x[0] == 'cvar'), ('cvar', 0, 0))
    P = ('role', 'feature')
    from ..terms import Canon as _Canon
    _cn = _Canon(m, None, inline=False)

    def series_add(t):
        # Series.add(x) is `+` (element-wise concatenation of string columns)
        if isinstance(t, tuple):
            t = tuple(series_add(x) for x in t)
            if t[:1] == ('call',) and isinstance(t[1], tuple) and t[1][:1] == ('attr',) and t[1][2] in ('add', '__add__') and len(t[2]) == 1 and not t[3]:
                return _cn._add([t[1][1], t[2][0]])
        return t
    enc = alpha_norm(series_add(_rep(elt, cv, P)))
    val = ('call', ('attr', ('sub', ('name', frame), P), 'astype'), (('name', 'str'),), ())
    X = lambda src: expected_term(m, src, {'V': val, 'F': ('name', frame), 'feature': P})
    self_delimiting = []
    for sep in (':', '|', '#', ';', ',', ' ', '/', '\x1f', '_', '-'):
        self_delimiting += [X(f"V.str.len().astype(str) + {sep!r} + V"), X(f"V.map(len).astype(str) + {sep!r} + V"), X(f"V.apply(len).astype(str) + {sep!r} + V")]
    self_delimiting += [X('V.map(repr)'), X('V.apply(repr)'), X('F[feature].map(repr)')]
    no_terminator = [X('V.str.len().astype(str) + V'), X('V.map(len).astype(str) + V')]
    raw_forms = [val, X('F[feature]')]
    sep_forms = []
    for sep in (':', '|', '#', ';', ',', ' ', '/', '_', '-', ' AND '):
        sep_forms += [X(f'{sep!r} + V'), X(f'V + {sep!r}')]
    shown = show(enc)[:160]
    if enc in self_delimiting:
        chk.ok('C10.1a', 'R12', site, shown, 'every constituent is encoded by the same self-delimiting encoder; the concatenation is uniquely decodable')
    elif enc in raw_forms or enc in no_terminator:
        chk.bad('C10.1a', 'R12', site, shown, "a constituent enters the hashed key as raw string value (or with a length prefix without a non-digit terminator): different value tuples such as ('1', '11') and ('11', '1') yield the same string, hence the same interaction value (every constituent must pass through the self-delimiting part encoder)")
    elif enc in sep_forms:
        chk.bad('C10.1a', 'R12', site, shown, 'a constituent enters the hashed key with a constant separator without escaping: different value tuples such as (s + sep, t) and (s, sep + t) yield the same string, hence the same interaction value')
    else:
        chk.expect_term(enc, self_delimiting, 'C10.1a', 'R12', site, shown, '', f'cannot establish that this part of the key is self-delimiting: {shown}')
    # the first constituent passes through the same encoder
    itC = _rep(it, C, ('role', 'comb'))
    if all_gen is not None:
        chk.expect(itC == ('role', 'comb'), 'C10.1b', 'R13', site, show(it)[:80], 'every member of the combination contributes to the key',
                   f'the key must be built from every element of the combination (all constituents the name mentions): it ranges over {show(it)[:80]}')
    else:
        want_first = alpha_norm(_rep(enc, P, ('sub', C, ('num', 0))))
        rest_ok = it == ('sub', C, ('slice', ('num', 1), ('none',), ('none',)))
        if first != want_first and rest_ok:
            fraw = first in (E(f'{frame}[{comb}[0]].astype(str)'), E(f'{frame}[{comb}[0]]'))
            if fraw:
                chk.bad('C10.1a', 'R12', site, show(first)[:140], "the first constituent enters the hashed key as raw string value, no delimiter: different value tuples such as ('1', '11') and ('11', '1') yield the same string (every constituent, including the first, must pass through the self-delimiting part encoder)")
            else:
                chk.expect_term(first, [want_first], 'C10.1b', 'R13', site, show(first)[:140], '', 'the first constituent is not encoded like the others')
        else:
            chk.expect(first == want_first and rest_ok, 'C10.1b', 'R13', site, f'first: {show(first)[:60]}; rest over {show(it)[:60]}', 'every member of the combination contributes to the key',
                       'the key must be built from combination[0] and every element of combination[1:] (all constituents the name mentions): with another range some constituents are left out and rows that differ only there alias')
    # ---- 2 / 6 digest
    hfun = H
    if H[0] in ('name', 'lib'):
        # a named function applied to every row: evaluate it
        target = repo.find_func(H[1]) if H[0] == 'lib' else m.funcs.get(fn.qualname + '.' + H[1]) or m.funcs.get(H[1])
        if target is not None and len(returns(target)) == 1 and len(target.params) == 1:
            hfun = ('lambda', 1, _rep(term_of(target, returns(target)[0].value, {target.params[0]: ('param', 0)}, inline=True), ('name', target.params[0]), ('param', 0)))
    if hfun[0] != 'lambda' or hfun[1] != 1:
        chk.unsure('C10.2a', 'R8', site, show(H)[:100], 'the function applied to the per-row key is not recognised')
        return True
    body = hfun[2]
    hc = [x for x in walk_term(body) if isinstance(x, tuple) and x[:1] == ('call',) and x[1][0] == 'lib' and (x[1][1].startswith('xxhash.') or x[1][1].startswith('hashlib.') or x[1][1].startswith('zlib.'))]
    hc += [x for x in walk_term(body) if isinstance(x, tuple) and x[:2] == ('call', ('name', 'hash'))]
    chk.analysed['digest_constructions'] = len(hc)
    if len(hc) != 1:
        chk.unsure('C10.2a', 'R8', site, show(body)[:120], f'{len(hc)} digest constructions in the row function (expected one)')
        return True
    d = hc[0][1][1] if hc[0][1][0] == 'lib' else 'hash'
    chk.expect(d in WIDE, 'C10.2a', 'R8', site, show(hc[0])[:100], 'digest has at least 64 bits', f'{d} has fewer than 64 bits: distinct value tuples collide far more often than the statement allows')
    a0 = hc[0][2][0] if hc[0][2] else None
    enc_ok = a0 is not None and a0[0] == 'call' and a0[1][0] == 'attr' and a0[1][2] == 'encode' and a0[1][1] == ('param', 0)
    chk.expect(enc_ok, 'C10.6', 'API', site, show(hc[0])[:100], 'the key is encoded to bytes before hashing', 'xxhash >= 4 raises TypeError on str input (or the bytes hashed are not those of the key): interaction features cannot be built')
    full_forms = [('call', ('attr', hc[0], 'hexdigest'), (), ()), ('call', ('attr', hc[0], 'intdigest'), (), ()), ('call', ('attr', hc[0], 'digest'), (), ())]
    if d.endswith('digest'):
        full_forms.append(hc[0])
    chk.expect(body in full_forms, 'C10.2b', 'R8', site, show(body)[:120], 'the whole digest is the feature value', 'the digest is truncated / post-processed: fewer than 64 bits distinguish the value tuples')
    # ---- 4 candidate space and one column per selected combination
    space_rules(repo, chk, fn, frame, args, lp, res, st)
    return True


def space_rules(repo, chk, fn, frame, args, lp, res, st):
    m = fn.module
    E = lambda s_: expected_term(m, s_)
    flag = fn.params[3] if len(fn.params) > 3 else 'is_3mr'
    cs = [x for x in calls(fn) if (m.dotted(x.func) or '').startswith('itertools.')]
    ok_space = False
    if len(cs) == 1 and m.dotted(cs[0].func) == 'itertools.combinations' and len(cs[0].args) == 2:
        cols = term_of(fn, cs[0].args[0], inline=True)
        order = term_of(fn, cs[0].args[1], inline=True)
        ok_cols = cols in (E(f'[x for x in {frame}.columns if x != {args}.label_column]'), E(f'[x for x in {frame} if x != {args}.label_column]'))
        ok_ord = order == E(f'2 if {flag} else {args}.interaction_order')
        ok_space = ok_cols and ok_ord
    chk.expect(ok_space, 'C10.4a', 'R15', fn.site(cs[0]) if cs else fn.site(), ast.unparse(cs[0]) if cs else 'itertools.combinations(...)', 'candidates = k-subsets of the non-label columns (k = interaction order; 2 for 3MR relations)',
               'the candidate space must be itertools.combinations(non-label columns, interaction_order)', soft=True)
    samp = [x for x in calls(fn) if m.dotted(x.func) == f'{CR}.prior_combinations_sample']
    base_it = lp.iter.args[0] if isinstance(lp.iter, ast.Call) and isinstance(lp.iter.func, ast.Name) and lp.iter.func.id == 'enumerate' and lp.iter.args else lp.iter
    spdef = [n for n in own_nodes(fn.node) if isinstance(n, ast.Assign) and isinstance(n.targets[0], ast.Name) and samp and n.value is samp[0]]
    unconditional = not any(isinstance(x, (ast.If, ast.Continue, ast.Break)) for x in ast.walk(lp))
    ok_loop = bool(spdef) and isinstance(base_it, ast.Name) and base_it.id == spdef[0].targets[0].id and unconditional
    chk.expect(ok_loop, 'C10.4b', 'R13', fn.site(lp), ast.unparse(lp.iter), 'one new column per selected combination, stored under its name', 'each selected combination must yield exactly one column stored under its own name', soft=not unconditional is False and not spdef)
    chk.expect(len(samp) == 1 and bool(spdef) and isinstance(samp[0].args[0], ast.Name), 'C10.4c', 'R6', fn.site(samp[0]) if samp else fn.site(), ast.unparse(samp[0]).replace('\n', ' ')[:120] if samp else '', 'the candidate list is reduced only by the fair sampler',
               'the candidate list must be passed through prior_combinations_sample (and nothing else drops candidates)', soft=True)


CACHED = {}


def _part_encoder_ok(enc, frame):
    """length_prefixed(feature): values = frame[feature].astype(str); return values.str.len().astype(str) + SEP + values"""
    m = enc.module
    p = enc.params[0]
    rets = returns(enc)
    if len(rets) != 1:
        return False, 'encoder has no single return'
    rv = rets[0].value
    CACHED[enc.qualname] = False
    if isinstance(rv, ast.Subscript) and isinstance(rv.value, ast.Name):
        # memoised encoder: CACHE[feature] = <expr>; return CACHE[feature]
        stores = [n for n in own_nodes(enc.node) if isinstance(n, ast.Assign) and isinstance(n.targets[0], ast.Subscript) and ast.unparse(n.targets[0]) == ast.unparse(rv)]
        if len(stores) == 1:
            CACHED[enc.qualname] = True
            rv = stores[0].value
    t = term_of(enc, rv, inline=True)
    E = lambda s: expected_term(m, s)
    val = f"{frame}[{p}].astype(str)"
    for sep in (':', '|', '#', ';', ',', ' ', '/', '\x1f', '_', '-'):
        forms = [E(f"{val}.str.len().astype(str) + {sep!r} + {val}"), E(f"{val}.map(len).astype(str) + {sep!r} + {val}"), E(f"{val}.apply(len).astype(str) + {sep!r} + {val}")]
        if t in forms:
            return True, f'length prefix with separator {sep!r}'
    if t in (E(f'{val}.map(repr)'), E(f'{val}.apply(repr)'), E(f'{frame}[{p}].map(repr)')):
        return True, 'repr of each value'
    if t in (E(f"{val}.str.len().astype(str) + {val}"), E(f"{val}.map(len).astype(str) + {val}")):
        return None, 'a length prefix without a non-digit terminator (a value that starts with digits makes the prefix ambiguous)'
    return False, f'not a recognised self-delimiting encoding: {show(t)[:140]}'


def key_encoding(repo, chk, fn, comb, inner, frame):
    m = fn.module
    c = comb.params[0]
    par = parents(comb.node)
    # the accumulated key variable: the one whose .apply(...) feeds the hash
    applies = [n for n in own_nodes(comb.node) if isinstance(n, ast.Call) and isinstance(n.func, ast.Attribute) and n.func.attr in ('apply', 'map') and isinstance(n.func.value, ast.Name)]
    if not applies:
        chk.unsure('C10.1', 'R12', comb.site(), 'key.apply(hash)', 'cannot find the hashed key variable')
        return
    key = applies[0].func.value.id
    parts = []   # (kind, expr, node)
    for n in own_nodes(comb.node):
        if isinstance(n, ast.Assign) and len(n.targets) == 1 and isinstance(n.targets[0], ast.Name) and n.targets[0].id == key and n.value is not applies[0] and not any(x is applies[0] for x in ast.walk(n.value)):
            parts.append(('init', n.value, n))
        if isinstance(n, ast.AugAssign) and isinstance(n.target, ast.Name) and n.target.id == key and isinstance(n.op, ast.Add):
            parts.append(('add', n.value, n))
        if isinstance(n, ast.Assign) and isinstance(n.targets[0], ast.Name) and n.targets[0].id == key and isinstance(n.value, ast.BinOp) and isinstance(n.value.op, ast.Add) and isinstance(n.value.left, ast.Name) and n.value.left.id == key:
            parts.append(('add', n.value.right, n))
    parts = [p for p in parts if not (p[0] == 'init' and isinstance(p[1], ast.BinOp) and isinstance(p[1].left, ast.Name) and p[1].left.id == key)]
    inits = [p for p in parts if p[0] == 'init']
    adds = [p for p in parts if p[0] == 'add']
    if len(inits) != 1 or not adds:
        chk.unsure('C10.1', 'R12', comb.site(), f'{key} = part(c[0]); for f in c[1:]: {key} += part(f)', f'unrecognised construction of the hashed key ({len(inits)} initialisations, {len(adds)} additions)')
        return

    def classify(e, elem_txt):
        """encoder applied to which element?"""
        if isinstance(e, ast.Call) and isinstance(e.func, ast.Name) and e.func.id in inner and len(e.args) == 1:
            ok, how = _part_encoder_ok(inner[e.func.id], frame)
            if ok is None:
                return ('raw', ast.unparse(e.args[0]), how)
            return ('enc' if ok else 'badenc', ast.unparse(e.args[0]), how)
        t = ast.unparse(e)
        if t.endswith('.astype(str)') and t.startswith(f'{frame}['):
            return ('raw', t[len(frame) + 1:-len('].astype(str)')], 'raw string value, no delimiter')
        if isinstance(e, ast.BinOp) and isinstance(e.op, ast.Add):
            # separator literal + raw value
            l, r = e.left, e.right
            if isinstance(l, ast.Constant) and isinstance(l.value, str):
                sub = classify(r, elem_txt)
                if sub[0] == 'raw':
                    return ('sep', sub[1], f'constant separator {l.value!r} without escaping')
        return ('unknown', t, 'unrecognised part')
    kind0, elem0, how0 = classify(inits[0][1], None)
    e0 = inits[0][1]
    if isinstance(e0, ast.Call) and isinstance(e0.func, ast.Name) and e0.func.id in inner and CACHED.get(inner[e0.func.id].qualname) and any(isinstance(a[2], ast.AugAssign) for a in adds):
        chk.bad('C10.1c', 'R11', comb.site(adds[0][2]), f'{ast.unparse(inits[0][2])} ... {ast.unparse(adds[0][2])}', f'the key starts as the object returned by the memoising encoder `{e0.func.id}` (a cached Series shared between combinations) and is then extended in place with `+=`: the cached encoding of the first constituent accumulates the other constituents, so later combinations that start with the same feature encode extra columns and rows that agree on the named constituents get different values')
    loop = None
    results = [(kind0, elem0, how0, inits[0][2])]
    for _, e, node in adds:
        results.append(classify(e, None) + (node,))
        lp = par.get(node)
        while lp is not None and not isinstance(lp, ast.For):
            lp = par.get(lp)
        loop = loop or lp
    kinds = {r[0] for r in results}
    if 'raw' in kinds or 'sep' in kinds:
        bad = next(r for r in results if r[0] in ('raw', 'sep'))
        wit = "('1', '11') and ('11', '1')" if bad[0] == 'raw' else "(s + sep, t) and (s, sep + t)"
        chk.bad('C10.1a', 'R12', comb.site(bad[3]), ast.unparse(bad[3])[:120], f'a constituent enters the hashed key as {bad[2]}: different value tuples such as {wit} yield the same string, hence the same interaction value (every constituent, including the first, must pass through the self-delimiting part encoder)')
    elif 'badenc' in kinds or 'unknown' in kinds:
        bad = next(r for r in results if r[0] in ('badenc', 'unknown'))
        chk.unsure('C10.1a', 'R12', comb.site(bad[3]), ast.unparse(bad[3])[:120], f'cannot establish that this part of the key is self-delimiting: {bad[2]}')
    else:
        chk.ok('C10.1a', 'R12', comb.site(inits[0][2]), '; '.join(ast.unparse(r[3])[:60] for r in results), f'every constituent is encoded by the same self-delimiting encoder ({how0}); the concatenation is uniquely decodable')
    # coverage of the combination: first element + loop over the rest
    ok_first = elem0 == f'{c}[0]'
    ok_rest = isinstance(loop, ast.For) and ast.unparse(loop.iter) == f'{c}[1:]' and isinstance(loop.target, ast.Name) and all(r[1] == loop.target.id for r in results[1:])
    alt_all = isinstance(loop, ast.For) and ast.unparse(loop.iter) == c
    chk.expect((ok_first and ok_rest) or alt_all, 'C10.1b', 'R13', comb.site(loop) if loop is not None else comb.site(), f'first: {elem0}; loop: {ast.unparse(loop.iter) if isinstance(loop, ast.For) else None}',
               'every member of the combination contributes to the key', f'the key must be built from {c}[0] and every element of {c}[1:] (all constituents the name mentions): with another range some constituents are left out and rows that differ only there alias')


def digest(repo, chk, fn, comb):
    m = fn.module
    hs = [(comb, c) for c in calls(comb) if (m.dotted(c.func) or '') in WIDE | NARROW or (m.dotted(c.func) or '').startswith('xxhash.')]
    # digest helpers passed by reference: key.apply(internal_hash)
    for c in calls(comb, attr=('apply', 'map')):
        for a in c.args:
            if isinstance(a, (ast.Name, ast.Attribute)):
                tgt = repo.find_func(m.dotted(a) or '')
                if tgt is not None:
                    hs += [(tgt, x) for x in calls(tgt) if (tgt.module.dotted(x.func) or '') in WIDE | NARROW or (tgt.module.dotted(x.func) or '').startswith('xxhash.')]
    for owner, c in hs:
        m = owner.module
        par = parents(owner.node)
        comb_site = owner
        d = m.dotted(c.func)
        chk.expect(d in WIDE, 'C10.2a', 'R8', comb_site.site(c), ast.unparse(c)[:80], 'digest has at least 64 bits', f'{d} has fewer than 64 bits: distinct value tuples collide far more often than the statement allows')
        a0 = c.args[0] if c.args else None
        enc = (isinstance(a0, ast.Call) and isinstance(a0.func, ast.Attribute) and a0.func.attr == 'encode') or (owner is not comb and '.encode(' in ast.unparse(owner.node))
        chk.expect(enc, 'C10.6', 'API', comb_site.site(c), ast.unparse(c)[:80], 'the key is encoded to bytes before hashing', 'xxhash >= 4 raises TypeError on str input: interaction features cannot be built')
        # digest used in full
        p = par.get(c)
        full = isinstance(p, ast.Attribute) and p.attr in ('hexdigest', 'intdigest', 'digest') and isinstance(par.get(p), ast.Call) and not isinstance(par.get(par.get(p)), ast.Subscript)
        chk.expect(full, 'C10.2b', 'R8', comb_site.site(c), ast.unparse(par.get(par.get(p)) if isinstance(p, ast.Attribute) and par.get(par.get(p)) is not None and not isinstance(par.get(par.get(p)), ast.stmt) else c)[:100], 'the whole digest is the feature value', 'the digest is truncated / post-processed: fewer than 64 bits distinguish the value tuples')
    chk.require_count('digest constructions in combine_features', len(hs), 1)


def name_and_space(repo, chk, fn, comb, frame, args):
    m = fn.module
    E = lambda s: expected_term(m, s)
    c = comb.params[0]
    rets = returns(comb)
    flag = fn.params[3] if len(fn.params) > 3 else 'is_3mr'
    if len(rets) == 1 and isinstance(rets[0].value, ast.Tuple) and len(rets[0].value.elts) == 2:
        nt = term_of(comb, rets[0].value.elts[0], inline=True)
        jname = nt[1][1][1] if nt[0] == 'call' and nt[1][0] == 'attr' and nt[1][2] == 'join' and nt[1][1][0] == 'name' else None
        js = [n for n in own_nodes(fn.node) if isinstance(n, ast.Assign) and isinstance(n.targets[0], ast.Name) and n.targets[0].id == jname]
        jt = term_of(fn, js[0].value, inline=False) if js else None
        ok_js = jt == E(f"' AND_REL ' if {flag} else ' AND '")
        ok_name = jname is not None and nt == ('call', ('attr', ('name', jname), 'join'), (('name', c),), ())
        chk.expect(ok_js and ok_name, 'C10.3', 'R15', comb.site(rets[0]), f'{ast.unparse(rets[0].value.elts[0])}; join_string = {ast.unparse(js[0].value) if js else None}', "name = ' AND '.join(constituents) (' AND_REL ' for 3MR relations), in candidate order",
                   "the feature name must be join_string.join(new_combination) with join_string = ' AND_REL ' if is_3mr else ' AND '")
    else:
        chk.unsure('C10.3', 'R15', comb.site(), 'return name, values', 'unexpected return of combine_features')
    # candidate space
    cs = [x for x in calls(fn) if (m.dotted(x.func) or '').startswith('itertools.')]
    ok_space = False
    if len(cs) == 1 and m.dotted(cs[0].func) == 'itertools.combinations' and len(cs[0].args) == 2:
        cols = term_of(fn, cs[0].args[0], inline=True)
        order = term_of(fn, cs[0].args[1], inline=True)
        ok_cols = cols in (E(f'[x for x in {frame}.columns if x != {args}.label_column]'), E(f'[x for x in {frame} if x != {args}.label_column]'))
        ok_ord = order == E(f'2 if {flag} else {args}.interaction_order')
        ok_space = ok_cols and ok_ord
    chk.expect(ok_space, 'C10.4a', 'R15', fn.site(cs[0]) if cs else fn.site(), ast.unparse(cs[0]) if cs else 'itertools.combinations(...)', 'candidates = k-subsets of the non-label columns (k = interaction order; 2 for 3MR relations)',
               'the candidate space must be itertools.combinations(non-label columns, interaction_order)')
    # every (sampled) candidate yields a column: loop over the space, dict[name] = values
    loops = [n for n in own_nodes(fn.node) if isinstance(n, ast.For) and any(isinstance(x, ast.Call) and isinstance(x.func, ast.Name) and x.func.id == comb.name for x in ast.walk(n))]
    ok_loop = False
    if len(loops) == 1:
        lp = loops[0]
        it = ast.unparse(lp.iter)
        samp0 = [x for x in calls(fn) if m.dotted(x.func) == f'{CR}.prior_combinations_sample']
        space = ast.unparse(samp0[0].args[0]) if samp0 and samp0[0].args else 'full_combination_space'
        base_it = lp.iter.args[0] if isinstance(lp.iter, ast.Call) and isinstance(lp.iter.func, ast.Name) and lp.iter.func.id == 'enumerate' and lp.iter.args else lp.iter
        ok_it = ast.unparse(base_it) == space
        st = [s for s in ast.walk(lp) if isinstance(s, ast.Assign) and isinstance(s.targets[0], ast.Subscript)]
        unp = [s for s in ast.walk(lp) if isinstance(s, ast.Assign) and isinstance(s.targets[0], ast.Tuple) and isinstance(s.value, ast.Call) and isinstance(s.value.func, ast.Name) and s.value.func.id == comb.name]
        if ok_it and len(st) == 1 and len(unp) == 1:
            nm, vals = [e.id for e in unp[0].targets[0].elts]
            ok_loop = ast.unparse(st[0].targets[0].slice) == nm and ast.unparse(st[0].value) == vals and not any(isinstance(x, (ast.If, ast.Continue, ast.Break)) for x in ast.walk(lp))
    chk.expect(ok_loop, 'C10.4b', 'R13', fn.site(loops[0]) if loops else fn.site(), ast.unparse(loops[0].iter) if loops else 'for combination in full_combination_space', 'one new column per selected combination, stored under its name', 'each selected combination must yield exactly one column stored under its own name')
    samp = [x for x in calls(fn) if m.dotted(x.func) == f'{CR}.prior_combinations_sample']
    spdef = [n for n in own_nodes(fn.node) if isinstance(n, ast.Assign) and isinstance(n.targets[0], ast.Name) and samp and n.value is samp[0]]
    chk.expect(len(samp) == 1 and bool(spdef) and ast.unparse(samp[0].args[0]) == spdef[0].targets[0].id and any(isinstance(n, ast.Assign) and isinstance(n.targets[0], ast.Name) and n.targets[0].id == spdef[0].targets[0].id and cs and any(x is cs[0] for x in ast.walk(n.value)) for n in own_nodes(fn.node)), 'C10.4c', 'R6', fn.site(samp[0]) if samp else fn.site(), ast.unparse(samp[0]).replace('\n', ' ')[:120] if samp else '', 'the candidate list is reduced only by the fair sampler', 'the candidate list must be passed through prior_combinations_sample (and nothing else drops candidates)')


def append_only(repo, chk, fn, frame):
    from .c11 import append_only_rule
    append_only_rule(repo, chk, fn, frame, 'C10.5')
