"""C10 - interaction features represent joint values faithfully.

 1 (R12) the per-row key that is hashed is an injective encoding of the value tuple: every constituent passes through the same
         self-delimiting part encoder (length prefix / repr), and all members of the combination are encoded
 2 (R8)  the digest is at least 64 bits wide and used in full
 3 (R15) the feature name is join_string.join(combination) with ' AND ' (' AND_REL ' for 3MR relation features)
 4       candidate space = itertools.combinations(non-label columns, order), reduced only by the fair sampler
 5 (R11) original columns untouched: result = concat([input, new], axis=1); constituents read through astype(str)
 6       xxhash is given bytes
"""
from __future__ import annotations

import ast

from ..match import calls, expected_term, returns, term_of
from ..model import own_nodes, parents
from ..terms import show
from .common import CR

EXPLANATION = ('Injective-construction rule (R12): string-part analysis of the key built in combine_features (initial part, loop-accumulated parts, the part encoder), constant obligation (R8) on the digest width, '
               'canonical-term equality (R15) of the feature name, origin of the candidate space, append-only rule (R11) on the returned frame, API fact that xxhash gets bytes. '
               'Decides injectivity of the encoding as a construction, up to hash collisions; not scores.')
TRUSTED_BASE = ['a concatenation of "<decimal length><non-digit separator><value>" parts is uniquely decodable', 'xxh64 / xxh3_64 / xxh128 digests have at least 64 bits',
                'pd.concat([a, b], axis=1) on equal RangeIndex keeps a\'s columns first, unchanged; astype(str) returns a new Series']
ASSUMPTIONS = ['64-bit hash collisions are outside the claim (statement)']

WIDE = {'xxhash.xxh64', 'xxhash.xxh3_64', 'xxhash.xxh128', 'xxhash.xxh3_128', 'xxhash.xxh64_hexdigest', 'xxhash.xxh3_64_hexdigest', 'xxhash.xxh128_hexdigest', 'hashlib.sha256', 'hashlib.sha1', 'hashlib.md5', 'hashlib.blake2b'}
NARROW = {'xxhash.xxh32', 'xxhash.xxh32_hexdigest', 'zlib.crc32', 'zlib.adler32', 'hash'}


def run(repo, chk, tier):
    fn = repo.func(CR, 'compute_combined_features')
    m = fn.module
    frame, args = fn.params[0], fn.params[1]
    inner = {q.split('.')[-1]: f for q, f in m.funcs.items() if q.startswith('compute_combined_features.')}
    comb = next((f for f in inner.values() if any(isinstance(r.value, ast.Tuple) and len(r.value.elts) == 2 for r in returns(f)) and any(isinstance(c, ast.Call) and isinstance(c.func, ast.Attribute) and c.func.attr in ('apply', 'map') for c in ast.walk(f.node))), None)
    if comb is None:
        chk.unsure('C10.1', 'R12', fn.site(), 'combine_features', 'the function that hashes the joint value was not found')
        return
    key_encoding(repo, chk, fn, comb, inner, frame)
    digest(repo, chk, fn, comb)
    name_and_space(repo, chk, fn, comb, frame, args)
    append_only(repo, chk, fn, frame)


CACHED = {}


def _part_encoder_ok(enc, frame):
    """length_prefixed(feature): values = frame[feature].astype(str); return values.str.len().astype(str) + SEP + values"""
    m = enc.module
    p = enc.params[0]
    rets = returns(enc)
    if len(rets) != 1:
        return False, 'encoder has no single return'
    rv = rets[0].value
    CACHED[enc.qualname] = False
    if isinstance(rv, ast.Subscript) and isinstance(rv.value, ast.Name):
        # memoised encoder: CACHE[feature] = <expr>; return CACHE[feature]
        stores = [n for n in own_nodes(enc.node) if isinstance(n, ast.Assign) and isinstance(n.targets[0], ast.Subscript) and ast.unparse(n.targets[0]) == ast.unparse(rv)]
        if len(stores) == 1:
            CACHED[enc.qualname] = True
            rv = stores[0].value
    t = term_of(enc, rv, inline=True)
    E = lambda s: expected_term(m, s)
    val = f"{frame}[{p}].astype(str)"
    for sep in (':', '|', '#', ';', ',', ' ', '/', '\x1f', '_', '-'):
        forms = [E(f"{val}.str.len().astype(str) + {sep!r} + {val}"), E(f"{val}.map(len).astype(str) + {sep!r} + {val}"), E(f"{val}.apply(len).astype(str) + {sep!r} + {val}")]
        if t in forms:
            return True, f'length prefix with separator {sep!r}'
    if t in (E(f'{val}.map(repr)'), E(f'{val}.apply(repr)'), E(f'{frame}[{p}].map(repr)')):
        return True, 'repr of each value'
    if t in (E(f"{val}.str.len().astype(str) + {val}"), E(f"{val}.map(len).astype(str) + {val}")):
        return None, 'a length prefix without a non-digit terminator (a value that starts with digits makes the prefix ambiguous)'
    return False, f'not a recognised self-delimiting encoding: {show(t)[:140]}'


def key_encoding(repo, chk, fn, comb, inner, frame):
    m = fn.module
    c = comb.params[0]
    par = parents(comb.node)
    # the accumulated key variable: the one whose .apply(...) feeds the hash
    applies = [n for n in own_nodes(comb.node) if isinstance(n, ast.Call) and isinstance(n.func, ast.Attribute) and n.func.attr in ('apply', 'map') and isinstance(n.func.value, ast.Name)]
    if not applies:
        chk.unsure('C10.1', 'R12', comb.site(), 'key.apply(hash)', 'cannot find the hashed key variable')
        return
    key = applies[0].func.value.id
    parts = []   # (kind, expr, node)
    for n in own_nodes(comb.node):
        if isinstance(n, ast.Assign) and len(n.targets) == 1 and isinstance(n.targets[0], ast.Name) and n.targets[0].id == key and n.value is not applies[0] and not any(x is applies[0] for x in ast.walk(n.value)):
            parts.append(('init', n.value, n))
        if isinstance(n, ast.AugAssign) and isinstance(n.target, ast.Name) and n.target.id == key and isinstance(n.op, ast.Add):
            parts.append(('add', n.value, n))
        if isinstance(n, ast.Assign) and isinstance(n.targets[0], ast.Name) and n.targets[0].id == key and isinstance(n.value, ast.BinOp) and isinstance(n.value.op, ast.Add) and isinstance(n.value.left, ast.Name) and n.value.left.id == key:
            parts.append(('add', n.value.right, n))
    parts = [p for p in parts if not (p[0] == 'init' and isinstance(p[1], ast.BinOp) and isinstance(p[1].left, ast.Name) and p[1].left.id == key)]
    inits = [p for p in parts if p[0] == 'init']
    adds = [p for p in parts if p[0] == 'add']
    if len(inits) != 1 or not adds:
        chk.unsure('C10.1', 'R12', comb.site(), f'{key} = part(c[0]); for f in c[1:]: {key} += part(f)', f'unrecognised construction of the hashed key ({len(inits)} initialisations, {len(adds)} additions)')
        return

    def classify(e, elem_txt):
        """encoder applied to which element?"""
        if isinstance(e, ast.Call) and isinstance(e.func, ast.Name) and e.func.id in inner and len(e.args) == 1:
            ok, how = _part_encoder_ok(inner[e.func.id], frame)
            if ok is None:
                return ('raw', ast.unparse(e.args[0]), how)
            return ('enc' if ok else 'badenc', ast.unparse(e.args[0]), how)
        t = ast.unparse(e)
        if t.endswith('.astype(str)') and t.startswith(f'{frame}['):
            return ('raw', t[len(frame) + 1:-len('].astype(str)')], 'raw string value, no delimiter')
        if isinstance(e, ast.BinOp) and isinstance(e.op, ast.Add):
            # separator literal + raw value
            l, r = e.left, e.right
            if isinstance(l, ast.Constant) and isinstance(l.value, str):
                sub = classify(r, elem_txt)
                if sub[0] == 'raw':
                    return ('sep', sub[1], f'constant separator {l.value!r} without escaping')
        return ('unknown', t, 'unrecognised part')
    kind0, elem0, how0 = classify(inits[0][1], None)
    e0 = inits[0][1]
    if isinstance(e0, ast.Call) and isinstance(e0.func, ast.Name) and e0.func.id in inner and CACHED.get(inner[e0.func.id].qualname) and any(isinstance(a[2], ast.AugAssign) for a in adds):
        chk.bad('C10.1c', 'R11', comb.site(adds[0][2]), f'{ast.unparse(inits[0][2])} ... {ast.unparse(adds[0][2])}', f'the key starts as the object returned by the memoising encoder `{e0.func.id}` (a cached Series shared between combinations) and is then extended in place with `+=`: the cached encoding of the first constituent accumulates the other constituents, so later combinations that start with the same feature encode extra columns and rows that agree on the named constituents get different values')
    loop = None
    results = [(kind0, elem0, how0, inits[0][2])]
    for _, e, node in adds:
        results.append(classify(e, None) + (node,))
        lp = par.get(node)
        while lp is not None and not isinstance(lp, ast.For):
            lp = par.get(lp)
        loop = loop or lp
    kinds = {r[0] for r in results}
    if 'raw' in kinds or 'sep' in kinds:
        bad = next(r for r in results if r[0] in ('raw', 'sep'))
        wit = "('1', '11') and ('11', '1')" if bad[0] == 'raw' else "(s + sep, t) and (s, sep + t)"
        chk.bad('C10.1a', 'R12', comb.site(bad[3]), ast.unparse(bad[3])[:120], f'a constituent enters the hashed key as {bad[2]}: different value tuples such as {wit} yield the same string, hence the same interaction value (every constituent, including the first, must pass through the self-delimiting part encoder)')
    elif 'badenc' in kinds or 'unknown' in kinds:
        bad = next(r for r in results if r[0] in ('badenc', 'unknown'))
        chk.unsure('C10.1a', 'R12', comb.site(bad[3]), ast.unparse(bad[3])[:120], f'cannot establish that this part of the key is self-delimiting: {bad[2]}')
    else:
        chk.ok('C10.1a', 'R12', comb.site(inits[0][2]), '; '.join(ast.unparse(r[3])[:60] for r in results), f'every constituent is encoded by the same self-delimiting encoder ({how0}); the concatenation is uniquely decodable')
    # coverage of the combination: first element + loop over the rest
    ok_first = elem0 == f'{c}[0]'
    ok_rest = isinstance(loop, ast.For) and ast.unparse(loop.iter) == f'{c}[1:]' and isinstance(loop.target, ast.Name) and all(r[1] == loop.target.id for r in results[1:])
    alt_all = isinstance(loop, ast.For) and ast.unparse(loop.iter) == c
    chk.expect((ok_first and ok_rest) or alt_all, 'C10.1b', 'R13', comb.site(loop) if loop is not None else comb.site(), f'first: {elem0}; loop: {ast.unparse(loop.iter) if isinstance(loop, ast.For) else None}',
               'every member of the combination contributes to the key', f'the key must be built from {c}[0] and every element of {c}[1:] (all constituents the name mentions): with another range some constituents are left out and rows that differ only there alias')


def digest(repo, chk, fn, comb):
    m = fn.module
    hs = [(comb, c) for c in calls(comb) if (m.dotted(c.func) or '') in WIDE | NARROW or (m.dotted(c.func) or '').startswith('xxhash.')]
    # digest helpers passed by reference: key.apply(internal_hash)
    for c in calls(comb, attr=('apply', 'map')):
        for a in c.args:
            if isinstance(a, (ast.Name, ast.Attribute)):
                tgt = repo.find_func(m.dotted(a) or '')
                if tgt is not None:
                    hs += [(tgt, x) for x in calls(tgt) if (tgt.module.dotted(x.func) or '') in WIDE | NARROW or (tgt.module.dotted(x.func) or '').startswith('xxhash.')]
    for owner, c in hs:
        m = owner.module
        par = parents(owner.node)
        comb_site = owner
        d = m.dotted(c.func)
        chk.expect(d in WIDE, 'C10.2a', 'R8', comb_site.site(c), ast.unparse(c)[:80], 'digest has at least 64 bits', f'{d} has fewer than 64 bits: distinct value tuples collide far more often than the statement allows')
        a0 = c.args[0] if c.args else None
        enc = (isinstance(a0, ast.Call) and isinstance(a0.func, ast.Attribute) and a0.func.attr == 'encode') or (owner is not comb and '.encode(' in ast.unparse(owner.node))
        chk.expect(enc, 'C10.6', 'API', comb_site.site(c), ast.unparse(c)[:80], 'the key is encoded to bytes before hashing', 'xxhash >= 4 raises TypeError on str input: interaction features cannot be built')
        # digest used in full
        p = par.get(c)
        full = isinstance(p, ast.Attribute) and p.attr in ('hexdigest', 'intdigest', 'digest') and isinstance(par.get(p), ast.Call) and not isinstance(par.get(par.get(p)), ast.Subscript)
        chk.expect(full, 'C10.2b', 'R8', comb_site.site(c), ast.unparse(par.get(par.get(p)) if isinstance(p, ast.Attribute) and par.get(par.get(p)) is not None and not isinstance(par.get(par.get(p)), ast.stmt) else c)[:100], 'the whole digest is the feature value', 'the digest is truncated / post-processed: fewer than 64 bits distinguish the value tuples')
    chk.require_count('digest constructions in combine_features', len(hs), 1)


def name_and_space(repo, chk, fn, comb, frame, args):
    m = fn.module
    E = lambda s: expected_term(m, s)
    c = comb.params[0]
    rets = returns(comb)
    flag = fn.params[3] if len(fn.params) > 3 else 'is_3mr'
    if len(rets) == 1 and isinstance(rets[0].value, ast.Tuple) and len(rets[0].value.elts) == 2:
        nt = term_of(comb, rets[0].value.elts[0], inline=True)
        jname = nt[1][1][1] if nt[0] == 'call' and nt[1][0] == 'attr' and nt[1][2] == 'join' and nt[1][1][0] == 'name' else None
        js = [n for n in own_nodes(fn.node) if isinstance(n, ast.Assign) and isinstance(n.targets[0], ast.Name) and n.targets[0].id == jname]
        jt = term_of(fn, js[0].value, inline=False) if js else None
        ok_js = jt == E(f"' AND_REL ' if {flag} else ' AND '")
        ok_name = jname is not None and nt == ('call', ('attr', ('name', jname), 'join'), (('name', c),), ())
        chk.expect(ok_js and ok_name, 'C10.3', 'R15', comb.site(rets[0]), f'{ast.unparse(rets[0].value.elts[0])}; join_string = {ast.unparse(js[0].value) if js else None}', "name = ' AND '.join(constituents) (' AND_REL ' for 3MR relations), in candidate order",
                   "the feature name must be join_string.join(new_combination) with join_string = ' AND_REL ' if is_3mr else ' AND '")
    else:
        chk.unsure('C10.3', 'R15', comb.site(), 'return name, values', 'unexpected return of combine_features')
    # candidate space
    cs = [x for x in calls(fn) if (m.dotted(x.func) or '').startswith('itertools.')]
    ok_space = False
    if len(cs) == 1 and m.dotted(cs[0].func) == 'itertools.combinations' and len(cs[0].args) == 2:
        cols = term_of(fn, cs[0].args[0], inline=True)
        order = term_of(fn, cs[0].args[1], inline=True)
        ok_cols = cols in (E(f'[x for x in {frame}.columns if x != {args}.label_column]'), E(f'[x for x in {frame} if x != {args}.label_column]'))
        ok_ord = order == E(f'2 if {flag} else {args}.interaction_order')
        ok_space = ok_cols and ok_ord
    chk.expect(ok_space, 'C10.4a', 'R15', fn.site(cs[0]) if cs else fn.site(), ast.unparse(cs[0]) if cs else 'itertools.combinations(...)', 'candidates = k-subsets of the non-label columns (k = interaction order; 2 for 3MR relations)',
               'the candidate space must be itertools.combinations(non-label columns, interaction_order)')
    # every (sampled) candidate yields a column: loop over the space, dict[name] = values
    loops = [n for n in own_nodes(fn.node) if isinstance(n, ast.For) and any(isinstance(x, ast.Call) and isinstance(x.func, ast.Name) and x.func.id == comb.name for x in ast.walk(n))]
    ok_loop = False
    if len(loops) == 1:
        lp = loops[0]
        it = ast.unparse(lp.iter)
        samp0 = [x for x in calls(fn) if m.dotted(x.func) == f'{CR}.prior_combinations_sample']
        space = ast.unparse(samp0[0].args[0]) if samp0 and samp0[0].args else 'full_combination_space'
        base_it = lp.iter.args[0] if isinstance(lp.iter, ast.Call) and isinstance(lp.iter.func, ast.Name) and lp.iter.func.id == 'enumerate' and lp.iter.args else lp.iter
        ok_it = ast.unparse(base_it) == space
        st = [s for s in ast.walk(lp) if isinstance(s, ast.Assign) and isinstance(s.targets[0], ast.Subscript)]
        unp = [s for s in ast.walk(lp) if isinstance(s, ast.Assign) and isinstance(s.targets[0], ast.Tuple) and isinstance(s.value, ast.Call) and isinstance(s.value.func, ast.Name) and s.value.func.id == comb.name]
        if ok_it and len(st) == 1 and len(unp) == 1:
            nm, vals = [e.id for e in unp[0].targets[0].elts]
            ok_loop = ast.unparse(st[0].targets[0].slice) == nm and ast.unparse(st[0].value) == vals and not any(isinstance(x, (ast.If, ast.Continue, ast.Break)) for x in ast.walk(lp))
    chk.expect(ok_loop, 'C10.4b', 'R13', fn.site(loops[0]) if loops else fn.site(), ast.unparse(loops[0].iter) if loops else 'for combination in full_combination_space', 'one new column per selected combination, stored under its name', 'each selected combination must yield exactly one column stored under its own name')
    samp = [x for x in calls(fn) if m.dotted(x.func) == f'{CR}.prior_combinations_sample']
    spdef = [n for n in own_nodes(fn.node) if isinstance(n, ast.Assign) and isinstance(n.targets[0], ast.Name) and samp and n.value is samp[0]]
    chk.expect(len(samp) == 1 and bool(spdef) and ast.unparse(samp[0].args[0]) == spdef[0].targets[0].id and any(isinstance(n, ast.Assign) and isinstance(n.targets[0], ast.Name) and n.targets[0].id == spdef[0].targets[0].id and cs and any(x is cs[0] for x in ast.walk(n.value)) for n in own_nodes(fn.node)), 'C10.4c', 'R6', fn.site(samp[0]) if samp else fn.site(), ast.unparse(samp[0]).replace('\n', ' ')[:120] if samp else '', 'the candidate list is reduced only by the fair sampler', 'the candidate list must be passed through prior_combinations_sample (and nothing else drops candidates)')


def append_only(repo, chk, fn, frame):
    from .c11 import append_only_rule
    append_only_rule(repo, chk, fn, frame, 'C10.5')
