"""C16 - line parsers keep every field in its column and never mis-align.

Decided (necessary structural conditions, DESIGN.md §5 C16):
 1 CSV: the row returned is csv.reader's row on the single line, not post-processed
 2 TSV: the receiver of .split(delimiter) is stripped of nothing that can be the delimiter;
        the split is on the delimiter parameter, un-limited, and its result is returned as is
 3 VW: label / '-'-join of non-empty tokens / namespace->column / absent->None / [2:] prefix / [label]+cells
 4 dispatch tables of generic_line_parser and get_dataset_info agree with the statement
 5 field-count gate in the streaming loop
 6 namespace map reader
"""
from __future__ import annotations

import ast

from ..match import (arg, bind_args, body_raises, calls, dispatch_chain, expected_term, returns, role_bound, selects,
                     stmt_of, str_method_chain, term_of)
from ..model import own_nodes, parents
from ..terms import Canon, Scope, show, walk_term
from .common import field_count_gate

EXPLANATION = ('Static rules over outrank/core_utils.py parsers: origin of the CSV row (csv.reader on the single line, no post-processing); '
               'string-part rule on the TSV parser (strip set must not contain a delimiter, split on the delimiter parameter, result returned unmodified); '
               'canonical-term equality of the five VW constructions; exhaustive-dispatch tables of generic_line_parser/get_dataset_info; '
               'guard-dominance of the field-count gate; structure of the namespace-map reader. Decides shape of code, not parsing of actual files.')
TRUSTED_BASE = ['csv.reader([line]) yields exactly one row for a line without embedded newline, fields unmodified, RFC-4180 quoting',
                'str.strip() without argument removes all leading/trailing whitespace including \\t; str.split(sep) keeps empty fields']
ASSUMPTIONS = ['delimiters reaching parse_ob_line are those of the DatasetInformationStorage constructors (folded from the source)']

CU = 'outrank.core_utils'
WHITESPACE = set(' \t\n\r\x0b\x0c')


def run(repo, chk, tier):
    m = repo.mod(CU)
    csv_parser(repo, chk)
    tsv_parser(repo, chk)
    vw_parser(repo, chk)
    dispatch(repo, chk)
    field_count_gate(repo, chk, 'C16.5')
    namespace_reader(repo, chk)
    header_names(repo, chk)


# -- 7 header of the raw CSV source ------------------------------------------
def header_names(repo, chk):
    """C16.7 - the column names of a csv-raw source are the delimited fields of the header line, one name per field (empty ones too): the
    field-count gate compares every data row with this list, and position i of a row is reported under name i.  A name that is dropped or
    merged shifts or rejects every row."""
    fn = repo.modules[CU].funcs.get('parse_csv_raw')
    if fn is None:
        chk.unsure('C16.7', 'R15', 'outrank/core_utils.py', 'parse_csv_raw', 'the reader of the csv-raw description was not found')
        return
    m = fn.module
    cs = [c for c in calls(fn) if (m.dotted(c.func) or '').endswith('DatasetInformationStorage')]
    if len(cs) != 1:
        chk.unsure('C16.7', 'R15', fn.site(), 'DatasetInformationStorage(..)', 'the construction of the dataset description was not found exactly once')
        return
    names = arg(cs[0], 1, 'column_names')
    delim = arg(cs[0], 3, 'col_delimiter')
    if names is None or delim is None:
        chk.unsure('C16.7', 'R15', fn.site(cs[0]), ast.unparse(cs[0])[:100], 'column names / delimiter are not passed in their positions')
        return
    t = term_of(fn, names)
    td = term_of(fn, delim)
    filt = [x for x in walk_term(t) if isinstance(x, tuple) and x and x[0] in ('listcomp', 'genexp', 'setcomp') and any(g[1] for g in x[2])]
    filt += [x for x in walk_term(t) if isinstance(x, tuple) and len(x) > 1 and x[0] == 'call' and x[1] in (('name', 'filter'), ('lib', 'filter'))]
    sets = [x for x in walk_term(t) if isinstance(x, tuple) and len(x) > 1 and ((x[0] == 'call' and x[1] in (('name', 'set'), ('lib', 'set'), ('lib', 'dict.fromkeys'), ('name', 'sorted'), ('lib', 'sorted'))) or x[0] == 'setcomp')]
    site = fn.site(cs[0])
    if filt:
        chk.bad('C16.7', 'R15', site, show(t)[:160], 'header fields are filtered before they become the column names: a dropped name makes the list shorter than every data row (all rows fail the field-count gate) or shifts the names of the columns behind it')
        return
    if sets:
        chk.bad('C16.7', 'R15', site, show(t)[:160], 'the header fields are de-duplicated / re-ordered before they become the column names: names no longer correspond to field positions')
        return
    accepted = []
    for src in ('header.strip().split(D)', "header.rstrip('\\n').split(D)", "header.rstrip('\\r\\n').split(D)", "header.rstrip().split(D)", "header.strip('\\n').split(D)", "header.strip('\\r\\n').split(D)"):
        accepted.append(expected_term(m, src, {'D': td}))
    # the header line itself: whatever the function reads first
    hdr = None
    for x in walk_term(t):
        if isinstance(x, tuple) and len(x) > 2 and x[0] == 'call' and x[1][0] == 'attr' and x[1][2] in ('readline', '__next__'):
            hdr = x
        if isinstance(x, tuple) and len(x) > 2 and x[0] == 'call' and x[1] in (('name', 'next'), ('lib', 'next')):
            hdr = x
    if hdr is not None:
        accepted = [_subst_name(a, 'header', hdr) for a in accepted]
    chk.expect_term(t, accepted, 'C16.7', 'R15', site, show(t)[:160], 'column names = the header line without its line end, split on the column delimiter: one name per field',
                    f'the column names of a csv-raw source must be header.strip().split(delimiter): one name per header field, in order; found {show(t)[:160]}')


def _subst_name(t, name, by):
    if t == ('name', name):
        return by
    if isinstance(t, tuple):
        return tuple(_subst_name(x, name, by) for x in t)
    if isinstance(t, list):
        return [_subst_name(x, name, by) for x in t]
    return t


# -- 1 CSV ---------------------------------------------------------------
def csv_parser(repo, chk):
    fn = repo.func(CU, 'parse_ob_csv_line')
    line = fn.params[0]
    rets = returns(fn)
    if not rets:
        chk.bad('C16.1', 'origin', fn.site(), 'no return', 'CSV parser returns nothing')
        return
    rc = calls(fn, dotted='csv.reader')
    if not rc:
        chk.bad('C16.1', 'origin', fn.site(), ast.unparse(rets[0]), 'the CSV row is not produced by csv.reader: quoted fields containing delimiters or quotes are split')
        return
    for call in rc:
        a0 = arg(call, 0)
        ok_arg = False
        if isinstance(a0, (ast.List, ast.Tuple)) and len(a0.elts) == 1:
            base, chain = str_method_chain(a0.elts[0])
            if isinstance(base, ast.Name) and base.id == line:
                bad = [c for c in chain if not _harmless_strip(c)]
                ok_arg = not bad
        extra_kw = [k.arg for k in call.keywords if k.arg not in ('delimiter',)]
        kw_delim = arg(call, None, 'delimiter')
        delim_ok = kw_delim is None or (isinstance(kw_delim, ast.Name) and kw_delim.id in fn.params) or (isinstance(kw_delim, ast.Constant) and kw_delim.value == ',')
        chk.expect(ok_arg and not extra_kw and delim_ok and len(call.args) == 1, 'C16.1a', 'origin', fn.site(call), ast.unparse(call),
                   'csv.reader is applied to the single, unmodified line with default dialect',
                   'csv.reader must be given [line] unmodified (no strip/replace of the line, no dialect options): fields would be altered')
    bound = {line: ('role', 'line')}
    for r in rets:
        t = term_of(fn, r.value, bound)
        core = _strip_wrappers(t)
        good = _is_reader_row(core)
        if good:
            chk.ok('C16.1b', 'origin', fn.site(r), ast.unparse(r), 'returned list is the csv.reader row itself')
        elif any(x[0] in ('listcomp', 'genexp') for x in walk_term(t)) or any(x[0] == 'call' and x[1][0] == 'attr' and x[1][2] in ('strip', 'lstrip', 'rstrip', 'replace', 'lower', 'upper') for x in walk_term(t)):
            chk.bad('C16.1b', 'origin', fn.site(r), ast.unparse(r), 'the csv.reader row is post-processed before it is returned: fields are not returned unmodified')
        elif not any(x == ('lib', 'csv.reader') for x in walk_term(t)):
            chk.bad('C16.1b', 'origin', fn.site(r), ast.unparse(r), 'the returned value does not originate from csv.reader')
        else:
            chk.unsure('C16.1b', 'origin', fn.site(r), ast.unparse(r), f'unrecognised extraction of the csv.reader row: {show(t)[:120]}')


def _harmless_strip(c):
    name, args = c
    if name in ('rstrip',) and len(args) == 1 and isinstance(args[0], ast.Constant) and isinstance(args[0].value, str) and set(args[0].value) <= set('\r\n'):
        return True
    return False


def _strip_wrappers(t):
    while t[0] == 'call' and t[1] in (('name', 'list'), ('lib', 'list')) and len(t[2]) == 1:
        t = t[2][0]
    return t


def _is_reader_row(t):
    def is_reader(x):
        return x[0] == 'call' and x[1] == ('lib', 'csv.reader')
    # list(R).pop() / list(R).pop(0) / list(R)[0] / list(R)[-1] / next(R) / next(iter(R))
    if t[0] == 'call' and t[1][0] == 'attr' and t[1][2] == 'pop' and len(t[2]) <= 1:
        inner = _strip_wrappers(t[1][1])
        return is_reader(inner) and (not t[2] or t[2][0] in (('num', 0), ('num', -1)))
    if t[0] == 'sub' and t[2] in (('num', 0), ('num', -1)):
        return is_reader(_strip_wrappers(t[1]))
    if t[0] == 'call' and t[1] in (('name', 'next'), ('lib', 'next')) and len(t[2]) >= 1:
        inner = t[2][0]
        if inner[0] == 'call' and inner[1] in (('name', 'iter'), ('lib', 'iter')):
            inner = inner[2][0]
        return is_reader(inner)
    return False


# -- 2 TSV ---------------------------------------------------------------
def delimiters(repo):
    """String constants bound to col_delimiter in core_utils (the DatasetInformationStorage constructors)."""
    m = repo.mod(CU)
    out = set()
    for n in ast.walk(m.tree):
        if isinstance(n, ast.Assign) and any(isinstance(t, ast.Name) and t.id == 'col_delimiter' for t in n.targets) and isinstance(n.value, ast.Constant) and isinstance(n.value.value, str):
            out.add(n.value.value)
    return out


def tsv_parser(repo, chk):
    fn = repo.func(CU, 'parse_ob_line')
    line, delim = fn.params[0], fn.params[1]
    ds = delimiters(repo) | {'\t'}
    d = fn.node.args.defaults
    for dv in d:
        if isinstance(dv, ast.Constant) and isinstance(dv.value, str):
            ds.add(dv.value)
    splits = [c for c in calls(fn, attr=('split', 'rsplit', 'splitlines', 'partition'))]
    if not splits:
        chk.bad('C16.2', 'R12', fn.site(), 'no split', 'the TSV parser does not split the line on the delimiter')
        return
    scope = Scope(fn)
    for c in splits:
        a0 = arg(c, 0, 'sep')
        ok_split = c.func.attr == 'split' and isinstance(a0, ast.Name) and a0.id == delim and len(c.args) + len(c.keywords) == 1
        chk.expect(ok_split, 'C16.2a', 'R12', fn.site(c), ast.unparse(c),
                   'split on the delimiter parameter, unlimited', 'the line must be split on the delimiter parameter with no maxsplit (whitespace split merges empty fields; a fixed or limited split shifts columns)')
        # receiver chain, following single-definition locals and re-assignments of the line variable
        stripped = _strip_sets(fn, c.func.value, line, scope, set())
        if stripped is None:
            chk.unsure('C16.2b', 'R12', fn.site(c), ast.unparse(c.func.value), 'cannot trace the receiver of split back to the line parameter')
            continue
        bad = []
        for text, chars in stripped:
            eaten = WHITESPACE if chars is None else set(chars)
            hit = sorted(x for x in ds if set(x) & eaten)
            # any character other than a line terminator also alters edge fields
            if hit or (eaten - set('\r\n')):
                bad.append((text, hit))
        eaten_all = set()
        for text, chars in stripped:
            eaten_all |= (WHITESPACE if chars is None else set(chars))
        chk.expect('\n' in eaten_all, 'C16.2d', 'R12', fn.site(c), ast.unparse(c.func.value) + f'  (removed: {sorted(eaten_all)!r})', 'the line terminator is removed before the split',
                   'the line terminator is not removed before the split: the last field of every row keeps its trailing newline (fields are not returned unmodified)')
        if bad:
            text, hit = bad[0]
            chk.bad('C16.2b', 'R12', fn.site(c), text, f'the line is stripped of characters that can be the field delimiter ({hit!r}) or belong to an edge field before it is split: empty/blank first or last fields are lost and the row is mis-counted')
        else:
            chk.ok('C16.2b', 'R12', fn.site(c), ast.unparse(c.func.value), 'only line terminators are removed before the split')
    for r in returns(fn):
        t = term_of(fn, r.value, {line: ('role', 'line'), delim: ('role', 'delim')})
        is_split = t[0] == 'call' and t[1][0] == 'attr' and t[1][2] == 'split'
        if is_split:
            chk.ok('C16.2c', 'origin', fn.site(r), ast.unparse(r), 'the split result is returned unmodified')
        elif any(x[0] in ('listcomp', 'genexp', 'slice') for x in walk_term(t)) or (t[0] == 'call' and t[1] in (('name', 'filter'), ('name', 'map'), ('name', 'list'))):
            chk.bad('C16.2c', 'origin', fn.site(r), ast.unparse(r), 'fields are filtered, mapped or sliced after the split: they are not returned unmodified / in their columns')
        else:
            chk.unsure('C16.2c', 'origin', fn.site(r), ast.unparse(r), f'unrecognised return of the TSV parser: {show(t)[:100]}')


def _strip_sets(fn, expr, line, scope, seen):
    """List of (text, chars|None) for every strip-like call between the line parameter and expr; None if untraceable."""
    base, chain = str_method_chain(expr)
    out = []
    for name, args in chain:
        if name in ('strip', 'lstrip', 'rstrip'):
            if not args:
                out.append((f'.{name}()', None))
            elif isinstance(args[0], ast.Constant) and isinstance(args[0].value, str):
                out.append((f'.{name}({args[0].value!r})', args[0].value))
            else:
                out.append((f'.{name}({ast.unparse(args[0])})', None))
        elif name in ('replace', 'translate', 'expandtabs', 'lower', 'upper', 'casefold'):
            out.append((f'.{name}(...)', None))
        elif name in ('split', 'decode', 'encode', 'format'):
            pass
        else:
            return None
    if isinstance(base, ast.Name):
        if base.id in seen:
            return out
        seen = seen | {base.id}
        defs = [d for d in scope.defs.get(base.id, []) if d is not None]
        if base.id == line and not defs:
            return out
        if not defs:
            return None
        acc = list(out)
        for d in defs:
            sub = _strip_sets(fn, d, line, scope, seen)
            if sub is None:
                return None
            acc = sub + acc
        return acc
    return None


# -- 3 VW ----------------------------------------------------------------
def vw_parser(repo, chk):
    fn = repo.func(CU, 'parse_ob_line_vw')
    p = fn.params
    if len(p) < 5:
        chk.unsure('C16.3', 'R15', fn.site(), 'signature', 'unexpected parameter list of the VW parser')
        return
    roles = {p[0]: ('role', 'line'), p[3]: ('role', 'fwmap'), p[4]: ('role', 'header')}
    if len(p) > 5:
        roles[p[5]] = ('role', 'nsinfo')
    par = parents(fn.node)
    m = fn.module
    RB = role_bound(['line', 'fwmap', 'header', 'nsinfo', 'part', 'hash'])

    def exp(src, extra=None):
        return expected_term(m, src, {**RB, **(extra or {})})

    # loop over the namespace parts
    loops = [n for n in own_nodes(fn.node) if isinstance(n, ast.For)]
    part_loop = None
    for lp in loops:
        it = term_of(fn, lp.iter, roles)
        if it in (exp("line.strip().split('|')[1:]"), exp("line.split('|')[1:]"), exp("line.rstrip().split('|')[1:]"), exp("line.rstrip('\\n').split('|')[1:]"), exp("line.rstrip('\\r\\n').split('|')[1:]")):
            part_loop = lp
    if part_loop is None or not isinstance(part_loop.target, ast.Name):
        accepted = [exp("line.strip().split('|')[1:]"), exp("line.split('|')[1:]"), exp("line.rstrip().split('|')[1:]")]
        cand = [(lp, term_of(fn, lp.iter, roles)) for lp in loops]
        cand = [(lp, t) for lp, t in cand if any(x == ('role', 'line') for x in walk_term(t))]
        from ..match import within_vocabulary
        if cand and not all(within_vocabulary(t, accepted) for lp, t in cand):
            chk.unsure('C16.3a', 'R15', fn.site(cand[0][0]), ast.unparse(cand[0][0].iter)[:100], 'a loop over parts of the line exists, but how the sections after the label are obtained is outside the vocabulary of the accepted forms')
        else:
            chk.bad('C16.3a', 'R15', fn.site(cand[0][0]) if cand else fn.site(), 'for <part> in line.strip().split("|")[1:]', 'no loop over all namespace sections after the label section was found: namespaces are dropped or the label section is parsed as a namespace')
        return
    chk.ok('C16.3a', 'R15', fn.site(part_loop), ast.unparse(part_loop.iter), 'every section after the first "|" is visited')
    roles[part_loop.target.id] = ('role', 'part')

    # store into the hash: HASH[fwmap[TOK[0]]] = '-'.join(x for x in TOK[1:] if x != '')
    stores = [s for s in ast.walk(part_loop) if isinstance(s, ast.Assign) and len(s.targets) == 1 and isinstance(s.targets[0], ast.Subscript)]
    tok = "part.strip().split(' ')"
    key_ok = [exp(f"fwmap[{tok}[0]]")]
    val_ok = [exp(f"'-'.join(x for x in {tok}[1:] if x != '')"), exp(f"'-'.join(x for x in {tok}[1:] if x)"), exp(f"'-'.join([x for x in {tok}[1:] if x != ''])"),
              exp(f"'-'.join([x for x in {tok}[1:] if x])"), exp(f"'-'.join(x for x in {tok}[1:] if len(x) > 0)"), exp(f"'-'.join(filter(None, {tok}[1:]))")]
    hash_name = None
    found = False
    for s in stores:
        kt = term_of(fn, s.targets[0].slice, roles)
        vt = term_of(fn, s.value, roles)
        if isinstance(s.targets[0].value, ast.Name):
            found = True
            hash_name = s.targets[0].value.id
            chk.expect_term(kt, key_ok, 'C16.3b', 'R15', fn.site(s), ast.unparse(s.targets[0]),
                            'tokens are filed under the column of their namespace id', f'the column key must be fw_col_mapping[first token of the section]; found {show(kt)[:120]}')
            chk.expect_term(vt, val_ok, 'C16.3c', 'R15', fn.site(s), ast.unparse(s.value)[:160],
                            "tokens after the namespace id, empty ones dropped, joined by '-'", f"the cell must be '-'.join(non-empty tokens after the namespace id); found {show(vt)[:160]}")
    # ... for every section whose namespace id is in the map: the store is guarded by that membership test and by nothing else
    for s_ in stores:
        if not isinstance(s_.targets[0].value, ast.Name):
            continue
        g, child = par.get(s_), s_
        while g is not None and g is not part_loop:
            if isinstance(g, ast.If):
                in_body = any(child is x for x in g.body)
                tt = term_of(fn, g.test, roles)
                member = [exp(f"{tok}[0] in fwmap"), exp(f"{tok}[0] in fwmap.keys()"), exp(f"fwmap.get({tok}[0]) is not None")]
                absent = [exp(f"{tok}[0] not in fwmap"), exp(f"not ({tok}[0] in fwmap)"), exp(f"fwmap.get({tok}[0]) is None")]
                if (in_body and tt in member) or (not in_body and tt in absent):
                    pass
                elif isinstance(g.test, ast.Constant) or tt in (('const', False), ('const', True), ('bool', False), ('bool', True)) or (in_body and tt in absent) or (not in_body and tt in member):
                    chk.bad('C16.3g', 'R14', fn.site(g), ast.unparse(g.test)[:80], 'the tokens of a section must be filed under its column exactly when the namespace id is in the map; here the store is ' +
                            ('never reached / reached for unmapped ids only' if not (isinstance(g.test, ast.Constant) and g.test.value and in_body) else 'reached for unmapped ids too (KeyError)') + ': every cell of the row is None')
                else:
                    chk.unsure('C16.3g', 'R14', fn.site(g), ast.unparse(g.test)[:80], 'the store of the section tokens is guarded by a test other than the membership of the namespace id in the map')
            child, g = g, par.get(g)
    if found and not any(o.oid == 'C16.3g' for o in chk.obs):
        chk.ok('C16.3g', 'R14', fn.site(part_loop), 'if <namespace id> in fw_col_mapping: HASH[...] = ...', 'the tokens are filed for every section whose namespace id is in the map (no other guard)')
    if not found:
        other = [c for c in ast.walk(part_loop) if isinstance(c, ast.Call) and isinstance(c.func, ast.Attribute) and c.func.attr in ('append', 'extend', 'add', 'update', 'setdefault', '__setitem__')]
        if other:
            chk.unsure('C16.3b', 'R15', fn.site(other[0]), ast.unparse(other[0])[:100], 'the section tokens are collected by something other than a keyed store (e.g. pairs gathered and turned into a dict): not compared with HASH[fw_col_mapping[ns]] = tokens')
        else:
            chk.bad('C16.3b', 'R15', fn.site(part_loop), 'HASH[fw_col_mapping[ns]] = tokens', 'no store of the section tokens under the namespace column was found')
        return
    roles[hash_name] = ('role', 'hash')

    # the returned list: path evaluation, forking on include_namespace_info
    from ..match import run_paths
    from ..terms import unkind
    label_ok = [exp("line.strip().split('|')[0].split(' ')[0]"), exp("line.split('|')[0].split(' ')[0]"), exp("line.strip().split('|')[0].split()[0]")]
    plain = "[hash.get(el) for el in header[1:]]"
    cells_plain = [unkind(exp(plain))]
    cells_strip = [unkind(exp(f"[x[2:] if x is not None else None for x in {plain}]")), unkind(exp(f"[None if x is None else x[2:] for x in {plain}]")),
                   unkind(exp("[hash.get(el)[2:] if hash.get(el) is not None else None for el in header[1:]]")), unkind(exp("[None if hash.get(el) is None else hash.get(el)[2:] for el in header[1:]]"))]
    paths = run_paths(fn, None, None, max_forks=3)
    if paths is None:
        chk.unsure('C16.3d', 'R15', fn.site(), 'return [label] + cells', 'too many undecidable tests in the VW parser')
        return
    nsparam = p[5] if len(p) > 5 else None
    seen_plain = seen_strip = False
    for assume, res in paths:
        if res.unknown is not None or res.returned is None:
            chk.unsure('C16.3d', 'R15', fn.site(res.unknown) if res.unknown is not None else fn.site(), 'return [label] + cells', 'the returned row could not be written as one expression on this path')
            continue
        # which way was include_namespace_info decided on this path?
        ns = None
        for t, v in res.assumed:
            tt = term_of(fn, t, roles, inline=False)
            if tt == ('role', 'nsinfo'):
                ns = v
            elif tt == ('not', ('role', 'nsinfo')) or tt in (exp('nsinfo == False'), exp('nsinfo is False')):
                ns = not v
            elif tt in (exp('nsinfo == True'), exp('nsinfo is True')):
                ns = v
        expr = res.returned
        if isinstance(expr, ast.List) and len(expr.elts) == 2 and isinstance(expr.elts[1], ast.Starred) and not isinstance(expr.elts[0], ast.Starred):
            expr = ast.fix_missing_locations(ast.BinOp(left=ast.List([expr.elts[0]], ast.Load()), op=ast.Add(), right=expr.elts[1].value))
        site = fn.site(res.returned) if hasattr(res.returned, 'lineno') else fn.site()
        if not (isinstance(expr, ast.BinOp) and isinstance(expr.op, ast.Add) and isinstance(expr.left, ast.List) and len(expr.left.elts) == 1):
            if isinstance(expr, (ast.List, ast.BinOp, ast.ListComp)) and not isinstance(res.returned, ast.Name):
                chk.bad('C16.3d', 'R15', site, ast.unparse(expr)[:140], 'the parsed row must be [label] + namespace cells (label first, one cell per header column)')
            else:
                chk.unsure('C16.3d', 'R15', site, ast.unparse(expr)[:140], 'the returned row is built step by step / in a form outside the vocabulary: cannot be compared with [label] + namespace cells')
            continue
        lt = term_of(fn, expr.left.elts[0], roles, inline=False)
        # `.rsplit(' ', n)[0]` is everything before the LAST blank(s), not the first token
        if lt not in label_ok and any(isinstance(x, tuple) and len(x) >= 3 and x[0] == 'call' and x[1][0] == 'attr' and x[1][2] == 'rsplit' for x in walk_term(lt)):
            chk.bad('C16.3d', 'R15', site, ast.unparse(expr.left.elts[0])[:100], 'the label is cut off at the LAST blank of the section before the first "|" (rsplit): when an importance weight, a base or a tag follows the label '
                    "('1 2.0 |a x') the label cell holds '1 2.0' instead of its first token")
            continue
        chk.expect_term(lt, label_ok, 'C16.3d', 'R15', site, ast.unparse(expr.left.elts[0])[:100],
                        'label is the first space-token of the section before the first "|"', f'label must be the first token of the first section; found {show(lt)[:120]}')
        ct = unkind(term_of(fn, expr.right, roles, inline=False))
        shown = ast.unparse(expr.right)[:160]
        if ct in cells_plain:
            seen_plain = True
            if ns is False or (nsparam is not None and ns is None and len(paths) == 1):
                chk.bad('C16.3f', 'R15', site, shown, 'the two-character namespace prefix is not removed from the cells (x[2:] for non-missing cells) when namespace info is not requested')
            else:
                chk.ok('C16.3e', 'R15', site, shown, 'absent namespaces are None; one cell per header column after the label')
        elif ct in cells_strip:
            seen_strip = True
            chk.ok('C16.3e', 'R15', site, shown, 'absent namespaces are None; one cell per header column after the label')
            chk.expect(ns is not True, 'C16.3f', 'R15', site, shown, 'two-character prefix removed (when namespace info is not requested), None preserved', 'prefix removal must be guarded by `not include_namespace_info`')
        else:
            chk.expect_term(ct, cells_plain + cells_strip, 'C16.3e', 'R15', site, shown, '', f'cell list is neither the header-ordered lookup [hash.get(el, None) for el in table_header[1:]] nor its [2:] prefix removal; found {show(ct)[:160]}')
    if seen_plain and not seen_strip and not any(o.oid in ('C16.3e', 'C16.3f', 'C16.3d') and o.status != 'discharged' for o in chk.obs):
        chk.bad('C16.3f', 'R15', fn.site(), 'x[2:] for non-missing cells', 'the two-character namespace prefix is not removed from the cells (x[2:] for non-missing cells)')


def _stmt_containing(fn, expr, par):
    return stmt_of(expr, par)


def _enclosing_ifs(st, par):
    out = []
    cur = par.get(st)
    child = st
    while cur is not None:
        if isinstance(cur, ast.If) and child in cur.body:
            out.append(cur)
        child, cur = cur, par.get(cur)
    return out


# -- 4 dispatch ------------------------------------------------------------
EXPECTED_PARSERS = {'ob-raw-dump': 'parse_ob_line', 'ob-vw': 'parse_ob_line_vw', 'ob-csv': 'parse_ob_csv_line', 'csv-raw': 'parse_ob_csv_line'}
EXPECTED_INFO = {'ob-raw-dump': 'parse_ob_raw_feature_information', 'ob-vw': 'parse_ob_vw_feature_information', 'ob-csv': 'parse_csv_with_description_information', 'csv-raw': 'parse_csv_raw'}


def _is_data_source(e):
    return isinstance(e, ast.Attribute) and e.attr == 'data_source'


def dispatch(repo, chk):
    """For every documented --data_source value the dispatching function is evaluated with that value (path evaluation): the value
    returned must come from the reader / parser of that format, with the arguments in their roles; an unknown value must raise."""
    from ..match import run_paths
    for fname, table, oid in (('generic_line_parser', EXPECTED_PARSERS, 'C16.4a'), ('get_dataset_info', EXPECTED_INFO, 'C16.4b')):
        fn = repo.func(CU, fname)
        for src, callee in table.items():
            paths = run_paths(fn, _is_data_source, src, max_forks=3)
            if paths is None or any(r.unknown is not None for _, r in paths):
                bad = next((r.unknown for _, r in (paths or []) if r.unknown is not None), None)
                chk.unsure(oid, 'R7', fn.site(bad) if bad is not None else fn.site(), f'data_source == {src!r}', 'a statement outside the path vocabulary decides which parser handles this format')
                continue
            for assume, res in paths[:1] if len({ast.unparse(r.returned) if r.returned is not None else None for _, r in paths}) == 1 else paths:
                if res.raised is not None or res.returned is None:
                    chk.bad(oid, 'R7', fn.site(res.raised) if res.raised is not None else fn.site(), f'data_source == {src!r}', f'source format {src!r} is not handled by {fname} (falls to the default branch)')
                    continue
                cs = [c for c in ast.walk(res.returned) if isinstance(c, ast.Call)]
                target = [c for c in cs if fn.module.dotted(c.func) == f'{CU}.{callee}']
                if not target:
                    called = sorted({ast.unparse(c.func) for c in cs})
                    chk.bad(oid, 'R7', fn.site(), f'data_source == {src!r} -> {called}', f'{src!r} must be handled by {callee}')
                    continue
                c = target[0]
                if fname == 'generic_line_parser':
                    callee_fn = repo.func(CU, callee)
                    ba = bind_args(c, callee_fn)
                    want = {callee_fn.params[0]: fn.params[0]}
                    if callee == 'parse_ob_line':
                        want[callee_fn.params[1]] = fn.params[1]
                    if callee == 'parse_ob_line_vw':
                        want[callee_fn.params[3]] = fn.params[3]
                        want[callee_fn.params[4]] = fn.params[4]
                    wrong = [k for k, v in want.items() if not (isinstance(ba.get(k), ast.Name) and ba[k].id == v)]
                    whole = res.returned is c or ast.unparse(res.returned) == ast.unparse(c)
                    chk.expect(not wrong and whole, oid, 'R6', fn.site(c) if hasattr(c, 'lineno') else fn.site(), ast.unparse(res.returned)[:120], f'{src!r} -> {callee} with line/delimiter/mapping/header in their roles',
                               (f'argument(s) {wrong} of {callee} do not receive the corresponding parameter of {fname}' if wrong else f'the row returned for {src!r} is not the result of {callee} as it is'))
                else:
                    chk.ok(oid, 'R7', fn.site(c) if hasattr(c, 'lineno') else fn.site(), f'{src!r} -> {callee}', 'source format handled by its reader')
        paths = run_paths(fn, _is_data_source, 'no-such-source', max_forks=3) or []
        if paths and all(r.raised is not None for _, r in paths):
            chk.ok(oid + '-default', 'R7', fn.site(paths[0][1].raised), 'unknown source -> raise', 'unknown source formats are rejected')
        elif paths and any(r.unknown is not None for _, r in paths):
            chk.unsure(oid + '-default', 'R7', fn.site(), 'unknown source', 'the result for an unknown --data_source could not be determined')
        else:
            chk.bad(oid + '-default', 'R7', fn.site(), 'else: raise', 'the default branch must raise: an unknown --data_source must not be parsed by some other parser')


# -- 6 namespace map ---------------------------------------------------------
def namespace_reader(repo, chk):
    """One line of the namespace file, evaluated path by path (tests forked, assignments substituted): every path stores
    field 0 -> field 1 of the comma-split line into the returned map; the feature enters the float set exactly when its declared type
    (field 2; two-field lines have a fixed non-float type) is 'f32'; a line is read as a two-field line exactly when it has two fields
    (and the id carries no '_')."""
    from ..match import run_paths
    fn = repo.func(CU, 'parse_namespace')
    m = fn.module
    rets = returns(fn)
    loops = [n for n in own_nodes(fn.node) if isinstance(n, ast.For) and isinstance(n.target, ast.Name)]
    if not loops or not rets:
        chk.unsure('C16.6', 'R15', fn.site(), 'for line in <namespace file>', 'no loop over the lines of the namespace file was found')
        return
    lp = loops[0]
    lv = lp.target.id
    # a line that cannot be read is skipped and the NEXT lines are still read: the guard (try / except) sits inside the loop.  A loop inside the guarded
    # block ends at the first unreadable line and drops every later declaration.
    par_ns = parents(fn.node)
    cur = par_ns.get(lp)
    while cur is not None and cur is not fn.node:
        if isinstance(cur, ast.Try) and any(lp is x for b in cur.body for x in ast.walk(b)) and cur.handlers and \
                any(h.type is None or ast.unparse(h.type) in ('Exception', 'BaseException', 'ValueError', '(ValueError, IndexError)') for h in cur.handlers) and \
                not any(isinstance(x, ast.Try) for b in lp.body for x in ast.walk(b)):
            chk.bad('C16.6g', 'R1', fn.site(cur), f'try: for {lv} in ...: ... except: ...', 'the whole loop over the lines of the namespace file sits inside one try / except: the first blank, comment or malformed line '
                    'raises out of the loop and every later id -> feature declaration (and float feature) is silently dropped; the guard must be per line')
            return
        cur = par_ns.get(cur)
    E = lambda src: expected_term(m, src, {'line': ('role', 'line')})
    roles = {lv: ('role', 'line')}
    paths = run_paths(fn, None, None, max_forks=5, body=lp.body)
    if paths is None:
        chk.unsure('C16.6', 'R15', fn.site(lp), 'per-line body', 'too many undecidable tests in the per-line body')
        return
    parts_forms = [E("line.strip().split(',')"), E("line.rstrip().split(',')"), E("line.rstrip('\\n').split(',')"), E("line.rstrip('\\r\\n').split(',')")]
    r = rets[-1]
    ret_names = [e.id if isinstance(e, ast.Name) else None for e in r.value.elts] if isinstance(r.value, ast.Tuple) and len(r.value.elts) == 2 else [None, None]
    float_name, map_name = ret_names
    ok_ret = float_name is not None and map_name is not None
    n_store = n_paths = 0
    problems = {}
    seen_arity = set()
    for assume, res in paths:
        if res.unknown is not None:
            chk.unsure('C16.6', 'R15', fn.site(res.unknown), ast.unparse(res.unknown)[:80], 'statement outside the path vocabulary in the per-line body')
            continue
        n_paths += 1
        stores = [u for u in res.updates if u['kind'] == 'store1' and isinstance(u['target'], ast.Name)]
        adds = [c for c in res.calls if isinstance(c['call'].func, ast.Attribute) and c['call'].func.attr == 'add' and isinstance(c['call'].func.value, ast.Name)]
        # which parts expression does this path work on?
        P = None
        for u in stores:
            kt = term_of(fn, u['key'], roles, inline=False)
            if kt[0] == 'sub' and kt[2] == ('num', 0):
                P = kt[1]
        if not stores:
            if res.ended not in ('continue', 'break'):
                problems.setdefault('C16.6b', (lp, 'the id->feature store became conditional: some declared namespaces are missing from the map'))
            continue
        if len(stores) != 1 or P is None or P not in parts_forms:
            st = stores[0]
            kt = term_of(fn, st['key'], roles, inline=False)
            symbolic = any(isinstance(x, tuple) and x and x[0] == 'name' for x in walk_term(kt))
            if not symbolic and (P is not None and P in parts_forms or within_vocab(kt, parts_forms)):
                problems.setdefault('C16.6a', (st['node'], 'the map must store field 0 -> field 1 of the comma-split line for every accepted line'))
            else:
                chk.unsure('C16.6a', 'R15', fn.site(st['node']), ast.unparse(st['node'])[:100], 'how the fields of the line are obtained is outside the vocabulary of the accepted forms')
            continue
        st = stores[0]
        n_store += 1
        f0, f1, f2 = ('sub', P, ('num', 0)), ('sub', P, ('num', 1)), ('sub', P, ('num', 2))
        vt = term_of(fn, st['value'], roles, inline=False)
        if vt != f1 or (map_name and st['target'].id != map_name):
            problems.setdefault('C16.6a', (st['node'], 'the map must store field 0 -> field 1 of the comma-split line for every accepted line'))
        # two-field vs three-field decision of this path
        a_len = expected_term(m, 'len(P) == 2', {'P': P})
        a_us = expected_term(m, "'_' not in P[0]", {'P': P})
        cn = Canon(m, Scope(None))
        dec = {}
        for t, v in res.assumed:
            tt = term_of(fn, t, roles, inline=False)
            for nm, atom in (('len', a_len), ('us', a_us)):
                if tt == atom:
                    dec[nm] = v
                elif cn._not(tt) == atom:
                    dec[nm] = not v
        a_len3 = expected_term(m, 'len(P) == 3', {'P': P})
        for t, v in res.assumed:
            tt = term_of(fn, t, roles, inline=False)
            if tt == a_len3:
                dec['len3'] = v
            elif cn._not(tt) == a_len3:
                dec['len3'] = not v
        two = None
        if dec.get('len3') is True:
            two = False                      # exactly three fields: id, feature, type
        elif dec.get('len') is True and dec.get('us') is not False:
            two = True
        elif 'len3' not in dec and (dec.get('len') is False or dec.get('us') is False):
            two = False                      # not a two-field line: unpacked as three fields (anything else raises and is skipped)
        # the declared type on this path
        type_terms = []
        for t, v in res.assumed:
            tt = term_of(fn, t, roles, inline=False)
            if tt[0] == 'cmp' and tt[1] in ('==', '!=') and ('str', 'f32') in (tt[2], tt[3]):
                other = tt[3] if tt[2] == ('str', 'f32') else tt[2]
                type_terms.append((other, (tt[1] == '==') == v))
        added = [c for c in adds if (not float_name or c['call'].func.value.id == float_name)]
        if two is None:
            if any(any(x == ('call', ('name', 'len'), (P,), ()) for x in walk_term(term_of(fn, t, roles, inline=False))) for t, v in res.assumed):
                if 'len3' in dec:
                    chk.unsure('C16.6f', 'R14', fn.site(lp), ', '.join(f'{ast.unparse(t)[:40]} is {v}' for t, v in res.assumed), 'a path that stores into the id->feature map under field-count tests that are not classified as two-field / three-field')
                else:
                    problems.setdefault('C16.6f', (lp, 'the test that separates two-field from three-field namespace lines changed: lines are unpacked with the wrong arity, raise inside the try and are silently dropped from the id->feature map'))
            continue
        seen_arity.add(two)
        if two:
            # fixed, non-float type: never added to the float set
            fixed = [tt for tt, is_f32 in type_terms]
            if any(tt[0] != 'str' for tt in fixed) or not type_terms and added:
                problems.setdefault('C16.6d', (st['node'], 'a two-field line must get a non-float type'))
            if any(tt == ('str', 'f32') for tt in fixed) or added:
                problems.setdefault('C16.6d', (st['node'], 'a two-field line must get a non-float type'))
        else:
            is_f32 = [v for tt, v in type_terms if tt == f2]
            if not is_f32:
                problems.setdefault('C16.6c', (st['node'], "float_set.add(feature) must be guarded by exactly `type_name == 'f32'` (the third field of the line)"))
                continue
            if is_f32[0]:
                ok_add = len(added) == 1 and term_of(fn, added[0]['call'].args[0], roles, inline=False) == f1 if added and added[0]['call'].args else False
                if not ok_add:
                    problems.setdefault('C16.6c', (st['node'], "a feature whose declared type is 'f32' must be added to the float set"))
            elif added:
                problems.setdefault('C16.6c', (added[0]['node'], "float_set.add(feature) must be guarded by exactly `type_name == 'f32'`"))
    if n_store and seen_arity != {True, False} and 'C16.6f' not in problems and not any(o.oid.startswith('C16.6') and o.status == 'inconclusive' for o in chk.obs):
        problems.setdefault('C16.6f', (lp, 'the per-line body no longer separates two-field (id,feature) from three-field (id,feature,type) lines (the field-count test is gone or constant): one of the two kinds is '
                                           'unpacked with the wrong arity, raises inside the try and is silently dropped from the id->feature map / the float set'))
    good = {'C16.6a': 'id_feature_map[first field] = second field of the comma-split line', 'C16.6b': 'stored for every accepted line', 'C16.6c': "float set gets the feature iff its declared type is 'f32'",
            'C16.6d': 'two-field lines are typed generic', 'C16.6f': 'two-field lines (id,feature) are read as such, three-field lines carry their type'}
    if n_store == 0 and not problems and not any(o.oid.startswith('C16.6') for o in chk.obs):
        chk.bad('C16.6', 'R15', fn.site(), 'id_feature_map[id] = feature / float_set.add(feature)', 'the namespace reader no longer fills the id->feature map or the float set')
    for oid, why_ok in good.items():
        if oid in problems:
            node, why = problems[oid]
            chk.bad(oid, 'R15' if oid in ('C16.6a', 'C16.6d') else 'R14', fn.site(node), ast.unparse(node).replace('\n', ' ')[:100], why)
        elif n_store:
            chk.ok(oid, 'R15', fn.site(lp), f'{n_store} storing path(s) of {n_paths}', why_ok)
    chk.expect(ok_ret and isinstance(r.value, ast.Tuple), 'C16.6e', 'R6', fn.site(r), ast.unparse(r), 'returns (float set, id->feature map)', 'the reader must return (float_set, id_feature_map) in this order (callers unpack positionally)')
    if ok_ret:
        # order: the first returned object is the one that receives .add, the second the one that is subscript-stored
        add_targets = {c.func.value.id for c in calls(fn, attr='add') if isinstance(c.func.value, ast.Name)}
        store_targets = {n.targets[0].value.id for n in own_nodes(fn.node) if isinstance(n, ast.Assign) and isinstance(n.targets[0], ast.Subscript) and isinstance(n.targets[0].value, ast.Name)}
        chk.expect(float_name in add_targets and map_name in store_targets, 'C16.6e', 'R6', fn.site(r), ast.unparse(r), 'returns (float set, id->feature map)', 'the reader must return (float_set, id_feature_map) in this order (callers unpack positionally)')


def within_vocab(found, accepted):
    from ..match import within_vocabulary
    return within_vocabulary(found, accepted)
