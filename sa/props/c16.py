"""C16 - line parsers keep every field in its column and never mis-align.

Decided (necessary structural conditions, DESIGN.md §5 C16):
 1 CSV: the row returned is csv.reader's row on the single line, not post-processed
 2 TSV: the receiver of .split(delimiter) is stripped of nothing that can be the delimiter;
        the split is on the delimiter parameter, un-limited, and its result is returned as is
 3 VW: label / '-'-join of non-empty tokens / namespace->column / absent->None / [2:] prefix / [label]+cells
 4 dispatch tables of generic_line_parser and get_dataset_info agree with the statement
 5 field-count gate in the streaming loop
 6 namespace map reader
"""
from __future__ import annotations

import ast

from ..match import (arg, bind_args, body_raises, calls, dispatch_chain, expected_term, returns, role_bound, selects,
                     stmt_of, str_method_chain, term_of)
from ..model import own_nodes, parents
from ..terms import Canon, Scope, show, walk_term
from .common import field_count_gate

EXPLANATION = ('Static rules over outrank/core_utils.py parsers: origin of the CSV row (csv.reader on the single line, no post-processing); '
               'string-part rule on the TSV parser (strip set must not contain a delimiter, split on the delimiter parameter, result returned unmodified); '
               'canonical-term equality of the five VW constructions; exhaustive-dispatch tables of generic_line_parser/get_dataset_info; '
               'guard-dominance of the field-count gate; structure of the namespace-map reader. Decides shape of code, not parsing of actual files.')
TRUSTED_BASE = ['csv.reader([line]) yields exactly one row for a line without embedded newline, fields unmodified, RFC-4180 quoting',
                'str.strip() without argument removes all leading/trailing whitespace including \\t; str.split(sep) keeps empty fields']
ASSUMPTIONS = ['delimiters reaching parse_ob_line are those of the DatasetInformationStorage constructors (folded from the source)']

CU = 'outrank.core_utils'
WHITESPACE = set(' \t\n\r\x0b\x0c')


def run(repo, chk, tier):
    m = repo.mod(CU)
    csv_parser(repo, chk)
    tsv_parser(repo, chk)
    vw_parser(repo, chk)
    dispatch(repo, chk)
    field_count_gate(repo, chk, 'C16.5')
    namespace_reader(repo, chk)


# -- 1 CSV ---------------------------------------------------------------
def csv_parser(repo, chk):
    fn = repo.func(CU, 'parse_ob_csv_line')
    line = fn.params[0]
    rets = returns(fn)
    if not rets:
        chk.bad('C16.1', 'origin', fn.site(), 'no return', 'CSV parser returns nothing')
        return
    rc = calls(fn, dotted='csv.reader')
    if not rc:
        chk.bad('C16.1', 'origin', fn.site(), ast.unparse(rets[0]), 'the CSV row is not produced by csv.reader: quoted fields containing delimiters or quotes are split')
        return
    for call in rc:
        a0 = arg(call, 0)
        ok_arg = False
        if isinstance(a0, (ast.List, ast.Tuple)) and len(a0.elts) == 1:
            base, chain = str_method_chain(a0.elts[0])
            if isinstance(base, ast.Name) and base.id == line:
                bad = [c for c in chain if not _harmless_strip(c)]
                ok_arg = not bad
        extra_kw = [k.arg for k in call.keywords if k.arg not in ('delimiter',)]
        kw_delim = arg(call, None, 'delimiter')
        delim_ok = kw_delim is None or (isinstance(kw_delim, ast.Name) and kw_delim.id in fn.params) or (isinstance(kw_delim, ast.Constant) and kw_delim.value == ',')
        chk.expect(ok_arg and not extra_kw and delim_ok and len(call.args) == 1, 'C16.1a', 'origin', fn.site(call), ast.unparse(call),
                   'csv.reader is applied to the single, unmodified line with default dialect',
                   'csv.reader must be given [line] unmodified (no strip/replace of the line, no dialect options): fields would be altered')
    bound = {line: ('role', 'line')}
    for r in rets:
        t = term_of(fn, r.value, bound)
        core = _strip_wrappers(t)
        good = _is_reader_row(core)
        if good:
            chk.ok('C16.1b', 'origin', fn.site(r), ast.unparse(r), 'returned list is the csv.reader row itself')
        elif any(x[0] in ('listcomp', 'genexp') for x in walk_term(t)) or any(x[0] == 'call' and x[1][0] == 'attr' and x[1][2] in ('strip', 'lstrip', 'rstrip', 'replace', 'lower', 'upper') for x in walk_term(t)):
            chk.bad('C16.1b', 'origin', fn.site(r), ast.unparse(r), 'the csv.reader row is post-processed before it is returned: fields are not returned unmodified')
        elif not any(x == ('lib', 'csv.reader') for x in walk_term(t)):
            chk.bad('C16.1b', 'origin', fn.site(r), ast.unparse(r), 'the returned value does not originate from csv.reader')
        else:
            chk.unsure('C16.1b', 'origin', fn.site(r), ast.unparse(r), f'unrecognised extraction of the csv.reader row: {show(t)[:120]}')


def _harmless_strip(c):
    name, args = c
    if name in ('rstrip',) and len(args) == 1 and isinstance(args[0], ast.Constant) and isinstance(args[0].value, str) and set(args[0].value) <= set('\r\n'):
        return True
    return False


def _strip_wrappers(t):
    while t[0] == 'call' and t[1] in (('name', 'list'), ('lib', 'list')) and len(t[2]) == 1:
        t = t[2][0]
    return t


def _is_reader_row(t):
    def is_reader(x):
        return x[0] == 'call' and x[1] == ('lib', 'csv.reader')
    # list(R).pop() / list(R).pop(0) / list(R)[0] / list(R)[-1] / next(R) / next(iter(R))
    if t[0] == 'call' and t[1][0] == 'attr' and t[1][2] == 'pop' and len(t[2]) <= 1:
        inner = _strip_wrappers(t[1][1])
        return is_reader(inner) and (not t[2] or t[2][0] in (('num', 0), ('num', -1)))
    if t[0] == 'sub' and t[2] in (('num', 0), ('num', -1)):
        return is_reader(_strip_wrappers(t[1]))
    if t[0] == 'call' and t[1] in (('name', 'next'), ('lib', 'next')) and len(t[2]) >= 1:
        inner = t[2][0]
        if inner[0] == 'call' and inner[1] in (('name', 'iter'), ('lib', 'iter')):
            inner = inner[2][0]
        return is_reader(inner)
    return False


# -- 2 TSV ---------------------------------------------------------------
def delimiters(repo):
    """String constants bound to col_delimiter in core_utils (the DatasetInformationStorage constructors)."""
    m = repo.mod(CU)
    out = set()
    for n in ast.walk(m.tree):
        if isinstance(n, ast.Assign) and any(isinstance(t, ast.Name) and t.id == 'col_delimiter' for t in n.targets) and isinstance(n.value, ast.Constant) and isinstance(n.value.value, str):
            out.add(n.value.value)
    return out


def tsv_parser(repo, chk):
    fn = repo.func(CU, 'parse_ob_line')
    line, delim = fn.params[0], fn.params[1]
    ds = delimiters(repo) | {'\t'}
    d = fn.node.args.defaults
    for dv in d:
        if isinstance(dv, ast.Constant) and isinstance(dv.value, str):
            ds.add(dv.value)
    splits = [c for c in calls(fn, attr=('split', 'rsplit', 'splitlines', 'partition'))]
    if not splits:
        chk.bad('C16.2', 'R12', fn.site(), 'no split', 'the TSV parser does not split the line on the delimiter')
        return
    scope = Scope(fn)
    for c in splits:
        a0 = arg(c, 0, 'sep')
        ok_split = c.func.attr == 'split' and isinstance(a0, ast.Name) and a0.id == delim and len(c.args) + len(c.keywords) == 1
        chk.expect(ok_split, 'C16.2a', 'R12', fn.site(c), ast.unparse(c),
                   'split on the delimiter parameter, unlimited', 'the line must be split on the delimiter parameter with no maxsplit (whitespace split merges empty fields; a fixed or limited split shifts columns)')
        # receiver chain, following single-definition locals and re-assignments of the line variable
        stripped = _strip_sets(fn, c.func.value, line, scope, set())
        if stripped is None:
            chk.unsure('C16.2b', 'R12', fn.site(c), ast.unparse(c.func.value), 'cannot trace the receiver of split back to the line parameter')
            continue
        bad = []
        for text, chars in stripped:
            eaten = WHITESPACE if chars is None else set(chars)
            hit = sorted(x for x in ds if set(x) & eaten)
            # any character other than a line terminator also alters edge fields
            if hit or (eaten - set('\r\n')):
                bad.append((text, hit))
        eaten_all = set()
        for text, chars in stripped:
            eaten_all |= (WHITESPACE if chars is None else set(chars))
        chk.expect('\n' in eaten_all, 'C16.2d', 'R12', fn.site(c), ast.unparse(c.func.value) + f'  (removed: {sorted(eaten_all)!r})', 'the line terminator is removed before the split',
                   'the line terminator is not removed before the split: the last field of every row keeps its trailing newline (fields are not returned unmodified)')
        if bad:
            text, hit = bad[0]
            chk.bad('C16.2b', 'R12', fn.site(c), text, f'the line is stripped of characters that can be the field delimiter ({hit!r}) or belong to an edge field before it is split: empty/blank first or last fields are lost and the row is mis-counted')
        else:
            chk.ok('C16.2b', 'R12', fn.site(c), ast.unparse(c.func.value), 'only line terminators are removed before the split')
    for r in returns(fn):
        t = term_of(fn, r.value, {line: ('role', 'line'), delim: ('role', 'delim')})
        is_split = t[0] == 'call' and t[1][0] == 'attr' and t[1][2] == 'split'
        if is_split:
            chk.ok('C16.2c', 'origin', fn.site(r), ast.unparse(r), 'the split result is returned unmodified')
        elif any(x[0] in ('listcomp', 'genexp', 'slice') for x in walk_term(t)) or (t[0] == 'call' and t[1] in (('name', 'filter'), ('name', 'map'), ('name', 'list'))):
            chk.bad('C16.2c', 'origin', fn.site(r), ast.unparse(r), 'fields are filtered, mapped or sliced after the split: they are not returned unmodified / in their columns')
        else:
            chk.unsure('C16.2c', 'origin', fn.site(r), ast.unparse(r), f'unrecognised return of the TSV parser: {show(t)[:100]}')


def _strip_sets(fn, expr, line, scope, seen):
    """List of (text, chars|None) for every strip-like call between the line parameter and expr; None if untraceable."""
    base, chain = str_method_chain(expr)
    out = []
    for name, args in chain:
        if name in ('strip', 'lstrip', 'rstrip'):
            if not args:
                out.append((f'.{name}()', None))
            elif isinstance(args[0], ast.Constant) and isinstance(args[0].value, str):
                out.append((f'.{name}({args[0].value!r})', args[0].value))
            else:
                out.append((f'.{name}({ast.unparse(args[0])})', None))
        elif name in ('replace', 'translate', 'expandtabs', 'lower', 'upper', 'casefold'):
            out.append((f'.{name}(...)', None))
        elif name in ('split', 'decode', 'encode', 'format'):
            pass
        else:
            return None
    if isinstance(base, ast.Name):
        if base.id in seen:
            return out
        seen = seen | {base.id}
        defs = [d for d in scope.defs.get(base.id, []) if d is not None]
        if base.id == line and not defs:
            return out
        if not defs:
            return None
        acc = list(out)
        for d in defs:
            sub = _strip_sets(fn, d, line, scope, seen)
            if sub is None:
                return None
            acc = sub + acc
        return acc
    return None


# -- 3 VW ----------------------------------------------------------------
def vw_parser(repo, chk):
    fn = repo.func(CU, 'parse_ob_line_vw')
    p = fn.params
    if len(p) < 5:
        chk.unsure('C16.3', 'R15', fn.site(), 'signature', 'unexpected parameter list of the VW parser')
        return
    roles = {p[0]: ('role', 'line'), p[3]: ('role', 'fwmap'), p[4]: ('role', 'header')}
    if len(p) > 5:
        roles[p[5]] = ('role', 'nsinfo')
    par = parents(fn.node)
    m = fn.module
    RB = role_bound(['line', 'fwmap', 'header', 'nsinfo', 'part', 'hash'])

    def exp(src, extra=None):
        return expected_term(m, src, {**RB, **(extra or {})})

    # loop over the namespace parts
    loops = [n for n in own_nodes(fn.node) if isinstance(n, ast.For)]
    part_loop = None
    for lp in loops:
        it = term_of(fn, lp.iter, roles)
        if it in (exp("line.strip().split('|')[1:]"), exp("line.split('|')[1:]"), exp("line.rstrip().split('|')[1:]"), exp("line.rstrip('\\n').split('|')[1:]"), exp("line.rstrip('\\r\\n').split('|')[1:]")):
            part_loop = lp
    if part_loop is None or not isinstance(part_loop.target, ast.Name):
        chk.bad('C16.3a', 'R15', fn.site(), 'for <part> in line.strip().split("|")[1:]', 'no loop over all namespace sections after the label section was found: namespaces are dropped or the label section is parsed as a namespace')
        return
    chk.ok('C16.3a', 'R15', fn.site(part_loop), ast.unparse(part_loop.iter), 'every section after the first "|" is visited')
    roles[part_loop.target.id] = ('role', 'part')

    # store into the hash: HASH[fwmap[TOK[0]]] = '-'.join(x for x in TOK[1:] if x != '')
    stores = [s for s in ast.walk(part_loop) if isinstance(s, ast.Assign) and len(s.targets) == 1 and isinstance(s.targets[0], ast.Subscript)]
    tok = "part.strip().split(' ')"
    key_ok = [exp(f"fwmap[{tok}[0]]")]
    val_ok = [exp(f"'-'.join(x for x in {tok}[1:] if x != '')"), exp(f"'-'.join(x for x in {tok}[1:] if x)"), exp(f"'-'.join([x for x in {tok}[1:] if x != ''])"),
              exp(f"'-'.join([x for x in {tok}[1:] if x])"), exp(f"'-'.join(x for x in {tok}[1:] if len(x) > 0)"), exp(f"'-'.join(filter(None, {tok}[1:]))")]
    hash_name = None
    found = False
    for s in stores:
        kt = term_of(fn, s.targets[0].slice, roles)
        vt = term_of(fn, s.value, roles)
        if isinstance(s.targets[0].value, ast.Name):
            found = True
            hash_name = s.targets[0].value.id
            chk.expect(kt in key_ok, 'C16.3b', 'R15', fn.site(s), ast.unparse(s.targets[0]),
                       'tokens are filed under the column of their namespace id', f'the column key must be fw_col_mapping[first token of the section]; found {show(kt)[:120]}')
            chk.expect(vt in val_ok, 'C16.3c', 'R15', fn.site(s), ast.unparse(s.value)[:160],
                       "tokens after the namespace id, empty ones dropped, joined by '-'", f"the cell must be '-'.join(non-empty tokens after the namespace id); found {show(vt)[:160]}")
    if not found:
        chk.bad('C16.3b', 'R15', fn.site(part_loop), 'HASH[fw_col_mapping[ns]] = tokens', 'no store of the section tokens under the namespace column was found')
        return
    roles[hash_name] = ('role', 'hash')

    # the returned list
    rets = returns(fn)
    label_ok = [exp("line.strip().split('|')[0].split(' ')[0]"), exp("line.split('|')[0].split(' ')[0]"), exp("line.strip().split('|')[0].split()[0]")]
    cells_plain = [exp("[hash.get(el, None) for el in header[1:]]"), exp("[hash.get(el) for el in header[1:]]")]
    strip2 = [exp("[x[2:] if x is not None else None for x in CELLS]", {'CELLS': ('role', 'CELLS')}), exp("[None if x is None else x[2:] for x in CELLS]", {'CELLS': ('role', 'CELLS')})]
    # the instance list is re-bound under `if not include_namespace_info`; analyse both definitions
    inst_defs = []
    for r in rets:
        rt = r.value
        if not (isinstance(rt, ast.Name) or isinstance(rt, ast.BinOp)):
            chk.unsure('C16.3d', 'R15', fn.site(r), ast.unparse(r), 'unrecognised return of the VW parser')
            continue
        expr = rt
        scope = Scope(fn)
        if isinstance(expr, ast.Name) and scope.single_def(expr.id) is not None:
            expr = scope.single_def(expr.id)
        if not (isinstance(expr, ast.BinOp) and isinstance(expr.op, ast.Add) and isinstance(expr.left, ast.List) and len(expr.left.elts) == 1):
            chk.bad('C16.3d', 'R15', fn.site(r), ast.unparse(expr), 'the parsed row must be [label] + namespace cells (label first, one cell per header column)')
            continue
        lt = term_of(fn, expr.left.elts[0], roles)
        chk.expect(lt in label_ok, 'C16.3d', 'R15', fn.site(r), ast.unparse(expr.left.elts[0]),
                   'label is the first space-token of the section before the first "|"', f'label must be the first token of the first section; found {show(lt)[:120]}')
        inst = expr.right
        if not isinstance(inst, ast.Name):
            t = term_of(fn, inst, roles)
            chk.expect(t in cells_plain, 'C16.3e', 'R15', fn.site(r), ast.unparse(inst)[:120], 'one cell per header column', f'cells must be [hash.get(el, None) for el in table_header[1:]]; found {show(t)[:120]}')
            continue
        defs = [d for d in scope.defs.get(inst.id, []) if d is not None]
        if not defs:
            chk.unsure('C16.3e', 'R15', fn.site(r), inst.id, 'cannot find the definition of the cell list')
            continue
        base_seen = strip_seen = False
        for d in defs:
            t = Canon(m, scope, inline=False, bound={**roles, inst.id: ('role', 'CELLS')}).t(d)
            t_inl = term_of(fn, d, roles)
            if t_inl in cells_plain or t in cells_plain:
                base_seen = True
                chk.ok('C16.3e', 'R15', fn.site(d), ast.unparse(d)[:120], 'absent namespaces are None; one cell per header column after the label')
            elif t in strip2:
                strip_seen = True
                # guard: not include_namespace_info
                st = _stmt_containing(fn, d, par)
                guards = [g for g in _enclosing_ifs(st, par)]
                gok = len(p) <= 5 or any(term_of(fn, g.test, roles) in (exp('not nsinfo'), exp('nsinfo == False'), exp('nsinfo is False')) for g in guards)
                chk.expect(gok, 'C16.3f', 'R15', fn.site(d), ast.unparse(d)[:120], 'two-character prefix removed (when namespace info is not requested), None preserved',
                           'prefix removal must be guarded by `not include_namespace_info`')
            else:
                chk.bad('C16.3e', 'R15', fn.site(d), ast.unparse(d)[:160], f'cell list is neither the header-ordered lookup nor the [2:] prefix removal; found {show(t)[:160]}')
        if not base_seen:
            chk.bad('C16.3e', 'R15', fn.site(r), inst.id, 'the header-ordered lookup [hash.get(el, None) for el in table_header[1:]] was not found')
        if not strip_seen:
            chk.bad('C16.3f', 'R15', fn.site(r), inst.id, 'the two-character namespace prefix is not removed from the cells (x[2:] for non-missing cells)')


def _stmt_containing(fn, expr, par):
    return stmt_of(expr, par)


def _enclosing_ifs(st, par):
    out = []
    cur = par.get(st)
    child = st
    while cur is not None:
        if isinstance(cur, ast.If) and child in cur.body:
            out.append(cur)
        child, cur = cur, par.get(cur)
    return out


# -- 4 dispatch ------------------------------------------------------------
EXPECTED_PARSERS = {'ob-raw-dump': 'parse_ob_line', 'ob-vw': 'parse_ob_line_vw', 'ob-csv': 'parse_ob_csv_line', 'csv-raw': 'parse_ob_csv_line'}
EXPECTED_INFO = {'ob-raw-dump': 'parse_ob_raw_feature_information', 'ob-vw': 'parse_ob_vw_feature_information', 'ob-csv': 'parse_csv_with_description_information', 'csv-raw': 'parse_csv_raw'}


def _is_data_source(e):
    return isinstance(e, ast.Attribute) and e.attr == 'data_source'


def dispatch(repo, chk):
    for fname, table, oid in (('generic_line_parser', EXPECTED_PARSERS, 'C16.4a'), ('get_dataset_info', EXPECTED_INFO, 'C16.4b')):
        fn = repo.func(CU, fname)
        first = next((s for s in fn.node.body if isinstance(s, ast.If)), None)
        if first is None:
            chk.unsure(oid, 'R7', fn.site(), fname, 'no dispatch chain found')
            continue
        branches, else_body = dispatch_chain(first, _is_data_source)
        for src, callee in table.items():
            b = selects(branches, src)
            if b is None:
                chk.bad(oid, 'R7', fn.site(first), f'data_source == {src!r}', f'source format {src!r} is not handled by {fname} (falls to the default branch)')
                continue
            cs = [c for s in b.body for c in ast.walk(s) if isinstance(c, ast.Call)]
            target = [c for c in cs if fn.module.dotted(c.func) == f'{CU}.{callee}']
            if not target:
                called = sorted({ast.unparse(c.func) for c in cs})
                chk.bad(oid, 'R7', fn.site(b.test), f'data_source == {src!r} -> {called}', f'{src!r} must be handled by {callee}')
                continue
            c = target[0]
            if fname == 'generic_line_parser':
                callee_fn = repo.func(CU, callee)
                ba = bind_args(c, callee_fn)
                want = {callee_fn.params[0]: fn.params[0]}
                if callee == 'parse_ob_line':
                    want[callee_fn.params[1]] = fn.params[1]
                if callee == 'parse_ob_line_vw':
                    want[callee_fn.params[3]] = fn.params[3]
                    want[callee_fn.params[4]] = fn.params[4]
                wrong = [k for k, v in want.items() if not (isinstance(ba.get(k), ast.Name) and ba[k].id == v)]
                chk.expect(not wrong, oid, 'R6', fn.site(c), ast.unparse(c), f'{src!r} -> {callee} with line/delimiter/mapping/header in their roles',
                           f'argument(s) {wrong} of {callee} do not receive the corresponding parameter of {fname}')
            else:
                chk.ok(oid, 'R7', fn.site(c), f'{src!r} -> {callee}', 'source format handled by its reader')
        chk.expect(body_raises(else_body), oid + '-default', 'R7', fn.site(first), 'else: raise', 'unknown source formats are rejected',
                   'the default branch must raise: an unknown --data_source must not be parsed by some other parser')


# -- 6 namespace map ---------------------------------------------------------
def namespace_reader(repo, chk):
    fn = repo.func(CU, 'parse_namespace')
    m = fn.module
    rets = returns(fn)
    par = parents(fn.node)
    stores = [s for s in own_nodes(fn.node) if isinstance(s, ast.Assign) and isinstance(s.targets[0], ast.Subscript) and isinstance(s.targets[0].value, ast.Name)]
    adds = calls(fn, attr='add')
    if not stores or not adds or not rets:
        chk.bad('C16.6', 'R15', fn.site(), 'id_feature_map[id] = feature / float_set.add(feature)', 'the namespace reader no longer fills the id->feature map or the float set')
        return
    st = stores[0]
    map_name = st.targets[0].value.id
    key, val = st.targets[0].slice, st.value
    # id and feature are unpacked from the comma-split parts at positions 0 and 1 in every unpacking
    unpacks = [s for s in own_nodes(fn.node) if isinstance(s, ast.Assign) and isinstance(s.targets[0], ast.Tuple)]
    ok = isinstance(key, ast.Name) and isinstance(val, ast.Name) and bool(unpacks)
    if ok:
        for u in unpacks:
            names = [e.id if isinstance(e, ast.Name) else None for e in u.targets[0].elts]
            if len(names) < 2 or names[0] != key.id or names[1] != val.id:
                ok = False
            src = term_of(fn, u.value, {})
            lv = next((l.target.id for l in own_nodes(fn.node) if isinstance(l, ast.For) and isinstance(l.target, ast.Name) and any(x is u for x in ast.walk(l))), 'line')
            if src not in (expected_term(m, f"{lv}.strip().split(',')"), expected_term(m, f"{lv}.rstrip().split(',')"), expected_term(m, f"{lv}.rstrip('\\n').split(',')")):
                ok = False
    chk.expect(ok, 'C16.6a', 'R15', fn.site(st), ast.unparse(st), 'id_feature_map[first field] = second field of the comma-split line',
               'the map must store field 0 -> field 1 of the comma-split line for every accepted line')
    # the store must not be conditional inside the per-line body (other than try)
    conds = [p for p in _enclosing_ifs(st, par)]
    chk.expect(not conds, 'C16.6b', 'R13', fn.site(st), ast.unparse(st), 'stored for every accepted line', 'the id->feature store became conditional: some declared namespaces are missing from the map')
    a = adds[0]
    g = _enclosing_ifs(stmt_of(a, par), par)
    gt = [term_of(fn, x.test, {}) for x in g]
    two = [u for u in unpacks if len(u.targets[0].elts) == 2]
    three = [u for u in unpacks if len(u.targets[0].elts) == 3]
    tname = three[0].targets[0].elts[2].id if three and isinstance(three[0].targets[0].elts[2], ast.Name) else 'type_name'
    want = Canon(m, Scope(None), inline=False).t(ast.parse(f"{tname} == 'f32'", mode='eval').body)
    ok_guard = want in [Canon(m, Scope(None), inline=False).t(x.test) for x in g]
    ok_arg = len(a.args) == 1 and isinstance(a.args[0], ast.Name) and isinstance(val, ast.Name) and a.args[0].id == val.id
    chk.expect(ok_guard and ok_arg and len(g) == 1, 'C16.6c', 'R14', fn.site(a), ast.unparse(stmt_of(a, par)), "float set gets the feature iff its declared type is 'f32'",
               "float_set.add(feature) must be guarded by exactly `type_name == 'f32'`")
    # which lines are two-field lines
    tests = [n for n in own_nodes(fn.node) if isinstance(n, ast.If) and any(u in n.body or u in n.orelse for u in unpacks)]
    if tests:
        tt = term_of(fn, tests[0].test, {}, inline=False)
        pn = ast.unparse(two[0].value) if two else 'namespace_parts'
        want2 = [expected_term(m, f"len({pn}) == 2 and '_' not in {pn}[0]"), expected_term(m, f"len({pn}) == 2")]
        in_body = bool(two) and two[0] in tests[0].body
        chk.expect(tt in want2 and in_body, 'C16.6f', 'R14', fn.site(tests[0]), ast.unparse(tests[0].test), 'two-field lines (id,feature) are read as such, three-field lines carry their type',
                   'the test that separates two-field from three-field namespace lines changed: lines are unpacked with the wrong arity, raise inside the try and are silently dropped from the id->feature map')
    # two-field lines are 'generic'
    gen_ok = False
    for u in two:
        blk = par.get(u)
        sib = getattr(blk, 'body', []) if u in getattr(blk, 'body', []) else getattr(blk, 'orelse', [])
        for s in sib:
            if isinstance(s, ast.Assign) and isinstance(s.targets[0], ast.Name) and s.targets[0].id == tname and isinstance(s.value, ast.Constant) and s.value.value != 'f32':
                gen_ok = True
    chk.expect(gen_ok or not two, 'C16.6d', 'R15', fn.site(two[0]) if two else fn.site(), 'two-field line -> generic type', 'two-field lines are typed generic', 'a two-field line must get a non-float type')
    r = rets[-1]
    rt = r.value
    ok_ret = isinstance(rt, ast.Tuple) and len(rt.elts) == 2 and isinstance(rt.elts[1], ast.Name) and rt.elts[1].id == map_name and isinstance(rt.elts[0], ast.Name) and isinstance(a.func.value, ast.Name) and rt.elts[0].id == a.func.value.id
    chk.expect(ok_ret, 'C16.6e', 'R6', fn.site(r), ast.unparse(r), 'returns (float set, id->feature map)', 'the reader must return (float_set, id_feature_map) in this order (callers unpack positionally)')
