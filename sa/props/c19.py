"""C19 - synthetic categorical data respects its declared shape, domains and seed.

 1 (R4)  the np.empty([n_features, n_samples], int32) matrix is completely written on every path: full-range loop without a
         structure; cursor discipline (X[ix] = ...; ix += 1 only) closed by range(ix, n_features) otherwise
 2       placement: every structured store is preceded, in its own loop iteration, by the gap fill range(ix, feature_ix)
 3 (R8)  dtype int32 at allocation and at _generate_feature's return; the result is the transpose
 4       domain containment: every source of the returned vector is np.random.choice(vec, ...) or vec itself; vec is
         arange(low, low+cardinality), a replace=False draw of `cardinality` values from range(low, high+1), or the given list
 5 (R14) representation: ensure_rep appends the whole domain whenever len(vec) <= size
 6 (R10) np.random.seed(seed) dominates every draw of generate_data
 7       naive generator: label = thresholded column 30 of the sample; CSV emission names columns f0.. and label, index=False
"""
from __future__ import annotations

import ast

from ..cfg import CFG
from ..match import calls, expected_term, returns, term_of
from ..model import own_nodes, parents
from ..terms import Canon, Scope, show, walk_term

EXPLANATION = ('Definite-initialisation analysis (R4) of the np.empty feature matrix (cursor discipline, closing range), placement rule for structured features, constant obligations on dtype, '
               'origin analysis of the values returned by _generate_feature (domain containment), comparison normal form (R14) of the representation guard, seed-dominates-draw (R10), '
               'and term checks on the naive generator and the CSV emission. Decides construction shape, not generated numbers.')
TRUSTED_BASE = ['np.empty returns uninitialised memory; X[i] = v writes the whole row', 'np.random.choice(vec, ...) returns elements of vec; np.random.seed(s) fixes the global stream']
ASSUMPTIONS = ['structure indices are given in ascending order (placement at the declared position is claimed for those)']

CC = 'outrank.algorithms.synthetic_data_generators.cc_generator'
GN = 'outrank.algorithms.synthetic_data_generators.generator_naive'
TG = 'outrank.task_generators'
CLS = 'CategoricalClassification'


def run(repo, chk, tier):
    matrix(repo, chk)
    feature(repo, chk)
    configure(repo, chk)
    naive(repo, chk)


def _is_gen_call(n):
    return isinstance(n, ast.Call) and isinstance(n.func, ast.Attribute) and n.func.attr in ('_generate_feature', '_configure_generate_feature')


class RowCoverage:
    """Abstract interpretation of generate_data for "every row of the (uninitialised) matrix is written exactly once, structured features at
    their declared index".  Abstract state: the invariant `rows [0, cursor) are written, nothing else` plus three flags -
      closed : all rows [0, n_features) are written (a full-range loop ran, or the cursor was driven up to n_features)
      init   : the cursor has been set to 0
      fill   : the term T of the last `fill the rows cursor .. T` that ran with no cursor movement since (cursor == max(cursor, T))
    Accepted statements: X[c] = v; c += 1 (one row, cursor advanced) - `for i in range(c, T)` / `while c < T` around exactly that pair (fill up to T) -
    `for i in range(n_features): X[i] = v` (all rows) - branches (both arms interpreted, flags met) - other loops (body interpreted as a loop
    invariant).  Anything else that touches the matrix or the cursor is reported: violated when it breaks the invariant for sure (a row store
    that does not advance the cursor, an advance without a store), inconclusive otherwise."""

    def __init__(self, fn, X, chk):
        self.fn, self.X, self.chk = fn, X, chk
        self.m = fn.module
        self.cursor = None
        self.bad, self.unknown, self.placed = [], [], []
        self.nfeat = expected_term(self.m, 'n_features')
        self.derived = set()
        self.loopvars = []          # targets of the enclosing loops over (parts of) the structure description

    # -- recognisers ----------------------------------------------------------
    def _is_store(self, s):
        return isinstance(s, ast.Assign) and len(s.targets) == 1 and isinstance(s.targets[0], ast.Subscript) and isinstance(s.targets[0].value, ast.Name) and s.targets[0].value.id == self.X

    def _is_advance(self, s, name=None):
        return isinstance(s, ast.AugAssign) and isinstance(s.target, ast.Name) and (name is None or s.target.id == name) and isinstance(s.op, ast.Add) and isinstance(s.value, ast.Constant) and s.value.value == 1

    def _touches(self, s):
        # reading the shape / length of the matrix touches no row
        if isinstance(s, ast.Assign) and len(s.targets) == 1 and isinstance(s.targets[0], ast.Name) and s.targets[0].id not in (self.X, self.cursor):
            v = s.value
            if (isinstance(v, ast.Subscript) and isinstance(v.value, ast.Attribute) and v.value.attr == 'shape' and isinstance(v.value.value, ast.Name) and v.value.value.id == self.X) or \
               (isinstance(v, ast.Attribute) and v.attr in ('shape', 'dtype', 'ndim') and isinstance(v.value, ast.Name) and v.value.id == self.X) or \
               (isinstance(v, ast.Call) and isinstance(v.func, ast.Name) and v.func.id == 'len' and len(v.args) == 1 and isinstance(v.args[0], ast.Name) and v.args[0].id == self.X):
                return False
        names = {x.id for x in ast.walk(s) if isinstance(x, ast.Name)}
        return self.X in names or (self.cursor is not None and self.cursor in names and any(isinstance(x, ast.Name) and x.id == self.cursor and isinstance(x.ctx, ast.Store) for x in ast.walk(s)))

    def _structured(self, value, body, pos):
        """the stored value comes from _configure_generate_feature (directly or through a local bound just before)"""
        if any(_is_gen_call(c) and c.func.attr == '_configure_generate_feature' for c in ast.walk(value)):
            return True
        if isinstance(value, ast.Name):
            for d in reversed(body[:pos]):
                if isinstance(d, ast.Assign) and isinstance(d.targets[0], ast.Name) and d.targets[0].id == value.id:
                    return any(_is_gen_call(c) and c.func.attr == '_configure_generate_feature' for c in ast.walk(d.value))
        return False

    def _pair_body(self, body, loopvar=None):
        """body is [temporaries..., X[c] = v, c += 1] (c the cursor, or the loop variable that equals it)"""
        from ..match import is_noise_stmt
        core = [b for b in body if not is_noise_stmt(b) and not isinstance(b, ast.Pass) and not (isinstance(b, ast.Assign) and len(b.targets) == 1 and isinstance(b.targets[0], ast.Name) and b.targets[0].id not in (self.cursor, self.X))]
        if len(core) != 2 or not self._is_store(core[0]) or not self._is_advance(core[1]):
            return False
        idx = core[0].targets[0].slice
        c = core[1].target.id
        if not isinstance(idx, ast.Name) or idx.id not in (c, loopvar):
            return False
        if self.cursor is None:
            self.cursor = c
        return c == self.cursor

    # -- interpretation ---------------------------------------------------------
    def _merge_cursor_copies(self, body):
        """`t = c; while t < T: X[t] = v; t += 1; c = t`  is  `while c < T: X[c] = v; c += 1`  (a fill helper expanded at its call: the cursor is copied into
        the helper's parameter and the result is bound back).  Without the write-back the same holds when neither c nor t is read afterwards."""
        import copy as _copy
        out, i = [], 0
        while i < len(body):
            s = body[i]
            # other parameters of the expanded helper may be bound between the copy and the loop (`stop = <declared index>`)
            between = []
            j = i + 1
            if isinstance(s, ast.Assign) and len(s.targets) == 1 and isinstance(s.targets[0], ast.Name) and isinstance(s.value, ast.Name):
                while j < len(body) and isinstance(body[j], ast.Assign) and len(body[j].targets) == 1 and isinstance(body[j].targets[0], ast.Name) and body[j].targets[0].id not in (s.targets[0].id, s.value.id) \
                        and not any(isinstance(x, ast.Name) and x.id in (s.targets[0].id, s.value.id) for x in ast.walk(body[j].value)) and not any(isinstance(x, ast.Call) for x in ast.walk(body[j].value)):
                    between.append(body[j])
                    j += 1
            w = body[j] if j < len(body) else None
            back = body[j + 1] if j + 1 < len(body) else None
            if (isinstance(s, ast.Assign) and len(s.targets) == 1 and isinstance(s.targets[0], ast.Name) and isinstance(s.value, ast.Name) and isinstance(w, ast.While) and not w.orelse
                    and any(isinstance(x, ast.Name) and x.id == s.targets[0].id for x in ast.walk(w.test))):
                t, c = s.targets[0].id, s.value.id
                has_back = isinstance(back, ast.Assign) and len(back.targets) == 1 and isinstance(back.targets[0], ast.Name) and back.targets[0].id == c and isinstance(back.value, ast.Name) and back.value.id == t
                end = getattr(w, 'end_lineno', w.lineno)
                later = [x for x in own_nodes(self.fn.node) if isinstance(x, ast.Name) and x.id in (t, c) and isinstance(x.ctx, ast.Load) and x.lineno > end and not (has_back and x is back.value)]
                top = any(b is w for b in self.fn.node.body)
                t_elsewhere = [x for x in own_nodes(self.fn.node) if isinstance(x, ast.Name) and x.id == t and not (s.lineno <= x.lineno <= end) and not (has_back and x is back.value)]
                c_in_loop = any(isinstance(x, ast.Name) and x.id == c for x in ast.walk(w))
                if not t_elsewhere and not c_in_loop and (has_back or (top and not later)):
                    w2 = _copy.deepcopy(w)
                    for x in ast.walk(w2):
                        if isinstance(x, ast.Name) and x.id == t:
                            x.id = c
                    out += between
                    out.append(w2)
                    i = j + (2 if has_back else 1)
                    continue
            out.append(s)
            i += 1
        return out

    def run(self, body, st):
        from ..match import is_noise_stmt
        body = self._merge_cursor_copies(body)
        i = 0
        while i < len(body):
            s = body[i]
            nxt = body[i + 1] if i + 1 < len(body) else None
            i += 1
            if is_noise_stmt(s) or isinstance(s, ast.Pass):
                continue
            if isinstance(s, ast.Return):
                self.at_exit(st, s)
                st['dead'] = True
                return st
            if isinstance(s, ast.Raise):
                st['dead'] = True
                return st
            # cursor initialisation
            if isinstance(s, ast.Assign) and len(s.targets) == 1 and isinstance(s.targets[0], ast.Name) and isinstance(s.value, ast.Constant) and s.value.value == 0 and not isinstance(s.value.value, bool) \
                    and self._cursor_candidate(s.targets[0].id):
                if st['init'] and st.get('wrote'):
                    self.bad.append(('C19.1b', s, f'the cursor `{s.targets[0].id}` is reset to 0 after rows were written: they are overwritten'))
                self.cursor = self.cursor or s.targets[0].id
                st['init'] = True
                continue
            # a helper method of the class that fills the rows start .. stop of the matrix it is given (summarised from its body)
            call = s.value if isinstance(s, (ast.Expr, ast.Assign)) and isinstance(s.value, ast.Call) else None
            summ = self._fill_helper(call) if call is not None else None
            if summ is not None:
                start, stop, returns_cursor = summ
                tgt = s.targets[0].id if isinstance(s, ast.Assign) and len(s.targets) == 1 and isinstance(s.targets[0], ast.Name) else None
                st_t, sp_t = term_of(self.fn, start, inline=False), term_of(self.fn, stop, inline=False)
                if st_t == ('num', 0) and sp_t == self.nfeat and tgt is None:
                    st['closed'] = True
                    st['wrote'] = True
                    continue
                if st_t[0] == 'name' and self._cursor_candidate(st_t[1]):
                    self.cursor = self.cursor or st_t[1]
                    if st_t[1] == self.cursor:
                        if not st['init']:
                            self.unknown.append((s, f'the cursor `{self.cursor}` is used before it is set to 0 on this path'))
                        st['wrote'] = True
                        if tgt == self.cursor and returns_cursor:
                            st['fill'] = sp_t                      # rows cursor .. T filled, cursor = max(cursor, T)
                        elif tgt is None:
                            st['stale'], st['fill'] = sp_t, None     # rows filled, the cursor left behind
                        else:
                            self.unknown.append((s, 'the result of the fill helper is bound to something other than the cursor'))
                            continue
                        if sp_t == self.nfeat:
                            st['closed'] = True
                        continue
            # the cursor set by assignment: c = c (nothing), or c = T right after the rows c .. T were written at a loop index
            if self.cursor is not None and isinstance(s, ast.Assign) and len(s.targets) == 1 and isinstance(s.targets[0], ast.Name) and s.targets[0].id == self.cursor:
                vt = term_of(self.fn, s.value, inline=False)
                if vt == ('name', self.cursor):
                    continue
                if st.get('stale') is not None and st.get('stale') is not True and vt in (st['stale'], ('call', ('name', 'max'), (('name', self.cursor), st['stale']), ()), ('call', ('name', 'max'), (st['stale'], ('name', self.cursor)), ())):
                    vt = st['stale']
                    st['fill'], st['stale'] = vt, None
                    if vt == self.nfeat:
                        st['closed'] = True
                    continue
                self.unknown.append((s, f'the cursor `{self.cursor}` is set to a value the row-coverage rule cannot relate to the rows written'))
                continue
            if self._is_store(s):
                idx = s.targets[0].slice
                if isinstance(idx, ast.Name) and nxt is not None and self._is_advance(nxt, idx.id) and (self.cursor in (None, idx.id)):
                    self.cursor = idx.id
                    if st.get('stale') is not None:
                        self.bad.append(('C19.1b', s, f'a row is stored at the cursor `{idx.id}` after rows were written past it without advancing it: rows already written are overwritten'))
                    if not st['init']:
                        self.unknown.append((s, f'the cursor `{idx.id}` is used before it is set to 0 on this path'))
                    if self._structured(s.value, body, i - 1):
                        self.placed.append((s, st['fill'], self.loopvars[-1] if self.loopvars else None))
                    st['fill'] = None
                    st['wrote'] = True
                    i += 1
                    continue
                if isinstance(idx, ast.Name) and self.cursor is not None and idx.id == self.cursor:
                    self.bad.append(('C19.1b', s, f'a row is stored at the cursor `{idx.id}` without advancing it: the next store overwrites the row and one row of the uninitialised matrix is never written'))
                    continue
                self.unknown.append((s, 'a store into the matrix that is neither a row store at the cursor nor part of a full-range loop'))
                continue
            if self._is_advance(s) and self.cursor is not None and s.target.id == self.cursor:
                self.bad.append(('C19.1b', s, f'the cursor `{self.cursor}` is advanced without a row being stored: that row keeps uninitialised memory'))
                continue
            if isinstance(s, ast.If):
                t = term_of(self.fn, s.test, inline=False)
                a, b = dict(st), dict(st)
                a = self.run(s.body, a)
                b = self.run(s.orelse, b)
                # `if c < n_features: <fill up to n_features>`: where the test fails the cursor is already past the last row
                c = self.cursor
                b_idle = b.get('wrote') == st.get('wrote') and not b.get('dead')       # the arm where the test fails writes nothing
                if c and b_idle and t in (expected_term(self.m, f'{c} < n_features'), expected_term(self.m, f'{c} != n_features'), expected_term(self.m, f'{c} <= n_features')):
                    b['closed'] = b['closed'] or st['init']
                if c and b_idle and st['fill'] is None and t[0] == 'cmp' and t[1] == '<' and t[2] == ('name', c) and a.get('fill') == t[3]:
                    b['fill'] = t[3]          # `if c < T: fill up to T`: otherwise c >= T already
                live = [x for x in (a, b) if not x.get('dead')]
                if not live:
                    st['dead'] = True
                    return st
                stales = [x.get('stale') for x in live if x.get('stale') is not None]
                st.update({'stale': (stales[0] if len(set(map(repr, stales))) == 1 else True) if stales else None, 'closed': all(x['closed'] for x in live), 'init': all(x['init'] for x in live), 'wrote': any(x.get('wrote') for x in live),
                           'fill': live[0]['fill'] if all(x['fill'] == live[0]['fill'] for x in live) else None})
                continue
            if isinstance(s, (ast.For, ast.While)):
                kind = self._loop_kind(s)
                if kind[0] == 'full':
                    st['closed'] = True
                    st['wrote'] = True
                    continue
                if kind[0] == 'prefix':
                    # rows [0, B) written at the loop index: all rows only when B is n_features
                    st['wrote'] = True
                    if st.get('init') and self.cursor:
                        st['stale'] = True
                    continue
                if kind[0] == 'fill-stale':
                    st['wrote'] = True
                    st['stale'] = kind[1]        # the cursor no longer marks the written prefix: rows up to this term are written
                    st['fill'] = None
                    if kind[1] == self.nfeat:
                        st['closed'] = True
                    continue
                if kind[0] == 'fill':
                    if not st['init']:
                        self.unknown.append((s, f'the cursor `{self.cursor}` is used before it is set to 0 on this path'))
                    st['fill'] = kind[1]
                    st['wrote'] = True
                    if kind[1] == self.nfeat:
                        st['closed'] = True
                    continue
                if kind[0] == 'bad':
                    self.bad.append((kind[1], s, kind[2]))
                    continue
                # any other loop: its body must keep the invariant; it may run zero times
                pushed = False
                if isinstance(s, ast.For):
                    self._note_derived(s)
                    # a loop over a LIST OF INDEXES taken from a structure entry (not the loop over the entries themselves)
                    if isinstance(s.target, ast.Name) and s.target.id in self.derived and isinstance(s.iter, ast.Name) and s.iter.id in self.derived and s.iter.id != 'structure':
                        self.loopvars.append(s.target.id)
                        pushed = True
                inner = dict(st, fill=None, closed=False)
                inner = self.run(s.body, inner)
                if pushed:
                    self.loopvars.pop()
                st['wrote'] = st.get('wrote') or inner.get('wrote')
                st['init'] = st['init'] and (inner['init'] or inner.get('dead', False))
                st['fill'] = None if inner.get('wrote') else st['fill']
                if getattr(s, 'orelse', None):
                    st = self.run(s.orelse, st)
                continue
            if isinstance(s, (ast.With, ast.Try)):
                st = self.run(s.body, st)
                for h in getattr(s, 'handlers', []):
                    self.run(h.body, dict(st))
                st = self.run(getattr(s, 'finalbody', []) or [], st)
                continue
            if isinstance(s, ast.Expr) and isinstance(s.value, ast.Call) and isinstance(s.value.func, ast.Attribute) and s.value.func.attr in ('append', 'extend', 'add') and isinstance(s.value.func.value, ast.Name) \
                    and s.value.func.value.id != self.X and {x.id for a in s.value.args for x in ast.walk(a) if isinstance(x, ast.Name)} & (self.derived | {'structure'}):
                self.derived.add(s.value.func.value.id)      # a list the entries of the structure are collected in
                continue
            if isinstance(s, ast.Assign):
                self._note_assign(s)
                if len(s.targets) == 1 and isinstance(s.targets[0], ast.Name) and s.targets[0].id == self.X and isinstance(s.value, ast.Call) and self.m.dotted(s.value.func) in ('numpy.empty', 'numpy.zeros'):
                    continue      # the allocation
            if self._touches(s):
                self.unknown.append((s, 'a statement that touches the matrix or the cursor in a way the row-coverage rule does not model'))
        return st

    def _fill_helper(self, call):
        """(start expr, stop expr, returns max(start, stop)) when `call` is self.<helper>(X, start, stop, ...) and the helper's body is
        `for i in range(start, stop): M[i] = <generated feature>` (nothing else touches M), optionally returning max(start, stop)"""
        f = call.func
        if not (isinstance(f, ast.Attribute) and isinstance(f.value, ast.Name) and f.value.id in ('self', 'cls')) or len(call.args) < 3:
            return None
        if not (isinstance(call.args[0], ast.Name) and call.args[0].id == self.X):
            return None
        cls = self.fn.qualname.rsplit('.', 1)[0] if '.' in self.fn.qualname else None
        h = self.m.funcs.get(f'{cls}.{f.attr}') if cls else None
        if h is None:
            return None
        ps = [p for p in h.params if p not in ('self', 'cls')]
        if len(ps) < 3:
            return None
        M, a, b = ps[:3]
        loops = [n for n in h.node.body if isinstance(n, ast.For)]
        stores = [n for n in own_nodes(h.node) if isinstance(n, ast.Assign) and len(n.targets) == 1 and isinstance(n.targets[0], ast.Subscript) and isinstance(n.targets[0].value, ast.Name) and n.targets[0].value.id == M]
        others = [n for n in own_nodes(h.node) if isinstance(n, (ast.Continue, ast.Break)) or (isinstance(n, ast.Name) and n.id == M and isinstance(n.ctx, ast.Store))]
        if len(loops) != 1 or len(stores) != 1 or others or not isinstance(loops[0].target, ast.Name):
            return None
        lp = loops[0]
        it = term_of(h, lp.iter, inline=False)
        if it != expected_term(self.m, f'range({a}, {b})'):
            return None
        if not any(x is stores[0] for x in lp.body) or not (isinstance(stores[0].targets[0].slice, ast.Name) and stores[0].targets[0].slice.id == lp.target.id):
            return None
        if not any(_is_gen_call(c) for c in ast.walk(stores[0].value)) and not isinstance(stores[0].value, ast.Name):
            return None
        rets = [r for r in own_nodes(h.node) if isinstance(r, ast.Return) and r.value is not None]
        returns_cursor = False
        if rets:
            rt = [term_of(h, r.value, inline=False) for r in rets]
            good = (expected_term(self.m, f'max({a}, {b})'), expected_term(self.m, f'max({b}, {a})'))
            if all(t in good for t in rt):
                returns_cursor = True
            else:
                return None
        return call.args[1], call.args[2], returns_cursor

    def _cursor_candidate(self, name):
        """`name = 0` initialises the cursor when name is later used as a row index that is advanced (X[name] = ..; name += 1)"""
        if self.cursor is not None:
            return name == self.cursor
        for n in own_nodes(self.fn.node):
            if self._is_store(n) and isinstance(n.targets[0].slice, ast.Name) and n.targets[0].slice.id == name:
                return any(self._is_advance(x, name) for x in own_nodes(self.fn.node))
        return False

    def _note_assign(self, s):
        names = {x.id for x in ast.walk(s.value) if isinstance(x, ast.Name)}
        if names & self.derived:
            for t in s.targets:
                self.derived |= {x.id for x in ast.walk(t) if isinstance(x, ast.Name)}

    def _note_derived(self, lp):
        it_names = {x.id for x in ast.walk(lp.iter) if isinstance(x, ast.Name)}
        if 'structure' in it_names or it_names & self.derived:
            self.derived |= {x.id for x in ast.walk(lp.target) if isinstance(x, ast.Name)}

    def _loop_kind(self, s):
        fn, m = self.fn, self.m
        E = lambda src: expected_term(m, src)
        if isinstance(s, ast.For) and isinstance(s.target, ast.Name) and not s.orelse:
            it = term_of(fn, s.iter, inline=False)
            i = s.target.id
            if it == E('range(n_features)') or it == E('range(0, n_features)'):
                from ..match import is_noise_stmt
                top = [b for b in s.body if self._is_store(b)]
                cond = any(isinstance(x, (ast.Continue, ast.Break)) for x in ast.walk(s))
                if len(top) == 1 and isinstance(top[0].targets[0].slice, ast.Name) and top[0].targets[0].slice.id == i and not cond:
                    return ('full',)
                inner = [x for x in ast.walk(s) if self._is_store(x) and isinstance(x.targets[0].slice, ast.Name) and x.targets[0].slice.id == i]
                if inner:
                    return ('bad', 'C19.1c', 'without a structure every row range(n_features) must be written unconditionally: a row store under a condition / after continue leaves rows of the uninitialised matrix unwritten')
                return ('other',)
            if it[0] == 'call' and it[1] == ('name', 'range') and len(it[2]) == 2 and it[2][0][0] == 'name' and self._cursor_candidate(it[2][0][1]):
                self.cursor = self.cursor or it[2][0][1]
                if it[2][0][1] == self.cursor and self._pair_body(s.body, loopvar=i):
                    return ('fill', it[2][1])
                # rows cursor .. T written at the loop index, the cursor itself left behind (only sound as the last writes)
                top = [b for b in s.body if self._is_store(b)]
                others = [x for x in ast.walk(s) if (self._is_store(x) and x not in top) or (self._is_advance(x) and x.target.id == self.cursor) or isinstance(x, (ast.Continue, ast.Break))]
                if it[2][0][1] == self.cursor and len(top) == 1 and not others and isinstance(top[0].targets[0].slice, ast.Name) and top[0].targets[0].slice.id == i:
                    return ('fill-stale', it[2][1])
                if it[2][0][1] == self.cursor and any(self._is_store(x) for x in ast.walk(s)):
                    return ('bad', 'C19.1b', f'the loop over range({self.cursor}, ...) must store exactly one row at the cursor and advance it once per iteration')
            # any other `for i in range(A, B): X[i] = v`: rows [A, B) are written
            if it[0] == 'call' and it[1] == ('name', 'range') and len(it[2]) in (1, 2):
                top = [b for b in s.body if self._is_store(b)]
                others = [x for x in ast.walk(s) if (self._is_store(x) and x not in top) or isinstance(x, (ast.Continue, ast.Break))]
                if len(top) == 1 and not others and isinstance(top[0].targets[0].slice, ast.Name) and top[0].targets[0].slice.id == i:
                    A = it[2][0] if len(it[2]) == 2 else ('num', 0)
                    B = it[2][-1]
                    c = self.cursor
                    if c and any(x == ('name', c) for x in walk_term(A)):
                        return ('bad', 'C19.1d', f'the rows are filled from {show(A)} although the rows up to the cursor `{c}` (exclusive) are the written ones: the rows in between are skipped or written twice')
                    if A == ('num', 0):
                        return ('prefix', B)
        if isinstance(s, ast.While) and not s.orelse:
            t = term_of(fn, s.test, inline=False)
            if t[0] == 'cmp' and t[1] == '<' and t[2][0] == 'name' and self._cursor_candidate(t[2][1]):
                self.cursor = self.cursor or t[2][1]
                if t[2][1] == self.cursor and self._pair_body(s.body):
                    return ('fill', t[3])
                if t[2][1] == self.cursor and any(self._is_store(x) for x in ast.walk(s)):
                    return ('bad', 'C19.1b', f'the loop `while {self.cursor} < ...` must store exactly one row at the cursor and advance it once per iteration')
        return ('other',)

    def at_exit(self, st, node):
        self.exits.append((node, dict(st)))

    def check(self):
        chk, fn = self.chk, self.fn
        self.exits = []
        st = self.run(fn.node.body, {'closed': False, 'init': False, 'fill': None, 'wrote': False})
        if not st.get('dead'):
            self.at_exit(st, fn.node)
        for oid, node, why in self.bad:
            if self.unknown:
                # the abstract state was lost at a statement the interpreter does not model: what it reports after that is not a finding
                chk.unsure(oid, 'R4', fn.site(node), ast.unparse(node).replace('\n', ' ')[:100], 'not decided (the row-coverage state was lost at an unmodelled statement earlier in the function); the rule would otherwise report: ' + why)
            else:
                chk.bad(oid, 'R4', fn.site(node), ast.unparse(node).replace('\n', ' ')[:100], why)
        for node, why in self.unknown:
            chk.unsure('C19.1a', 'R4', fn.site(node), ast.unparse(node).replace('\n', ' ')[:100], why)
        if not self.bad and not self.unknown:
            chk.ok('C19.1a', 'R4', fn.site(), f'row stores of `{self.X}`' + (f' (cursor `{self.cursor}`)' if self.cursor else ''), 'every store writes one whole row, at the cursor (advanced once per row) or at the index of a full-range loop')
            chk.ok('C19.1b', 'R4', fn.site(), f'cursor `{self.cursor}`', 'the cursor starts at 0 and advances exactly once per row written')
        open_exits = [(n, s_) for n, s_ in self.exits if not s_['closed']]
        if open_exits and not self.unknown:
            n = open_exits[0][0]
            chk.bad('C19.1d', 'R4', fn.site(n) if not isinstance(n, ast.FunctionDef) else fn.site(), ast.unparse(n)[:80] if not isinstance(n, ast.FunctionDef) else 'end of generate_data',
                    'the function can return before every row range(n_features) of the uninitialised matrix is written (no full-range loop and no fill of range(cursor, n_features) on this path): the remaining rows hold uninitialised memory')
        elif not open_exits and self.exits:
            chk.ok('C19.1c', 'R4', fn.site(), f'{len(self.exits)} exit(s)', 'on every path all rows range(n_features) are written before the matrix is returned')
            chk.ok('C19.1d', 'R4', fn.site(), f'{len(self.exits)} exit(s)', 'rows after the last structured feature are filled')
        # 2 placement: each structured feature is stored right after the rows up to its declared index were filled
        chk.require_count('structured feature stores', len(self.placed), 1)
        for node, fill, lvar in self.placed:
            names = {x[1] for x in walk_term(fill) if isinstance(x, tuple) and len(x) == 2 and x[0] == 'name'} if fill is not None else set()
            if fill is not None and lvar is not None and fill != ('name', lvar) and names and names <= self.derived and not self.unknown:
                chk.bad('C19.2', 'R1', fn.site(node), f'{ast.unparse(node)[:60]} after filling up to {show(fill)[:40]}', f'inside the loop over the indexes of a structure entry (`for {lvar} in ...`) the rows are filled up to {show(fill)[:40]}, '
                        f'not up to the index `{lvar}` of the feature that is being placed: every member after the first lands right behind the previous one instead of at its declared column')
                continue
            if fill is None and self.unknown:
                chk.unsure('C19.2', 'R1', fn.site(node), ast.unparse(node)[:100], 'whether the rows up to the declared index were filled before this store is not decided (the row-coverage state was lost at an unmodelled statement)')
            elif fill is None:
                chk.bad('C19.2', 'R1', fn.site(node), ast.unparse(node)[:100], f'the structured feature is stored at the cursor without first filling the rows up to its declared index in the same iteration: features of a structure entry do not land at their declared column positions')
            elif names and names <= self.derived:
                chk.ok('C19.2', 'R1', fn.site(node), f'{ast.unparse(node)[:60]} after filling up to {show(fill)[:40]}', 'default features are generated up to the declared index before the structured feature is stored (so it sits at its declared column)')
            else:
                chk.unsure('C19.2', 'R1', fn.site(node), f'{ast.unparse(node)[:60]} after filling up to {show(fill)[:40]}', 'the index the rows are filled up to is not visibly the index declared by the structure entry')


def matrix(repo, chk):
    fn = repo.func(CC, f'{CLS}.generate_data')
    m = fn.module
    par = parents(fn.node)
    E = lambda s: expected_term(m, s)
    allocs = [n for n in own_nodes(fn.node) if isinstance(n, ast.Assign) and isinstance(n.value, ast.Call) and m.dotted(n.value.func) in ('numpy.empty', 'numpy.zeros') and isinstance(n.targets[0], ast.Name)]
    if len(allocs) != 1:
        chk.unsure('C19.1', 'R4', fn.site(), 'X = np.empty([n_features, n_samples], dtype=int32)', f'{len(allocs)} matrix allocations')
        return
    al = allocs[0]
    X = al.targets[0].id
    shape = term_of(fn, al.value.args[0], inline=False)
    dt = next((k.value for k in al.value.keywords if k.arg == 'dtype'), None)
    ok_shape = shape in (E('[n_features, n_samples]'), E('(n_features, n_samples)'))
    ok_dt = dt is not None and ast.unparse(dt) in ("'int32'", 'np.int32', 'numpy.int32')
    chk.expect(ok_shape and ok_dt, 'C19.3a', 'R8', fn.site(al), ast.unparse(al), 'matrix of n_features x n_samples 32-bit integers', 'the matrix must be allocated as [n_features, n_samples] with dtype int32')
    rets = returns(fn)
    chk.expect(len(rets) >= 1 and all(r.value is not None and ast.unparse(r.value) in (f'{X}.T', f'{X}.transpose()', f'np.transpose({X})') for r in rets), 'C19.3b', 'R8', fn.site(rets[0]) if rets else fn.site(), ast.unparse(rets[0]) if rets else '', 'the data set is the transpose (n_samples x n_features)', 'generate_data must return X.T')
    zero_init = m.dotted(al.value.func) == 'numpy.zeros'
    cov = RowCoverage(fn, X, chk)
    cov.check()
    # 6 seed dominates draws
    seeds = [c for c in calls(fn, dotted='numpy.random.seed')]
    gens = [c for c in own_nodes(fn.node) if _is_gen_call(c)]
    guard = par.get(par.get(seeds[0])) if seeds else None
    # `if seed is not None: np.random.seed(seed)`: every seed that is given is applied (None, which names no seed, is the only value skipped)
    none_guard = isinstance(guard, ast.If) and not guard.orelse and term_of(fn, guard.test, inline=False) in (E('seed is not None'), E('seed != None')) and isinstance(par.get(guard), ast.FunctionDef)
    if seeds and isinstance(guard, ast.If) and term_of(fn, guard.test, inline=False) in (E('seed'), E('bool(seed)'), E('seed > 0'), E('seed != 0')) and ast.unparse(seeds[0].args[0]) == 'seed':
        chk.bad('C19.6', 'R10', fn.site(guard), ast.unparse(guard.test)[:80], 'the generator is re-seeded only when the seed is truthy / positive: seed=0 is a seed like any other and is silently not applied, so two calls with '
                'seed=0 continue whatever stream was left behind and produce different data')
        ok_seed = True
    else:
        ok_seed = len(seeds) == 1 and ast.unparse(seeds[0].args[0]) == 'seed' and all(seeds[0].lineno < g.lineno for g in gens) and (none_guard or not isinstance(guard, (ast.If, ast.For)))
    chk.expect(ok_seed, 'C19.6', 'R10', fn.site(seeds[0]) if seeds else fn.site(), ast.unparse(seeds[0]) if seeds else 'np.random.seed(seed)', 'np.random.seed(seed) precedes every draw of generate_data, unconditionally', 'generate_data must call np.random.seed(seed) unconditionally before the first feature is drawn')
    # every draw of the generator comes from numpy's global generator (the one np.random.seed(seed) seeds): no other entropy source in the class
    other = [(f, c) for f in m.funcs.values() for c in calls(f) if (m.dotted(c.func) or '').startswith(('time.', 'os.urandom', 'secrets.', 'random.', 'uuid.', 'numpy.random.default_rng', 'numpy.random.RandomState', 'numpy.random.Generator'))]
    chk.expect(not other, 'C19.6b', 'R10', other[0][0].site(other[0][1]) if other else fn.site(), ast.unparse(other[0][1])[:100] if other else 'no other entropy source', 'no other entropy source in the generator module',
               'a draw comes from an entropy source that np.random.seed(seed) does not seed: the data set is no longer a function of the seed')


def feature(repo, chk):
    """_generate_feature evaluated path by path (forking on its configuration tests).  Per path the returned vector is one expression over the
    parameters: it must be drawn from the domain the configuration names (4c), hold nothing but domain values (4a), be only shuffled afterwards
    (4b), be int32 (3c), and hold every domain value when representation is requested and the sample count allows it (5)."""
    from ..match import run_paths, within_vocabulary
    from ..terms import pattern, unify, walk_term
    fn = repo.func(CC, f'{CLS}._generate_feature')
    m = fn.module
    P = lambda src, holes=(): pattern(m, src, holes)
    E = lambda s_: expected_term(m, s_)
    paths = run_paths(fn, None, None, max_forks=6)
    if paths is None:
        chk.unsure('C19.4', 'R15', fn.site(), '_generate_feature', 'too many tests to fork on')
        return
    cn = Canon(m, Scope(None))
    atoms = {'vec_none': E('vec is None'), 'random': E('random_values'), 'p_none': E('p is None'), 'rep': E('ensure_rep')}
    oks = {k: 0 for k in ('C19.3c', 'C19.4a', 'C19.4b', 'C19.4c', 'C19.4p', 'C19.5')}
    problems = {}
    unsure = {}
    seen_dom = set()
    n_paths = 0
    for assume, res in paths:
        desc = ', '.join(f'{ast.unparse(t)[:40]} is {v}' for t, v in res.assumed) or 'single path'
        if res.unknown is not None:
            unsure.setdefault('C19.4', (res.unknown, 'a statement of _generate_feature is outside the path vocabulary'))
            continue
        if res.returned is None:
            continue
        n_paths += 1
        val = {}
        fits = None      # truth of `len(domain) <= size` assumed on this path (domain term compared later)
        fit_terms = []
        for t, v in res.assumed:
            tt = term_of(fn, t, inline=False)
            hit = False
            for k, atom in atoms.items():
                if tt == atom:
                    val[k], hit = v, True
                elif cn._not(tt) == atom:
                    val[k], hit = (not v), True
            if not hit:
                fit_terms.append((tt, v, t))
        site = fn.site(res.returned) if hasattr(res.returned, 'lineno') else fn.site()
        rt = term_of(fn, res.returned, inline=False)
        b0 = unify(P("X.astype('int32')", ['X']), rt) or unify(P('X.astype(numpy.int32)', ['X']), rt)
        if b0 is None:
            problems.setdefault('C19.3c', (site, desc, "_generate_feature must return <drawn values>.astype('int32')", rt, [P("X.astype('int32')", ['X'])]))
            continue
        oks['C19.3c'] += 1
        X = b0['X']
        b1 = unify(P('numpy.random.choice(D, size=S, p=W)', ['D', 'S', 'W']), X)
        b2 = unify(P('numpy.append(numpy.random.choice(D, size=S, p=W), D2)', ['D', 'S', 'W', 'D2']), X) \
            or unify(P('numpy.concatenate((numpy.random.choice(D, size=S, p=W), D2))', ['D', 'S', 'W', 'D2']), X) \
            or unify(P('numpy.concatenate([numpy.random.choice(D, size=S, p=W), D2])', ['D', 'S', 'W', 'D2']), X) \
            or unify(P('numpy.hstack((numpy.random.choice(D, size=S, p=W), D2))', ['D', 'S', 'W', 'D2']), X)
        bb = b1 or b2
        if bb is None:
            draws = [x for x in walk_term(X) if isinstance(x, tuple) and x[:2] == ('call', ('lib', 'numpy.random.choice'))]
            accepted = [P('numpy.append(numpy.random.choice(D, size=S, p=W), D)', []), P('numpy.random.choice(D, size=S, p=W)', [])]
            if within_vocabulary(X, accepted):
                problems.setdefault('C19.4a', (site, desc, f'a value of the feature does not originate from np.random.choice(domain, ...) or the domain itself: the feature can leave its declared domain; found {show(X)[:160]}'))
            else:
                unsure.setdefault('C19.4a', (res.returned if hasattr(res.returned, 'lineno') else fn.node, f'the returned vector is built with operations outside the vocabulary of the accepted forms: {show(X)[:160]}'))
            continue
        D, S, W = bb['D'], bb['S'], bb['W']
        if b2 is not None and b1 is None and bb['D2'] != D:
            problems.setdefault('C19.4a', (site, desc, f'the values appended to the draw are not the domain the draw was taken from: {show(bb["D2"])[:80]} vs {show(D)[:80]}'))
            continue
        oks['C19.4a'] += 1
        # 4b: nothing but a shuffle touches the drawn values
        touched = [c for c in res.calls if not (m.dotted(c['call'].func) in ('numpy.random.shuffle',) and len(c['call'].args) == 1)]
        touched = [c for c in touched if any(isinstance(x, ast.Name) for x in ast.walk(c['call']))]
        if touched or res.updates:
            nd = (touched[0]['node'] if touched else res.updates[0]['node'])
            problems.setdefault('C19.4b', (fn.site(nd), ast.unparse(nd)[:100], 'drawn values are modified after the draw'))
        else:
            oks['C19.4b'] += 1
        # 4c: the domain named by the configuration
        if val.get('vec_none') is True and val.get('random') is True:
            want_d, label = [E('numpy.random.choice(range(low, high + 1), size=cardinality, replace=False)'), E('numpy.random.choice(numpy.arange(low, high + 1), size=cardinality, replace=False)')], 'random draw from [low, high]'
        elif val.get('vec_none') is True and val.get('random') is False:
            want_d, label = [E('numpy.arange(low, low + cardinality, 1)'), E('numpy.arange(low, low + cardinality)')], 'default range [low, low + cardinality)'
        elif val.get('vec_none') is False:
            want_d, label = [E('numpy.array(vec)'), E('numpy.asarray(vec)')], 'given list'
        else:
            want_d, label = None, None
        if want_d is None:
            unsure.setdefault('C19.4c', (res.returned if hasattr(res.returned, 'lineno') else fn.node, f'the path does not say which domain applies ({desc})'))
        elif D in want_d:
            oks['C19.4c'] += 1
            seen_dom.add(label)
        elif label == 'random draw from [low, high]' and any(isinstance(x, tuple) and len(x) == 4 and x[0] == 'call' and x[1] in (('lib', 'numpy.random.randint'), ('lib', 'numpy.random.random_integers'), ('lib', 'random.choices'))
                                                             for x in walk_term(D)) or (label == 'random draw from [low, high]' and any(isinstance(x, tuple) and len(x) == 4 and x[0] == 'call' and x[1] == ('lib', 'numpy.random.choice')
                                                             and not any(k_ == ('replace', ('bool', False)) for k_ in x[3]) for x in walk_term(D))):
            problems.setdefault('C19.4c', (site, f'{desc}: domain = {show(D)[:120]}', 'the random domain is drawn WITH replacement (randint / choice without replace=False): it can contain the same value several times, so the feature '
                                                 'has fewer distinct values than the requested cardinality (and "every domain value occurs" counts duplicates)'))
        elif within_vocabulary(D, want_d):
            problems.setdefault('C19.4c', (site, f'{desc}: domain = {show(D)[:120]}', f'domain construction `{label}` must be {show(want_d[0])[:100]}; found {show(D)[:140]}'))
        else:
            unsure.setdefault('C19.4c', (res.returned if hasattr(res.returned, 'lineno') else fn.node, f'the domain on the path ({desc}) is built with operations outside the vocabulary of the accepted forms: {show(D)[:140]}'))
        # 5: representation
        lenD = ('call', ('name', 'len'), (D,), ())
        fit_atom = ('cmp', '<=', lenD, ('name', 'size'))
        rest_t = Canon(m, Scope(None), inline=False, bound={'LEN': lenD}).t(ast.parse('size - LEN', mode='eval').body)
        same_as_fit = {('cmp', '<=', ('num', 0), rest_t), ('cmp', '>=', rest_t, ('num', 0)), ('cmp', '>=', ('name', 'size'), lenD)}
        opposite = {('cmp', '<', rest_t, ('num', 0)), ('cmp', '>', ('num', 0), rest_t), ('cmp', '<', ('name', 'size'), lenD), ('cmp', '>', lenD, ('name', 'size'))}

        def _fitnorm(t):
            if t in same_as_fit:
                return fit_atom
            if t in opposite:
                return cn._not(fit_atom)
            if isinstance(t, tuple) and t and t[0] in ('and', 'or') and isinstance(t[1], tuple):
                return (t[0], tuple(sorted((_fitnorm(x) for x in t[1]), key=repr)))
            return t
        fit_terms = [(_fitnorm(tt), v, t_ast) for tt, v, t_ast in fit_terms]
        for tt, v, t_ast in fit_terms:
            if tt == fit_atom:
                fits = v
            elif cn._not(tt) == fit_atom:
                fits = not v
            elif tt[0] == 'and' and set(tt[1]) == {fit_atom, atoms['rep']}:
                # the whole condition bound to one flag
                if v:
                    fits, val['rep'] = True, True
                elif val.get('rep') is True:
                    fits = False
                else:
                    val.setdefault('rep_and_fit', False)
            elif tt[0] == 'or' and set(tt[1]) == {cn._not(fit_atom), cn._not(atoms['rep'])}:
                if not v:
                    fits, val['rep'] = True, True
                else:
                    val.setdefault('rep_and_fit', False)
            elif tt[0] == 'cmp' and any(x == lenD for x in walk_term(tt)) and any(x == ('name', 'size') for x in walk_term(tt)):
                # another comparison of the domain size with the sample count: where the boundary is matters
                problems.setdefault('C19.5', (fn.site(t_ast), ast.unparse(t_ast)[:100], 'representation must be enforced whenever len(domain) <= size (drawing size - len(domain) values and appending the whole domain): with another boundary the case n_samples == domain size is drawn at random and misses values'))
        size_full = S == ('name', 'size')
        size_rest = S == Canon(m, Scope(None), inline=False, bound={'LEN': lenD}).t(ast.parse('size - LEN', mode='eval').body)
        if val.get('rep') is True and fits is True:
            if b2 is not None and b1 is None and size_rest:
                oks['C19.5'] += 1
            else:
                problems.setdefault('C19.5', (site, f'{desc}: {show(X)[:120]}', 'with ensure_rep and len(domain) <= size the vector must be size - len(domain) draws followed by the whole domain (every value represented)'))
        elif val.get('rep') is False or fits is False or val.get('rep_and_fit') is False:
            if b1 is not None and size_full:
                oks['C19.5'] += 1
            elif b2 is not None and b1 is None:
                oks['C19.5'] += 1       # representing every value although not requested still yields a vector over the domain
                if not size_rest:
                    problems.setdefault('C19.3d', (site, f'{desc}: {show(X)[:120]}', 'the feature vector must have exactly `size` entries'))
            else:
                problems.setdefault('C19.3d', (site, f'{desc}: size={show(S)[:60]}', 'the feature vector must have exactly `size` entries'))
        elif val.get('rep') is True and fits is None and b2 is not None and b1 is None:
            problems.setdefault('C19.5', (site, desc, 'the whole domain is appended without testing that it fits into the sample count: with len(domain) > size the draw size is negative'))
        # weights
        if val.get('p_none') is True:
            wt = [P('W0 / W0.sum()', ['W0']), P('W0 / numpy.sum(W0)', ['W0'])]
            bw = next((x for x in (unify(w_, W) for w_ in wt) if x is not None), None)
            if bw is not None:
                oks['C19.4p'] += 1
    if n_paths == 0 and not unsure:
        chk.unsure('C19.4', 'R15', fn.site(), '_generate_feature', 'no path that returns a feature was evaluated')
    titles = {'C19.3c': 'features are returned as int32', 'C19.4a': 'every value of the feature comes from its domain', 'C19.4b': 'drawn values are only shuffled',
              'C19.4c': 'the domain is the one the configuration names (default range / random draw / given list)', 'C19.5': 'with ensure_rep every domain value is appended whenever the sample count allows (len(domain) <= size)'}
    for oid, (site, construct, why, *rest) in problems.items():
        if rest:
            chk.expect_term(rest[0], rest[1], oid, 'R15', site, construct, '', why)
        else:
            chk.bad(oid, 'R14' if oid == 'C19.5' else ('origin' if oid in ('C19.4a', 'C19.4b') else 'R15'), site, construct, why)
    for oid, (node, why) in unsure.items():
        if oid not in problems:
            chk.unsure(oid, 'R15', fn.site(node) if hasattr(node, 'lineno') else fn.site(), ast.unparse(node)[:100] if not isinstance(node, ast.FunctionDef) else '_generate_feature', why)
    for oid, title in titles.items():
        if oid not in problems and oid not in unsure and oks.get(oid):
            chk.ok(oid, 'R15', fn.site(), f'{oks[oid]} path(s)', title, inspected=oks[oid])
    if 'C19.4c' not in problems and 'C19.4c' not in unsure and 'C19.4' not in unsure:
        chk.expect(seen_dom >= {'random draw from [low, high]', 'default range [low, low + cardinality)', 'given list'}, 'C19.4d', 'R7', fn.site(), ', '.join(sorted(seen_dom)), 'all three ways of naming a domain are served', 'a way of naming the domain (default range / random draw / given list) is no longer served', soft=True)


def _threshold_table(fn, m, S, T, tdef):
    """('ok',) / ('bad', why, node) / ('unsure', why, node): the statements after `T = S[:, 30]` applied to every value 10..99"""
    if tdef is None:
        return ('unsure', 'the needle column is not taken as sample[:, 30]', None)
    dom = list(range(10, 100))
    cur = {v: v for v in dom}
    env = {}

    class Out(Exception):
        pass

    def mask(e):
        if isinstance(e, ast.Name) and e.id in env:
            return env[e.id]
        if isinstance(e, ast.UnaryOp) and isinstance(e.op, (ast.Invert, ast.Not)):
            mm = mask(e.operand)
            return {v: not mm[v] for v in dom}
        if isinstance(e, ast.BinOp) and isinstance(e.op, (ast.BitAnd, ast.BitOr)):
            a, b = mask(e.left), mask(e.right)
            return {v: (a[v] and b[v]) if isinstance(e.op, ast.BitAnd) else (a[v] or b[v]) for v in dom}
        if isinstance(e, ast.Call) and m.dotted(e.func) == 'numpy.logical_not' and len(e.args) == 1:
            mm = mask(e.args[0])
            return {v: not mm[v] for v in dom}
        if isinstance(e, ast.Compare) and len(e.ops) == 1:
            l, r, op = e.left, e.comparators[0], e.ops[0]
            fns = {ast.Lt: lambda a, b: a < b, ast.LtE: lambda a, b: a <= b, ast.Gt: lambda a, b: a > b, ast.GtE: lambda a, b: a >= b, ast.Eq: lambda a, b: a == b, ast.NotEq: lambda a, b: a != b}
            if type(op) not in fns:
                raise Out(ast.unparse(e))
            f = fns[type(op)]
            if isinstance(l, ast.Name) and l.id == T and isinstance(r, ast.Constant) and isinstance(r.value, (int, float)):
                return {v: f(cur[v], r.value) for v in dom}
            if isinstance(r, ast.Name) and r.id == T and isinstance(l, ast.Constant) and isinstance(l.value, (int, float)):
                return {v: f(l.value, cur[v]) for v in dom}
        raise Out(ast.unparse(e))

    def const(e):
        if isinstance(e, ast.Constant) and isinstance(e.value, (int, float)) and not isinstance(e.value, bool):
            return e.value
        raise Out(ast.unparse(e))
    started = False
    for st in fn.node.body:
        if st is tdef:
            started = True
            continue
        if not started or isinstance(st, (ast.Return, ast.Pass)) or (isinstance(st, ast.Expr) and isinstance(st.value, ast.Constant)):
            continue
        try:
            if isinstance(st, ast.Assign) and len(st.targets) == 1 and isinstance(st.targets[0], ast.Name) and st.targets[0].id not in (S, T):
                names = {x.id for x in ast.walk(st.value) if isinstance(x, ast.Name)}
                if T in names or names & set(env):
                    env[st.targets[0].id] = mask(st.value)
                continue
            if isinstance(st, ast.Assign) and len(st.targets) == 1 and isinstance(st.targets[0], ast.Subscript) and isinstance(st.targets[0].value, ast.Name) and st.targets[0].value.id == T:
                sl = st.targets[0].slice
                if isinstance(sl, ast.Slice) and sl.lower is None and sl.upper is None and sl.step is None:
                    v_ = st.value
                    if isinstance(v_, ast.Call) and m.dotted(v_.func) == 'numpy.where' and len(v_.args) == 3:
                        mm, a, b = mask(v_.args[0]), const(v_.args[1]), const(v_.args[2])
                        cur = {v: (a if mm[v] else b) for v in dom}
                        continue
                    raise Out(ast.unparse(st))
                mm = mask(sl)
                c = const(st.value)
                cur = {v: (c if mm[v] else cur[v]) for v in dom}
                continue
            if any(isinstance(x, ast.Name) and x.id in (S, T) for x in ast.walk(st)):
                raise Out(ast.unparse(st)[:80])
        except Out as e:
            return ('unsure', str(e)[:100], st)
    wrong = [v for v in dom if cur[v] != (0 if v < 40 else 1)]
    if wrong:
        v = wrong[0]
        return ('bad', f'a needle value of {v} gets the label {cur[v]} instead of {0 if v < 40 else 1}' + (f' ({len(wrong)} of the 90 possible values are labelled differently)' if len(wrong) > 1 else ''), None)
    return ('ok',)


def configure(repo, chk):
    """C19.8 - the structure entry reaches the feature generator in its roles.  _configure_generate_feature is evaluated path by path; on each path
    what is returned must be one call of _generate_feature whose parameters (positional arguments resolved to their names) receive: the sample
    count as size; for a plain cardinality: cardinality and the data-set wide options; for [values, frequencies]: vec and p; for a value list:
    vec and k; and ensure_rep on every path.  In addition (whole class): an argument that is a plain name equal to a parameter name of the callee
    must be bound to that parameter."""
    from ..match import run_paths, bind_args
    fn = repo.func(CC, f'{CLS}._configure_generate_feature')
    gen = repo.func(CC, f'{CLS}._generate_feature')
    m = fn.module
    ps = [q for q in fn.params if q != 'self']
    fa, ns = ps[0], ps[1]
    E = lambda s_: expected_term(m, s_)
    cn = Canon(m, Scope(None))
    a_list = E(f'isinstance({fa}, (list, numpy.ndarray))')
    b_list = E(f'isinstance({fa}[0], (list, numpy.ndarray))')
    paths = run_paths(fn, None, None, max_forks=4)
    if paths is None:
        chk.unsure('C19.8', 'R6', fn.site(), '_configure_generate_feature', 'too many tests to fork on')
        paths = []
    n_ok = 0
    for assume, res in paths:
        desc = ', '.join(f'{ast.unparse(t)[:50]} is {v}' for t, v in res.assumed) or 'single path'
        if res.unknown is not None or res.returned is None:
            chk.unsure('C19.8', 'R6', fn.site(res.unknown) if res.unknown is not None else fn.site(), desc, 'a path of _configure_generate_feature could not be evaluated')
            continue
        val = {}
        for t, v in res.assumed:
            tt = term_of(fn, t, inline=False)
            for k_, atom in (('A', a_list), ('B', b_list)):
                if tt == atom:
                    val[k_] = v
                elif cn._not(tt) == atom:
                    val[k_] = not v
        call = res.returned
        site = fn.site(call) if hasattr(call, 'lineno') else fn.site()
        if not (isinstance(call, ast.Call) and isinstance(call.func, ast.Attribute) and call.func.attr == '_generate_feature'):
            chk.unsure('C19.8', 'R6', site, f'{desc}: {ast.unparse(call)[:80]}', 'the value returned is not one call of _generate_feature')
            continue
        ba = {k_: term_of(fn, v, inline=False) for k_, v in bind_args(call, gen, skip_self=True).items()}
        gp = [q for q in gen.params if q != 'self']
        same = lambda name: E(name)
        if val.get('A') is False:
            need = {gp[0]: E(ns), 'cardinality': E(fa), 'ensure_rep': same('ensure_rep'), 'random_values': same('random_values'), 'low': same('low'), 'high': same('high'), 'k': same('k')}
            kind = 'a plain cardinality'
        elif val.get('A') is True and val.get('B') is True:
            need = {gp[0]: E(ns), 'vec': E(f'{fa}[0]'), 'ensure_rep': same('ensure_rep'), 'p': E(f'{fa}[1]')}
            kind = '[values, frequencies]'
        elif val.get('A') is True and val.get('B') is False:
            need = {gp[0]: E(ns), 'vec': E(fa), 'ensure_rep': same('ensure_rep'), 'k': same('k')}
            kind = 'a value list'
        else:
            chk.unsure('C19.8', 'R6', site, desc, 'the path does not say which kind of structure entry it serves')
            continue
        wrong = [(k_, ba.get(k_)) for k_, w in need.items() if ba.get(k_) != w]
        # a flag that is False on this path and left to its default False arrives as it should
        gargs = gen.node.args
        gdef = dict(zip([a_.arg for a_ in gargs.args][len(gargs.args) - len(gargs.defaults):], gargs.defaults))
        flags_here = {t.id: v for t, v in res.assumed if isinstance(t, ast.Name)}
        wrong = [(k_, g) for k_, g in wrong if not (g is None and k_ in flags_here and isinstance(gdef.get(k_), ast.Constant) and isinstance(gdef[k_].value, bool)
                                                     and gdef[k_].value == flags_here[k_] and need.get(k_) == E(k_))]
        if kind == 'a value list' and ba.get('p') not in (None, ('none',)):
            wrong.append(('p', ba.get('p')))
        known_table = lambda v: isinstance(v, ast.Dict) and v.keys and all(isinstance(q, ast.Constant) and isinstance(q.value, str) for q in v.keys)
        if wrong and (any(k.arg is None and not known_table(k.value) for k in call.keywords) or any(isinstance(a_, ast.Starred) for a_ in call.args)):
            # **table / *sequence in the call: which parameter receives what is not visible at the call site
            chk.unsure('C19.8', 'R6', site, f'{desc}: {ast.unparse(call)[:120]}', f'_generate_feature is called with a ** / * expansion: the value that reaches `{wrong[0][0]}` is not decided')
        elif wrong:
            k_, got = wrong[0]
            chk.bad('C19.8', 'R6', site, f'{desc}: {ast.unparse(call)[:120]}', f'for {kind} the parameter `{k_}` of _generate_feature must receive {show(need.get(k_, ("none",)))[:40]}; it receives {show(got)[:60] if got is not None else "nothing (its default)"}')
        else:
            n_ok += 1
    if n_ok:
        chk.ok('C19.8', 'R6', fn.site(), f'{n_ok} path(s)', 'every kind of structure entry reaches _generate_feature in its roles (size, cardinality / vec, p, k, ensure_rep)', inspected=n_ok)
    # whole class: an argument named like a parameter of the callee is bound to that parameter
    cls_funcs = {q.split('.')[-1]: f for q, f in m.funcs.items() if q.startswith(CLS + '.') and q.count('.') == 1}
    n_calls = 0
    for f in cls_funcs.values():
        for c in calls(f):
            if isinstance(c.func, ast.Attribute) and isinstance(c.func.value, ast.Name) and c.func.value.id == 'self' and c.func.attr in cls_funcs:
                callee = cls_funcs[c.func.attr]
                cps = [q for q in callee.params if q != 'self']
                n_calls += 1
                for pname, a in bind_args(c, callee, skip_self=True).items():
                    if isinstance(a, ast.Name) and a.id in cps and a.id != pname and pname in cps:
                        chk.bad('C19.8b', 'R6', f.site(c), ast.unparse(c).replace('\n', ' ')[:120], f'the argument `{a.id}` is bound to the parameter `{pname}` of {callee.name} although {callee.name} has a parameter `{a.id}` of its own: the value reaches the wrong role (and `{a.id}` keeps its default)')
    # the data-set wide options of generate_data reach the feature generators: confirmed table of what each call forwards (k is not forwarded to
    # _configure_generate_feature on the confirmed tree either)
    FORWARDED = {'_configure_generate_feature': ('ensure_rep', 'random_values', 'low', 'high'), '_generate_feature': ('cardinality', 'ensure_rep', 'random_values', 'low', 'high', 'k')}
    gd = cls_funcs.get('generate_data')
    if gd is not None:
        from .common import param_deps
        n_fw = 0
        for c in calls(gd):
            if not (isinstance(c.func, ast.Attribute) and isinstance(c.func.value, ast.Name) and c.func.value.id == 'self' and c.func.attr in FORWARDED and c.func.attr in cls_funcs):
                continue
            if any(k.arg is None for k in c.keywords) or any(isinstance(a_, ast.Starred) for a_ in c.args):
                chk.unsure('C19.8c', 'R6', gd.site(c), ast.unparse(c).replace('\n', ' ')[:120], 'the options are handed over through a * / ** expansion that was not resolved')
                continue
            ba = bind_args(c, cls_funcs[c.func.attr], skip_self=True)
            for opt in FORWARDED[c.func.attr]:
                if opt not in gd.params:
                    continue
                n_fw += 1
                got = ba.get(opt)
                if got is None:
                    chk.bad('C19.8c', 'R6', gd.site(c), ast.unparse(c).replace('\n', ' ')[:120], f'generate_data does not hand its option `{opt}` to {c.func.attr}: the default of {c.func.attr} applies to these features '
                            f'whatever the caller asked for (e.g. structured features ignore `{opt}`)')
                elif opt not in param_deps(gd, got):
                    chk.bad('C19.8c', 'R6', gd.site(c), ast.unparse(c).replace('\n', ' ')[:120], f'the parameter `{opt}` of {c.func.attr} receives `{ast.unparse(got)[:40]}`, not the option `{opt}` of generate_data')
        if n_fw and not any(o.oid == 'C19.8c' for o in chk.obs):
            chk.ok('C19.8c', 'R6', gd.site(), f'{n_fw} option bindings at the generator calls of generate_data', 'every data-set wide option reaches the feature generators')
    chk.analysed['generator_internal_calls'] = n_calls
    if not any(o.oid == 'C19.8b' for o in chk.obs):
        chk.ok('C19.8b', 'R6', m.relpath, f'{n_calls} calls between methods of {CLS}', 'no argument is bound to a parameter other than the one it is named after')


def naive(repo, chk):
    fn = repo.func(GN, 'generate_random_matrix')
    m = fn.module
    E = lambda s: expected_term(m, s)
    nf, size = fn.params[:2]
    sd = [n for n in own_nodes(fn.node) if isinstance(n, ast.Assign) and isinstance(n.targets[0], ast.Name) and isinstance(n.value, ast.Call) and (m.dotted(n.value.func) or '').startswith('numpy.random.')]
    ok_s = len(sd) == 1 and term_of(fn, sd[0].value, inline=False) == E(f'numpy.random.randint(10, 100, size=({size}, {nf}))')
    chk.expect(ok_s, 'C19.7a', 'R15', fn.site(sd[0]) if sd else fn.site(), ast.unparse(sd[0]) if sd else '', 'sample is a size x num_features integer matrix', 'the sample must be np.random.randint(10, 100, size=(size, num_features))')
    S = sd[0].targets[0].id if sd else 'sample'
    td = [n for n in own_nodes(fn.node) if isinstance(n, ast.Assign) and isinstance(n.targets[0], ast.Name) and n.targets[0].id != S and isinstance(n.value, ast.Subscript)]
    ok_t = len(td) == 1 and ast.unparse(td[0].value) in (f'{S}[:, 30]', f'{S}[:, 30].copy()')
    T = td[0].targets[0].id if td else 'target'
    thr = [n for n in own_nodes(fn.node) if isinstance(n, ast.Assign) and isinstance(n.targets[0], ast.Subscript) and isinstance(n.targets[0].value, ast.Name) and n.targets[0].value.id == T]
    got_thr = sorted((repr(term_of(fn, x.targets[0].slice, inline=False)), ast.unparse(x.value)) for x in thr)
    ok_thr = got_thr == sorted([(repr(E(f'{T} < 40')), '0'), (repr(E(f'{T} > 39')), '1')])
    others = [n for n in own_nodes(fn.node) if isinstance(n, ast.Call) and (m.dotted(n.func) or '').startswith('numpy.random.') and n is not (sd[0].value if sd else None)
              and not ((m.dotted(n.func) or '') == 'numpy.random.seed' and sd and n.lineno < sd[0].lineno)]        # re-seeding before the sample is not a draw
    for o_ in others:
        chk.bad('C19.7b', 'R10', fn.site(o_), ast.unparse(o_)[:100], 'the naive generator draws further random numbers after the sample: the label is no longer a deterministic function of the needle column alone')
    # the thresholding decided over the value domain of the sample (integers 10..99): the masked stores are applied, in program order, to every
    # possible value of the needle column; the result must be 0 below 40 and 1 from 40
    verdict = _threshold_table(fn, m, S, T, td[0] if ok_t else None)
    shown = '; '.join(ast.unparse(x) for x in td + thr)[:160]
    if not ok_t:
        chk.expect(False, 'C19.7b', 'R15', fn.site(td[0]) if td else fn.site(), shown, '', 'the label must be column 30 of the sample thresholded at 40 (0 below, 1 from 40), with no further randomness', soft=True)
    elif verdict[0] == 'ok':
        chk.ok('C19.7b', 'R15', fn.site(td[0]), shown, 'the label is a deterministic step function of the needle column 30 alone: 0 below 40, 1 from 40 (checked for every value 10..99 of the sample)')
    elif verdict[0] == 'bad':
        chk.bad('C19.7b', 'R15', fn.site(verdict[2]) if verdict[2] is not None else fn.site(td[0]), shown, f'the label must be column 30 of the sample thresholded at 40 (0 below, 1 from 40): {verdict[1]}')
    else:
        chk.unsure('C19.7b', 'R15', fn.site(verdict[2]) if verdict[2] is not None else fn.site(td[0]), shown, f'the statements that binarise the needle column are outside the vocabulary of masked stores: {verdict[1]}')
    r = returns(fn)
    chk.expect(len(r) == 1 and ast.unparse(r[0].value) == f'({S}, {T})', 'C19.7c', 'R6', fn.site(r[0]) if r else fn.site(), ast.unparse(r[0]) if r else '', 'returns (sample, target)', 'must return (sample, target)')
    mseed = [s for s in m.tree.body if isinstance(s, ast.Expr) and isinstance(s.value, ast.Call) and m.dotted(s.value.func) == 'numpy.random.seed' and s.value.args and isinstance(s.value.args[0], ast.Constant)]
    chk.expect(bool(mseed), 'C19.7d', 'R10', m.relpath, ast.unparse(mseed[0]) if mseed else 'np.random.seed(<const>)', 'the naive generator is seeded with a constant at import', 'the naive generator module must seed NumPy with a constant')
    # CSV emission
    tg = repo.func(TG, 'outrank_task_generate_data_set')
    # path evaluation of the task for the naive generator: the frame that is written, its column labels and the label column
    from ..match import run_paths
    from ..terms import pattern, unify
    a0 = tg.params[0]
    tpaths = run_paths(tg, lambda e: isinstance(e, ast.Attribute) and e.attr == 'generator_type', 'naive', max_forks=3)
    ok_c, c_unsure = False, None

    def cols_ok(ct):
        # [f'f{x}' for x in range(<number of columns of the sample / the frame>)]
        try:
            rng = ct[2][0][0]
            return ct[0] == 'listcomp' and ct[1] in (('fstr', (('str', 'f'), ('fmt', ('cvar', 0, 0)))), ('concat', (('str', 'f'), ('cvar', 0, 0)))) and len(ct[2]) == 1 and not ct[2][0][1] and rng[0] == 'call' and rng[1] == ('name', 'range') and len(rng[2]) == 1 \
                and rng[2][0][0] == 'sub' and rng[2][0][2] == ('num', 1) and rng[2][0][1][0] == 'attr' and rng[2][0][1][2] == 'shape'
        except (IndexError, TypeError):
            return False
    for assume, res in (tpaths or []):
        if res.unknown is not None:
            c_unsure = res.unknown
            continue
        wr = [c for c in res.calls if isinstance(c['call'].func, ast.Attribute) and c['call'].func.attr == 'to_csv' and 'data.csv' in ast.unparse(c['call'])]
        if not wr:
            continue
        call = wr[0]['call']
        idx_false = any(k.arg == 'index' and isinstance(k.value, ast.Constant) and k.value.value is False for k in call.keywords)
        # the receiver keeps its name when the frame was written to afterwards (frame['label'] = ...): look at how that name was built
        recv_node = wr[0]['node'].value.func.value
        frame_name = recv_node.id if isinstance(recv_node, ast.Name) else None
        defs = [n for n in own_nodes(tg.node) if isinstance(n, ast.Assign) and isinstance(n.targets[0], ast.Name) and n.targets[0].id == frame_name]
        gen = term_of(tg, ast.parse(f'{GN}.generate_random_matrix({a0}.num_synthetic_features, {a0}.num_synthetic_rows)', mode='eval').body, inline=False)
        S, T = ('sub', gen, ('num', 0)), ('sub', gen, ('num', 1))
        ft = term_of(tg, defs[0].value, inline=True) if len(defs) == 1 else None
        plain_ctor = ft is not None and unify(pattern(tg.module, 'pandas.DataFrame(SAMPLE)', ['SAMPLE']), ft) == {'SAMPLE': S}
        bb = unify(pattern(tg.module, 'pandas.DataFrame(SAMPLE, columns=COLS)', ['SAMPLE', 'COLS']), ft) if ft is not None else None
        labelled_ctor = bb is not None and bb['SAMPLE'] == S and cols_ok(bb['COLS'])
        relabel = [n for n in own_nodes(tg.node) if isinstance(n, ast.Assign) and isinstance(n.targets[0], ast.Attribute) and n.targets[0].attr == 'columns' and isinstance(n.targets[0].value, ast.Name) and n.targets[0].value.id == frame_name]
        relabel_ok = len(relabel) == 1 and cols_ok(term_of(tg, relabel[0].value, inline=False))
        lab = [u for u in res.updates if u['kind'] == 'store1' and isinstance(u['key'], ast.Constant) and u['key'].value == 'label']
        lab_ok = len(lab) == 1 and term_of(tg, lab[0]['value'], inline=False) == T
        ok_c = idx_false and lab_ok and (labelled_ctor or (plain_ctor and relabel_ok))
    cs = [c for c in calls(tg) if tg.module.dotted(c.func) == f'{GN}.generate_random_matrix']
    from ..match import bind_args
    gen_fn = repo.func(GN, 'generate_random_matrix')
    ba_ = bind_args(cs[0], gen_fn) if len(cs) == 1 else {}
    ok_a = len(cs) == 1 and [ast.unparse(ba_[p_]) if p_ in ba_ else None for p_ in gen_fn.params[:2]] == [f'{tg.params[0]}.num_synthetic_features', f'{tg.params[0]}.num_synthetic_rows']
    chk.expect(ok_c and ok_a, 'C19.7e', 'R15', tg.site(), "columns f0..f{n-1}, 'label'; to_csv(data.csv, index=False); generate_random_matrix(num_synthetic_features, num_synthetic_rows)", 'the CSV holds the sample under f0.. and the target under label, without an index column',
               'the generator task must name the columns f0.. and label, write data.csv with index=False and pass (features, rows) in that order', soft=True)
