"""C19 - synthetic categorical data respects its declared shape, domains and seed.

 1 (R4)  the np.empty([n_features, n_samples], int32) matrix is completely written on every path: full-range loop without a
         structure; cursor discipline (X[ix] = ...; ix += 1 only) closed by range(ix, n_features) otherwise
 2       placement: every structured store is preceded, in its own loop iteration, by the gap fill range(ix, feature_ix)
 3 (R8)  dtype int32 at allocation and at _generate_feature's return; the result is the transpose
 4       domain containment: every source of the returned vector is np.random.choice(vec, ...) or vec itself; vec is
         arange(low, low+cardinality), a replace=False draw of `cardinality` values from range(low, high+1), or the given list
 5 (R14) representation: ensure_rep appends the whole domain whenever len(vec) <= size
 6 (R10) np.random.seed(seed) dominates every draw of generate_data
 7       naive generator: label = thresholded column 30 of the sample; CSV emission names columns f0.. and label, index=False
"""
from __future__ import annotations

import ast

from ..cfg import CFG
from ..match import calls, expected_term, returns, term_of
from ..model import own_nodes, parents
from ..terms import show, walk_term

EXPLANATION = ('Definite-initialisation analysis (R4) of the np.empty feature matrix (cursor discipline, closing range), placement rule for structured features, constant obligations on dtype, '
               'origin analysis of the values returned by _generate_feature (domain containment), comparison normal form (R14) of the representation guard, seed-dominates-draw (R10), '
               'and term checks on the naive generator and the CSV emission. Decides construction shape, not generated numbers.')
TRUSTED_BASE = ['np.empty returns uninitialised memory; X[i] = v writes the whole row', 'np.random.choice(vec, ...) returns elements of vec; np.random.seed(s) fixes the global stream']
ASSUMPTIONS = ['structure indices are given in ascending order (placement at the declared position is claimed for those)']

CC = 'outrank.algorithms.synthetic_data_generators.cc_generator'
GN = 'outrank.algorithms.synthetic_data_generators.generator_naive'
TG = 'outrank.task_generators'
CLS = 'CategoricalClassification'


def run(repo, chk, tier):
    matrix(repo, chk)
    feature(repo, chk)
    naive(repo, chk)


def _is_gen_call(n):
    return isinstance(n, ast.Call) and isinstance(n.func, ast.Attribute) and n.func.attr in ('_generate_feature', '_configure_generate_feature')


def matrix(repo, chk):
    fn = repo.func(CC, f'{CLS}.generate_data')
    m = fn.module
    par = parents(fn.node)
    E = lambda s: expected_term(m, s)
    allocs = [n for n in own_nodes(fn.node) if isinstance(n, ast.Assign) and isinstance(n.value, ast.Call) and m.dotted(n.value.func) in ('numpy.empty', 'numpy.zeros') and isinstance(n.targets[0], ast.Name)]
    if len(allocs) != 1:
        chk.unsure('C19.1', 'R4', fn.site(), 'X = np.empty([n_features, n_samples], dtype=int32)', f'{len(allocs)} matrix allocations')
        return
    al = allocs[0]
    X = al.targets[0].id
    shape = term_of(fn, al.value.args[0], inline=False)
    dt = next((k.value for k in al.value.keywords if k.arg == 'dtype'), None)
    ok_shape = shape in (E('[n_features, n_samples]'), E('(n_features, n_samples)'))
    ok_dt = dt is not None and ast.unparse(dt) in ("'int32'", 'np.int32', 'numpy.int32')
    chk.expect(ok_shape and ok_dt, 'C19.3a', 'R8', fn.site(al), ast.unparse(al), 'matrix of n_features x n_samples 32-bit integers', 'the matrix must be allocated as [n_features, n_samples] with dtype int32')
    rets = returns(fn)
    chk.expect(len(rets) == 1 and ast.unparse(rets[0].value) in (f'{X}.T', f'{X}.transpose()', f'np.transpose({X})'), 'C19.3b', 'R8', fn.site(rets[0]) if rets else fn.site(), ast.unparse(rets[0]) if rets else '', 'the data set is the transpose (n_samples x n_features)', 'generate_data must return X.T')
    zero_init = m.dotted(al.value.func) == 'numpy.zeros'
    # all stores into X
    stores = [n for n in own_nodes(fn.node) if isinstance(n, ast.Assign) and isinstance(n.targets[0], ast.Subscript) and isinstance(n.targets[0].value, ast.Name) and n.targets[0].value.id == X]
    cursor = None
    problems = []
    n_cursor = n_range = 0
    for st in stores:
        idx = st.targets[0].slice
        blk = par.get(st)
        body = blk.body if st in getattr(blk, 'body', []) else getattr(blk, 'orelse', [])
        if not isinstance(idx, ast.Name):
            problems.append((st, 'store is not a whole-row store X[i] = ...'))
            continue
        # (a) range loop variable
        lp = blk if isinstance(blk, ast.For) else None
        if lp is not None and isinstance(lp.target, ast.Name) and lp.target.id == idx.id and isinstance(lp.iter, ast.Call) and isinstance(lp.iter.func, ast.Name) and lp.iter.func.id == 'range':
            n_range += 1
            continue
        # (b) cursor: followed by idx += 1
        pos = body.index(st)
        nxt = body[pos + 1] if pos + 1 < len(body) else None
        if isinstance(nxt, ast.AugAssign) and isinstance(nxt.target, ast.Name) and nxt.target.id == idx.id and isinstance(nxt.op, ast.Add) and isinstance(nxt.value, ast.Constant) and nxt.value.value == 1:
            cursor = cursor or idx.id
            if cursor != idx.id:
                problems.append((st, 'two different cursors'))
            n_cursor += 1
            continue
        problems.append((st, f'row store at `{idx.id}` is neither inside `for {idx.id} in range(...)` nor followed by `{idx.id} += 1`'))
    for st, why in problems:
        chk.bad('C19.1a', 'R4', fn.site(st), ast.unparse(st), f'{why}: rows of the uninitialised matrix can be skipped or overwritten')
    if cursor:
        incs = [n for n in own_nodes(fn.node) if isinstance(n, ast.AugAssign) and isinstance(n.target, ast.Name) and n.target.id == cursor]
        inits = [n for n in own_nodes(fn.node) if isinstance(n, ast.Assign) and isinstance(n.targets[0], ast.Name) and n.targets[0].id == cursor]
        ok_c = len(incs) == n_cursor and len(inits) == 1 and isinstance(inits[0].value, ast.Constant) and inits[0].value.value == 0
        chk.expect(ok_c, 'C19.1b', 'R4', fn.site(inits[0]) if inits else fn.site(), f'{cursor} = 0; {len(incs)} advances for {n_cursor} cursor stores', 'the cursor starts at 0 and advances exactly once per row written', f'the cursor `{cursor}` is advanced {len(incs)} times for {n_cursor} stores (or not initialised to 0): rows are skipped or overwritten', soft=True)
    # paths: structure None -> full range; else closing fill
    top_if = next((s for s in fn.node.body if isinstance(s, ast.If) and 'structure' in ast.unparse(s.test)), None)
    if top_if is None:
        chk.unsure('C19.1c', 'R4', fn.site(), 'if structure is None', 'top-level structure dispatch not found')
        return
    none_first = term_of(fn, top_if.test, inline=False) == E('structure is None')
    none_body, struct_body = (top_if.body, top_if.orelse) if none_first else (top_if.orelse, top_if.body)
    full = [s for s in none_body if isinstance(s, ast.For) and term_of(fn, s.iter, inline=False) == E('range(n_features)')]
    ok_full = len(full) == 1 and any(st in full[0].body for st in stores) and not any(isinstance(x, (ast.If, ast.Continue, ast.Break)) for x in ast.walk(full[0]))
    chk.expect(ok_full or zero_init, 'C19.1c', 'R4', fn.site(full[0]) if full else fn.site(top_if), 'for i in range(n_features): X[i] = feature', 'without a structure every row is written', 'without a structure every row range(n_features) must be written unconditionally')
    closing = [s for s in ast.walk(ast.Module(body=struct_body, type_ignores=[])) if isinstance(s, ast.For) and cursor and term_of(fn, s.iter, inline=False) == E(f'range({cursor}, n_features)')]
    last_loop = max((s.end_lineno for s in struct_body if isinstance(s, ast.For)), default=0)
    ok_close = len(closing) == 1 and closing[0].lineno > last_loop - 0 and any(st in closing[0].body for st in stores)
    if closing:
        g = par.get(closing[0])
        if isinstance(g, ast.If):
            ok_close = ok_close and term_of(fn, g.test, inline=False) in (E(f'{cursor} < n_features'), E(f'{cursor} != n_features'), E(f'{cursor} <= n_features'))
        # must come after the structure loop (top level of the structured branch)
        top = g if isinstance(g, ast.If) else closing[0]
        ok_close = ok_close and top in struct_body and struct_body.index(top) == len(struct_body) - 1
    chk.expect(ok_close or zero_init, 'C19.1d', 'R4', fn.site(closing[0]) if closing else fn.site(top_if), f'for i in range({cursor}, n_features): X[i] = feature', 'rows after the last structured feature are filled', 'after the structure has been processed the remaining rows range(cursor, n_features) must be filled: otherwise they hold uninitialised memory')
    # 2 placement: each structured store has its own gap fill
    def _reaching_def(st):
        blk = par.get(st)
        body = blk.body if st in getattr(blk, 'body', []) else getattr(blk, 'orelse', [])
        pos = body.index(st)
        for d in reversed(body[:pos]):
            if isinstance(d, ast.Assign) and isinstance(d.targets[0], ast.Name) and isinstance(st.value, ast.Name) and d.targets[0].id == st.value.id:
                return d
        return None
    cfg_stores = [st for st in stores if isinstance(st.value, ast.Name) and _reaching_def(st) is not None and _is_gen_call(_reaching_def(st).value) and _reaching_def(st).value.func.attr == '_configure_generate_feature']
    chk.require_count('structured feature stores', len(cfg_stores), 2)
    for st in cfg_stores:
        blk = par.get(st)
        body = blk.body if st in getattr(blk, 'body', []) else getattr(blk, 'orelse', [])
        # the index variable of this entry: loop variable of the enclosing `for feature_ix in feature_ixs` or the unpacked feature_ix
        idxvar = None
        if isinstance(blk, ast.For) and isinstance(blk.target, ast.Name):
            idxvar = blk.target.id
        else:
            for s in body:
                if isinstance(s, ast.Assign) and isinstance(s.targets[0], ast.Tuple) and s.lineno < st.lineno and isinstance(s.targets[0].elts[0], ast.Name):
                    idxvar = s.targets[0].elts[0].id
        gaps = [s for s in body if s.lineno < st.lineno and any(isinstance(x, ast.For) and idxvar and term_of(fn, x.iter, inline=False) == E(f'range({cursor}, {idxvar})') for x in ast.walk(s))]
        chk.expect(bool(gaps), 'C19.2', 'R1', fn.site(st), f'{ast.unparse(st)} (index variable {idxvar})', 'default features are generated up to the declared index before the structured feature is stored (so it sits at its declared column)',
                   f'the structured feature is stored at the cursor without first filling range({cursor}, {idxvar}) in the same iteration: features of a structure entry do not land at their declared column positions')
    # 6 seed dominates draws
    seeds = [c for c in calls(fn, dotted='numpy.random.seed')]
    gens = [c for c in own_nodes(fn.node) if _is_gen_call(c)]
    ok_seed = len(seeds) == 1 and ast.unparse(seeds[0].args[0]) == 'seed' and all(seeds[0].lineno < g.lineno for g in gens) and not any(True for p in [par.get(par.get(seeds[0]))] if isinstance(p, (ast.If, ast.For)))
    chk.expect(ok_seed, 'C19.6', 'R10', fn.site(seeds[0]) if seeds else fn.site(), ast.unparse(seeds[0]) if seeds else 'np.random.seed(seed)', 'np.random.seed(seed) precedes every draw of generate_data, unconditionally', 'generate_data must call np.random.seed(seed) unconditionally before the first feature is drawn')
    other = [c for c in calls(fn) if (m.dotted(c.func) or '').startswith(('time.', 'os.urandom', 'secrets.', 'random.'))]
    chk.expect(not other, 'C19.6b', 'R10', fn.site(other[0]) if other else fn.site(), ast.unparse(other[0]) if other else 'no other entropy source', 'no other entropy source', 'another entropy source is used')


def feature(repo, chk):
    fn = repo.func(CC, f'{CLS}._generate_feature')
    m = fn.module
    E = lambda s: expected_term(m, s)
    rets = returns(fn)
    rv = rets[0].value if len(rets) == 1 else None
    ok_ret = isinstance(rv, ast.Call) and isinstance(rv.func, ast.Attribute) and rv.func.attr == 'astype' and isinstance(rv.func.value, ast.Name) and len(rv.args) == 1 and ast.unparse(rv.args[0]) in ("'int32'", 'np.int32', 'numpy.int32')
    chk.expect(ok_ret, 'C19.3c', 'R8', fn.site(rets[0]) if rets else fn.site(), ast.unparse(rets[0]) if rets else '', 'features are returned as int32', "_generate_feature must return <drawn values>.astype('int32')")
    out = rets[0].value.func.value.id if ok_ret else 'sampled_values'
    # every definition of the returned vector draws from vec (or appends vec)
    defs = [n for n in own_nodes(fn.node) if isinstance(n, ast.Assign) and isinstance(n.targets[0], ast.Name) and n.targets[0].id == out]
    bad = []
    for d in defs:
        t = term_of(fn, d.value, inline=False)
        ok = False
        if t[0] == 'call' and t[1] == ('lib', 'numpy.random.choice') and t[2] and t[2][0] == ('name', 'vec'):
            ok = True
        if t[0] == 'call' and t[1] == ('lib', 'numpy.append') and t[2] == (('name', out), ('name', 'vec')):
            ok = True
        if not ok:
            bad.append(d)
    chk.expect(not bad and len(defs) >= 2, 'C19.4a', 'origin', fn.site(bad[0]) if bad else fn.site(), ast.unparse(bad[0])[:100] if bad else f'{len(defs)} definitions of {out}: np.random.choice(vec, ...) / np.append({out}, vec)', 'every value of the feature comes from its domain vec', 'a value of the feature does not originate from np.random.choice(vec, ...) or vec itself: the feature can leave its declared domain', soft=True)
    muts = [n for n in own_nodes(fn.node) if isinstance(n, (ast.AugAssign,)) and isinstance(n.target, ast.Name) and n.target.id == out] + \
           [n for n in own_nodes(fn.node) if isinstance(n, ast.Assign) and isinstance(n.targets[0], ast.Subscript) and isinstance(n.targets[0].value, ast.Name) and n.targets[0].value.id == out]
    chk.expect(not muts, 'C19.4b', 'origin', fn.site(muts[0]) if muts else fn.site(), ast.unparse(muts[0])[:100] if muts else f'{out} only shuffled', 'drawn values are only shuffled', 'drawn values are modified after the draw')
    # vec definitions
    vdefs = [n for n in own_nodes(fn.node) if isinstance(n, ast.Assign) and isinstance(n.targets[0], ast.Name) and n.targets[0].id == 'vec']
    vt = [term_of(fn, d.value, inline=False) for d in vdefs]
    want = {'default range': [E('numpy.arange(low, low + cardinality, 1)'), E('numpy.arange(low, low + cardinality)')],
            'bounds': [E('range(low, high + 1)'), E('numpy.arange(low, high + 1)')],
            'random draw': [E('numpy.random.choice(vec, size=cardinality, replace=False)')],
            'given list': [E('numpy.array(vec)'), E('numpy.asarray(vec)')]}
    for label, forms in want.items():
        hit = [t for t in vt if t in forms]
        chk.expect(bool(hit), f'C19.4c-{label.replace(" ", "_")}', 'R15', fn.site(vdefs[0]) if vdefs else fn.site(), label + ': ' + '; '.join(ast.unparse(d.value) for d in vdefs)[:160], f'domain construction: {label}', f'domain construction `{label}` not found in the stated form ({[show(f) for f in forms][0]})', soft=True)
    extra = [d for d, t in zip(vdefs, vt) if not any(t in f for f in want.values())]
    chk.expect(not extra, 'C19.4d', 'R15', fn.site(extra[0]) if extra else fn.site(), ast.unparse(extra[0])[:100] if extra else 'no other domain construction', 'no other domain construction', 'the domain is (re)defined in an unrecognised way')
    # 5 representation guard
    guards = [n for n in own_nodes(fn.node) if isinstance(n, ast.If) and 'ensure_rep' in ast.unparse(n.test)]
    ok_g = False
    if len(guards) == 1:
        t = term_of(fn, guards[0].test, inline=True)
        ok_g = t in (E('ensure_rep and len(vec) <= size'), E('ensure_rep and size >= len(vec)'))
        # the branch draws size - len(vec) values and appends the whole domain
        body_txt = ' '.join(ast.unparse(s) for s in guards[0].body).replace(' ', '')
        ok_g = ok_g and 'size=size-len(vec)' in body_txt and f'np.append({out},vec)' in body_txt
    chk.expect(ok_g, 'C19.5', 'R14', fn.site(guards[0]) if guards else fn.site(), ast.unparse(guards[0].test) if guards else 'if ensure_rep and len(vec) <= size', 'with ensure_rep every domain value is appended whenever the sample count allows (len(vec) <= size)',
               'representation must be enforced whenever len(vec) <= size (drawing size - len(vec) values and appending the whole domain): with a strict comparison the boundary case n_samples == domain size is drawn at random and misses values', soft=True)


def naive(repo, chk):
    fn = repo.func(GN, 'generate_random_matrix')
    m = fn.module
    E = lambda s: expected_term(m, s)
    nf, size = fn.params[:2]
    sd = [n for n in own_nodes(fn.node) if isinstance(n, ast.Assign) and isinstance(n.targets[0], ast.Name) and isinstance(n.value, ast.Call) and (m.dotted(n.value.func) or '').startswith('numpy.random.')]
    ok_s = len(sd) == 1 and term_of(fn, sd[0].value, inline=False) == E(f'numpy.random.randint(10, 100, size=({size}, {nf}))')
    chk.expect(ok_s, 'C19.7a', 'R15', fn.site(sd[0]) if sd else fn.site(), ast.unparse(sd[0]) if sd else '', 'sample is a size x num_features integer matrix', 'the sample must be np.random.randint(10, 100, size=(size, num_features))')
    S = sd[0].targets[0].id if sd else 'sample'
    td = [n for n in own_nodes(fn.node) if isinstance(n, ast.Assign) and isinstance(n.targets[0], ast.Name) and n.targets[0].id != S and isinstance(n.value, ast.Subscript)]
    ok_t = len(td) == 1 and ast.unparse(td[0].value) in (f'{S}[:, 30]', f'{S}[:, 30].copy()')
    T = td[0].targets[0].id if td else 'target'
    thr = [n for n in own_nodes(fn.node) if isinstance(n, ast.Assign) and isinstance(n.targets[0], ast.Subscript) and isinstance(n.targets[0].value, ast.Name) and n.targets[0].value.id == T]
    got_thr = sorted((repr(term_of(fn, x.targets[0].slice, inline=False)), ast.unparse(x.value)) for x in thr)
    ok_thr = got_thr == sorted([(repr(E(f'{T} < 40')), '0'), (repr(E(f'{T} > 39')), '1')])
    others = [n for n in own_nodes(fn.node) if isinstance(n, ast.Call) and (m.dotted(n.func) or '').startswith('numpy.random.') and n is not (sd[0].value if sd else None)]
    for o_ in others:
        chk.bad('C19.7b', 'R10', fn.site(o_), ast.unparse(o_)[:100], 'the naive generator draws further random numbers after the sample: the label is no longer a deterministic function of the needle column alone')
    chk.expect(ok_t and ok_thr, 'C19.7b', 'R15', fn.site(td[0]) if td else fn.site(), '; '.join(ast.unparse(x) for x in td + thr), 'the label is a deterministic step function of the needle column 30 alone (no noise)',
               'the label must be column 30 of the sample thresholded at 40 (0 below, 1 from 40), with no further randomness', soft=True)
    r = returns(fn)
    chk.expect(len(r) == 1 and ast.unparse(r[0].value) == f'({S}, {T})', 'C19.7c', 'R6', fn.site(r[0]) if r else fn.site(), ast.unparse(r[0]) if r else '', 'returns (sample, target)', 'must return (sample, target)')
    mseed = [s for s in m.tree.body if isinstance(s, ast.Expr) and isinstance(s.value, ast.Call) and m.dotted(s.value.func) == 'numpy.random.seed' and s.value.args and isinstance(s.value.args[0], ast.Constant)]
    chk.expect(bool(mseed), 'C19.7d', 'R10', m.relpath, ast.unparse(mseed[0]) if mseed else 'np.random.seed(<const>)', 'the naive generator is seeded with a constant at import', 'the naive generator module must seed NumPy with a constant')
    # CSV emission
    tg = repo.func(TG, 'outrank_task_generate_data_set')
    # path evaluation of the task for the naive generator: the frame that is written, its column labels and the label column
    from ..match import run_paths
    from ..terms import pattern, unify
    a0 = tg.params[0]
    tpaths = run_paths(tg, lambda e: isinstance(e, ast.Attribute) and e.attr == 'generator_type', 'naive', max_forks=3)
    ok_c, c_unsure = False, None

    def cols_ok(ct):
        # [f'f{x}' for x in range(<number of columns of the sample / the frame>)]
        try:
            rng = ct[2][0][0]
            return ct[0] == 'listcomp' and ct[1] == ('fstr', (('str', 'f'), ('fmt', ('cvar', 0, 0)))) and len(ct[2]) == 1 and not ct[2][0][1] and rng[0] == 'call' and rng[1] == ('name', 'range') and len(rng[2]) == 1 \
                and rng[2][0][0] == 'sub' and rng[2][0][2] == ('num', 1) and rng[2][0][1][0] == 'attr' and rng[2][0][1][2] == 'shape'
        except (IndexError, TypeError):
            return False
    for assume, res in (tpaths or []):
        if res.unknown is not None:
            c_unsure = res.unknown
            continue
        wr = [c for c in res.calls if isinstance(c['call'].func, ast.Attribute) and c['call'].func.attr == 'to_csv' and 'data.csv' in ast.unparse(c['call'])]
        if not wr:
            continue
        call = wr[0]['call']
        idx_false = any(k.arg == 'index' and isinstance(k.value, ast.Constant) and k.value.value is False for k in call.keywords)
        # the receiver keeps its name when the frame was written to afterwards (frame['label'] = ...): look at how that name was built
        recv_node = wr[0]['node'].value.func.value
        frame_name = recv_node.id if isinstance(recv_node, ast.Name) else None
        defs = [n for n in own_nodes(tg.node) if isinstance(n, ast.Assign) and isinstance(n.targets[0], ast.Name) and n.targets[0].id == frame_name]
        gen = term_of(tg, ast.parse(f'{GN}.generate_random_matrix({a0}.num_synthetic_features, {a0}.num_synthetic_rows)', mode='eval').body, inline=False)
        S, T = ('sub', gen, ('num', 0)), ('sub', gen, ('num', 1))
        ft = term_of(tg, defs[0].value, inline=True) if len(defs) == 1 else None
        plain_ctor = ft is not None and unify(pattern(tg.module, 'pandas.DataFrame(SAMPLE)', ['SAMPLE']), ft) == {'SAMPLE': S}
        bb = unify(pattern(tg.module, 'pandas.DataFrame(SAMPLE, columns=COLS)', ['SAMPLE', 'COLS']), ft) if ft is not None else None
        labelled_ctor = bb is not None and bb['SAMPLE'] == S and cols_ok(bb['COLS'])
        relabel = [n for n in own_nodes(tg.node) if isinstance(n, ast.Assign) and isinstance(n.targets[0], ast.Attribute) and n.targets[0].attr == 'columns' and isinstance(n.targets[0].value, ast.Name) and n.targets[0].value.id == frame_name]
        relabel_ok = len(relabel) == 1 and cols_ok(term_of(tg, relabel[0].value, inline=False))
        lab = [u for u in res.updates if u['kind'] == 'store1' and isinstance(u['key'], ast.Constant) and u['key'].value == 'label']
        lab_ok = len(lab) == 1 and term_of(tg, lab[0]['value'], inline=False) == T
        ok_c = idx_false and lab_ok and (labelled_ctor or (plain_ctor and relabel_ok))
    cs = [c for c in calls(tg) if tg.module.dotted(c.func) == f'{GN}.generate_random_matrix']
    ok_a = len(cs) == 1 and [ast.unparse(a) for a in cs[0].args] == [f'{tg.params[0]}.num_synthetic_features', f'{tg.params[0]}.num_synthetic_rows']
    chk.expect(ok_c and ok_a, 'C19.7e', 'R15', tg.site(), "columns f0..f{n-1}, 'label'; to_csv(data.csv, index=False); generate_random_matrix(num_synthetic_features, num_synthetic_rows)", 'the CSV holds the sample under f0.. and the target under label, without an index column',
               'the generator task must name the columns f0.. and label, write data.csv with index=False and pass (features, rows) in that order', soft=True)
