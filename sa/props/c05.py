"""C05 - each emitted score is the selected heuristic applied to the two columns.

 1 (R7)  exhaustive dispatch: every heuristic name used in the project's own scripts, examples, benchmarks, CLI usage/default,
         self-test, tests and documentation (minus the surrogate-* family) reaches a scorer branch of conduct_feature_ranking;
         the score is assigned only by the dispatch (no early exit before it)
 2       name -> scorer binding as the statement names them, with (first, second) vectors in their roles
 3       label on the conditioning side: whenever the label is in the pair, the second vector is the label column (case enumeration)
 4       both vectors are columns of the coded frame selected by the names of the combination
 5       max-value-coverage is a frequency: counts[key(row pair)] += 1 once per row; max(counts)/len
 6 (R16) category codes are widened before the scalar arithmetic of the pair hash
"""
from __future__ import annotations

import ast
import glob
import os
import re

from ..match import bind_args, body_raises, calls, dispatch_chain, expected_term, returns, run_paths, selects, term_of
from ..model import own_nodes, parents
from ..terms import canon, show, walk_term

EXPLANATION = ('Exhaustive-dispatch rule (R7) over a domain of heuristic names harvested from scripts/*.sh, examples/*, benchmarks/*, tests/*, README/docs, the CLI default and the self-test; '
               'call-graph binding of each name to the scorer the statement names; symbolic case enumeration (label first / second / both / neither) of generate_data_for_ranking; '
               'origin of the two vectors in the coded frame; kind-style check of the pair-frequency computation; dtype-width rule (R16) for arithmetic on narrow category codes. '
               'Decides wiring, not numerical equality with a direct computation.')
TRUSTED_BASE = ['cat.codes are int8/int16/int32 by construction; NumPy >= 2 raises when a Python int literal does not fit the narrow scalar type',
                'sklearn mutual_info_classif(discrete_features=True), adjusted_mutual_info_score, scipy pearsonr compute what their names say']
ASSUMPTIONS = ['hash collisions of max_pair_coverage (10^6 buckets) are outside the claim']

IE = 'outrank.algorithms.importance_estimator'
COV = 'outrank.algorithms.feature_ranking.ranking_cov_alignment'
MI = 'outrank.algorithms.feature_ranking.ranking_mi_numba'

NAME_RE = re.compile(r'--heuristic[ =]+([A-Za-z][\w-]*)')
PY_RES = [re.compile(r"heuristic\s*(?::\s*str\s*)?=\s*['\"]([A-Za-z][\w-]*)['\"]"), re.compile(r"conduct_self_test\(\s*['\"]([A-Za-z][\w-]*)['\"]"), re.compile(r"HEURISTIC\s*=\s*['\"]([A-Za-z][\w-]*)['\"]"),
          re.compile(r"for\s+heuristic\s+in\s+\[([^\]]*)\]")]


def harvest(repo):
    """{name: [where,...]} of heuristic names the project itself uses"""
    out = {}
    root = repo.root
    files = []
    for pat in ('scripts/*.sh', 'examples/*.sh', 'examples/*.py', 'benchmarks/*.sh', 'benchmarks/*.py', 'tests/*.py', 'README.md', 'docs/DOCSMAIN.md', '.github/workflows/*.yml', 'outrank/__main__.py', 'outrank/task_selftest.py', 'examples/README.md', 'benchmarks/README.md'):
        files += sorted(glob.glob(os.path.join(root, pat)))
    for path in files:
        rel = os.path.relpath(path, root)
        try:
            with open(path, encoding='utf-8', errors='replace') as fh:
                txt = fh.read()
        except OSError:
            continue
        for mt in NAME_RE.finditer(txt):
            out.setdefault(mt.group(1), []).append(rel)
        if path.endswith('.py'):
            for rx in PY_RES:
                for mt in rx.finditer(txt):
                    g = mt.group(1)
                    if rx is PY_RES[3]:
                        for nm in re.findall(r"['\"]([A-Za-z][\w-]*)['\"]", g):
                            out.setdefault(nm, []).append(rel)
                    else:
                        out.setdefault(g, []).append(rel)
    # CLI default
    m = repo.modules.get('outrank.__main__')
    if m is not None:
        for c in ast.walk(m.tree):
            if isinstance(c, ast.Call) and isinstance(c.func, ast.Attribute) and c.func.attr == 'add_argument' and c.args and isinstance(c.args[0], ast.Constant) and c.args[0].value == '--heuristic':
                for k in c.keywords:
                    if k.arg == 'default' and isinstance(k.value, ast.Constant):
                        out.setdefault(k.value.value, []).append('outrank/__main__.py (CLI default)')
    return out


EXPECT = {
    'MI': ('sklearn_MI', None),
    'MI-numba-3mr': ('numba_mi', False),
    'MI-numba-randomized': ('numba_mi', True),
    'max-value-coverage': ('max_pair_coverage', None),
    'correlation-Pearson': ('pearsonr', None),
    'AMI': ('sklearn_mi_adj', None),
    'Constant': (None, None),
}


def run(repo, chk, tier):
    dispatch(repo, chk)
    scorers(repo, chk)
    label_side(repo, chk)
    estimator_roles(repo, chk)
    correction_flag(repo, chk)
    coded_columns(repo, chk)
    coverage(repo, chk)
    from .common import vector_casts
    vector_casts(repo, chk, 'C05.4c')
    from .common import narrow_code_buffers
    narrow_code_buffers(repo, chk, 'C05.4e')
    block_collapse(repo, chk)


def _is_heur(names):
    def pred(e):
        return (isinstance(e, ast.Name) and e.id in names) or (isinstance(e, ast.Attribute) and e.attr == 'heuristic')
    return pred


def _paths(fn, hnames, name):
    return run_paths(fn, _is_heur(hnames), name)


def _is_zero(e):
    return isinstance(e, ast.Constant) and not isinstance(e.value, bool) and isinstance(e.value, (int, float)) and e.value == 0


def dispatch(repo, chk):
    """For every heuristic name the project itself documents / uses, the body of conduct_feature_ranking is evaluated with that name
    (path evaluation: tests on the name are decided, assignments substituted): the value returned must come from a scorer, on every path."""
    fn = repo.func(IE, 'conduct_feature_ranking')
    m = fn.module
    v1, v2, args = fn.params[:3]
    hnames = {n.targets[0].id for n in own_nodes(fn.node) if isinstance(n, ast.Assign) and isinstance(n.targets[0], ast.Name) and isinstance(n.value, ast.Attribute) and n.value.attr == 'heuristic'}
    found = harvest(repo)
    chk.analysed['harvested_heuristic_names'] = {k: sorted(set(v))[:4] for k, v in sorted(found.items())}
    names = sorted(n for n in found if not n.startswith('surrogate-'))
    chk.require_count('harvested non-surrogate heuristic names', len(names), 3)
    outside = None
    for name in names:
        where = ', '.join(sorted(set(found[name]))[:3])
        paths = _paths(fn, hnames, name)
        if paths is None:
            chk.unsure('C05.1', 'R7', fn.site(), f'heuristic {name!r}', 'too many tests that do not depend on the heuristic name')
            continue
        terms = set()
        for assume, res in paths:
            if res.unknown is not None:
                chk.unsure('C05.1', 'R7', fn.site(res.unknown), f'heuristic {name!r}: {ast.unparse(res.unknown)[:80]}', 'statement outside the path vocabulary decides the score')
                terms = None
                break
            if res.raised is not None or res.returned is None:
                chk.bad('C05.1', 'R7', fn.site(res.raised) if res.raised is not None else fn.site(), f'heuristic {name!r} (used in {where})', f'the documented heuristic {name!r} reaches no scorer of conduct_feature_ranking (the call {"raises" if res.raised is not None else "returns nothing"})')
                terms = None
                break
            terms.add(ast.unparse(res.returned))
            if _is_zero(res.returned) and name != 'Constant' and not assume:
                chk.bad('C05.1', 'R7', fn.site(), f'heuristic {name!r} (used in {where})', f'the documented heuristic {name!r} reaches no scorer branch of conduct_feature_ranking: it falls to the default branch and every score silently degrades to the constant 0.0')
                terms = None
                break
        if terms is None:
            continue
        if len(terms) > 1:
            outside = outside or (name, paths)
            continue
        chk.ok('C05.1', 'R7', fn.site(), f'{name!r} -> {sorted(terms)[0][:80]}', f'{name!r} (used in {where}) is scored by its own branch')
    for sname in sorted(n for n in found if n.startswith('surrogate-')):
        paths = _paths(fn, hnames, sname) or []
        if any(res.returned is not None and _is_zero(res.returned) for _, res in paths):
            chk.note(f'surrogate heuristic {sname!r} (used in {sorted(set(found[sname]))[:2]}) reaches no branch; the surrogate family is excluded by the statement')
    # the score is decided by the heuristic name alone
    if outside is not None:
        name, paths = outside
        t = next((a[0][0] for a, r in paths if a), None)
        chk.bad('C05.1b', 'R1', fn.site(t) if t is not None else fn.site(), f'{name!r}: ' + ' | '.join(sorted({ast.unparse(r.returned)[:50] for _, r in paths if r.returned is not None})),
                'the score is decided outside the heuristic dispatch (early exit, pre- or post-processing of the score): for some inputs the emitted value is not the selected heuristic applied to the two columns')
    else:
        chk.ok('C05.1b', 'R1', fn.site(), 'one returned expression per heuristic name', 'nothing but the heuristic name decides which expression is returned')


def scorers(repo, chk):
    fn = repo.func(IE, 'conduct_feature_ranking')
    m = fn.module
    v1, v2, args = fn.params[:3]
    hnames = {n.targets[0].id for n in own_nodes(fn.node) if isinstance(n, ast.Assign) and isinstance(n.targets[0], ast.Name) and isinstance(n.value, ast.Attribute) and n.value.attr == 'heuristic'}
    E = lambda src: expected_term(m, src)
    want = {
        'sklearn_MI': [E(f'{IE}.sklearn_MI({v1}, {v2})')],
        'numba_mi': [E(f'{IE}.numba_mi({v1}, {v2}, {args}.heuristic, {args}.mi_stratified_sampling_ratio)')],
        'max_pair_coverage': [E(f'{COV}.max_pair_coverage({v1}, {v2})')],
        'pearsonr': [E(f'scipy.stats.pearsonr({v1}, {v2})[0]'), E(f'scipy.stats.pearsonr({v1}, {v2}).statistic'), E(f'scipy.stats.pearsonr({v1}, {v2}).correlation')],
        'sklearn_mi_adj': [E(f'{IE}.sklearn_mi_adj({v1}, {v2})')],
    }
    for name, (callee, corr) in EXPECT.items():
        paths = _paths(fn, hnames, name)
        if not paths or any(r.unknown is not None or r.returned is None for _, r in paths):
            if paths and any(r.raised is not None for _, r in paths):
                chk.bad('C05.2', 'R7', fn.site(), f'{name!r}', f'heuristic {name!r} named by the statement has no branch (the call raises)')
            else:
                chk.unsure('C05.2', 'R7', fn.site(), f'{name!r}', 'the returned expression could not be determined for this name')
            continue
        for assume, res in paths[:1]:
            t = term_of(fn, res.returned, inline=False)
            shown = f'{name!r} -> {ast.unparse(res.returned)[:90]}'
            if name == 'Constant':
                chk.expect(_is_zero(res.returned), 'C05.2', 'R15', fn.site(), shown, 'Constant scores 0', 'Constant must score the literal 0')
                continue
            if _is_zero(res.returned):
                chk.bad('C05.2', 'R7', fn.site(), shown, f'heuristic {name!r} named by the statement has no branch')
                continue
            wl = want[callee]
            chk.expect(t in wl, 'C05.2', 'R6', fn.site(), shown, f'{name!r} is scored by {callee}(first, second)', f'{name!r} must be scored by {show(wl[0])[:140]}')
    # helper scorers
    s1 = repo.func(IE, 'sklearn_MI')
    t = [term_of(s1, r.value, inline=True) for r in returns(s1)]
    a, b = s1.params[:2]
    chk.expect(t == [E(f'sklearn.feature_selection.mutual_info_classif({a}.reshape(-1, 1), {b}.reshape(-1), discrete_features=True)[0]')], 'C05.2b', 'R15', s1.site(), ast.unparse(returns(s1)[0]) if returns(s1) else '', "MI = plug-in MI of discrete columns (discrete_features=True), first column as feature, second as target",
               'sklearn_MI must be mutual_info_classif(first.reshape(-1,1), second.reshape(-1), discrete_features=True)[0]')
    s2 = repo.func(IE, 'sklearn_mi_adj')
    a, b = s2.params[:2]
    t = [term_of(s2, r.value, inline=True) for r in returns(s2)]
    chk.expect(t in ([E(f'sklearn.metrics.adjusted_mutual_info_score({a}, {b})')], [E(f'sklearn.metrics.adjusted_mutual_info_score({b}, {a})')]), 'C05.2c', 'R15', s2.site(), ast.unparse(returns(s2)[0]) if returns(s2) else '', 'AMI = adjusted_mutual_info_score of the two columns', 'sklearn_mi_adj must be adjusted_mutual_info_score(first, second)')
    paths = _paths(fn, hnames, 'no-such-heuristic') or []
    dflt = [r for _, r in paths]
    if dflt and all((r.returned is not None and _is_zero(r.returned)) or r.raised is not None for r in dflt):
        chk.ok('C05.2d', 'R7', fn.site(), "unknown name -> " + ('0.0 (warning)' if dflt[0].raised is None else 'raise'), 'unknown names degrade to 0 with a warning or are rejected (why every documented name must have a branch)')
    else:
        chk.unsure('C05.2d', 'R7', fn.site(), 'default branch', 'the result for an unknown heuristic name could not be determined')


# -- 3 --------------------------------------------------------------------------------------
def label_side(repo, chk):
    fn = repo.func(IE, 'generate_data_for_ranking')
    comb, refs, args, frame = fn.params[:4]
    rets = returns(fn)
    if len(rets) != 1 or not isinstance(rets[0].value, ast.Tuple) or len(rets[0].value.elts) != 2:
        chk.unsure('C05.3', 'paths', fn.site(), 'return vector_first, vector_second', 'unexpected return')
        return
    cases = {'label first': ('L', 'f'), 'label second': ('f', 'L'), 'label both': ('L', 'L'), 'label in neither': ('f', 'g')}
    from ..model import Inconclusive
    for cname, (c0, c1) in cases.items():
        try:
            first, second = _sym_exec(fn, comb, args, frame, c0, c1)
        except Inconclusive as e:
            chk.unsure('C05.3', 'paths', fn.site(), cname, str(e))
            continue
        pair_ok = sorted([first, second]) == sorted([c0, c1])
        if 'L' in (c0, c1):
            ok = second == 'L' and pair_ok
            why = f'pair ({c0}, {c1}): the second (conditioning) vector is column {second!r}, the first {first!r}; the label must be the conditioning target'
        else:
            ok = (first, second) == (c0, c1)
            why = f'pair ({c0}, {c1}) without the label must keep its orientation; got ({first}, {second})'
        chk.expect(ok, 'C05.3', 'paths', fn.site(), f'{cname}: vectors = columns ({first}, {second})', 'label acts as the conditioning target; both columns of the pair are used', why)


def estimator_roles(repo, chk):
    """C05.3b - the label stays the conditioning target on the way into the numba estimator: numba_mi hands (feature vector, target vector) to the
    parameters (Y, X) of mutual_info_estimator_numba, whatever the spelling of the call (positions or keywords)."""
    from ..match import bind_args
    from .common import param_deps
    MI_MOD = 'outrank.algorithms.feature_ranking.ranking_mi_numba'
    fn = repo.func(IE, 'numba_mi')
    m = fn.module
    est = repo.func(MI_MOD, 'mutual_info_estimator_numba')
    cs = [c for c in calls(fn) if m.dotted(c.func) == f'{MI_MOD}.mutual_info_estimator_numba']
    if len(cs) != 1:
        chk.unsure('C05.3b', 'R6', fn.site(), 'mutual_info_estimator_numba(...)', f'{len(cs)} calls of the estimator in numba_mi')
        return
    ba = bind_args(cs[0], est)
    d0 = param_deps(fn, ba.get(est.params[0], ast.Constant(None))) & set(fn.params[:2])
    d1 = param_deps(fn, ba.get(est.params[1], ast.Constant(None))) & set(fn.params[:2])
    if d0 == {fn.params[0]} and d1 == {fn.params[1]}:
        chk.ok('C05.3b', 'R6', fn.site(cs[0]), ast.unparse(cs[0]).replace('\n', ' ')[:140], f'the feature vector reaches `{est.params[0]}`, the target (label) vector reaches `{est.params[1]}`, the conditioning side of the estimator')
    elif d0 == {fn.params[1]} and d1 == {fn.params[0]}:
        chk.bad('C05.3b', 'R6', fn.site(cs[0]), ast.unparse(cs[0]).replace('\n', ' ')[:140], f'the two vectors reach the estimator in exchanged roles: the target (label) vector is bound to `{est.params[0]}` and the feature to '
                f'`{est.params[1]}`, the conditioning side - the cardinality-corrected score is then H(X*|Y) - H(X|Y) of the wrong orientation (plain MI is symmetric and hides it)')
    else:
        chk.unsure('C05.3b', 'R6', fn.site(cs[0]), ast.unparse(cs[0]).replace('\n', ' ')[:140], 'which of the two vectors reaches which side of the estimator is not decided')


class _Renamed:
    """the same obligations reported under this property's identifiers"""
    def __init__(self, chk, mapping):
        self._chk, self._map = chk, mapping

    def _oid(self, oid):
        return self._map.get(oid, oid)

    def ok(self, oid, *a, **k):
        return self._chk.ok(self._oid(oid), *a, **k)

    def bad(self, oid, *a, **k):
        return self._chk.bad(self._oid(oid), *a, **k)

    def unsure(self, oid, *a, **k):
        return self._chk.unsure(self._oid(oid), *a, **k)

    def expect(self, cond, oid, *a, **k):
        return self._chk.expect(cond, self._oid(oid), *a, **k)

    def expect_term(self, t, forms, oid, *a, **k):
        return self._chk.expect_term(t, forms, self._oid(oid), *a, **k)

    def __getattr__(self, name):
        return getattr(self._chk, name)


def correction_flag(repo, chk):
    """C05.3c - "plug-in MI for MI and MI-numba-3mr, the cardinality-corrected score for MI-numba-randomized": the flag numba_mi hands to the estimator,
    evaluated for every heuristic name the package dispatches on, is on exactly for 'MI-numba-randomized' (the rule C03 states for its own property,
    reported here because the statement of C05 names the heuristics one by one)."""
    from .c03 import flag_mapping
    flag_mapping(repo, _Renamed(chk, {'C03.5c': 'C05.3c', 'C03.5d': 'C05.3d'}))


def _sym_exec(fn, comb, args, frame, c0, c1):
    """Symbolic execution of generate_data_for_ranking without a reference model: returns the column symbols of (first, second)."""
    from ..model import Inconclusive
    env = {}

    def ev(e):
        if isinstance(e, ast.Name):
            if e.id in env:
                return env[e.id]
            raise Inconclusive(f'unbound {e.id}')
        if isinstance(e, ast.Attribute) and e.attr == 'label_column':
            return 'L'
        if isinstance(e, ast.Subscript) and isinstance(e.value, ast.Name) and e.value.id == comb and isinstance(e.slice, ast.Constant):
            return (c0, c1)[e.slice.value]
        # frame[col].values / frame[col].to_numpy() / frame[[..] + [col]].values
        if isinstance(e, ast.Attribute) and e.attr in ('values',):
            return ev(e.value)
        if isinstance(e, ast.Call) and isinstance(e.func, ast.Attribute) and e.func.attr in ('to_numpy', 'astype', 'copy'):
            return ev(e.func.value)
        if isinstance(e, ast.Subscript) and isinstance(e.value, ast.Name) and e.value.id == frame:
            return ('col', ev(e.slice))
        # a if c else b : the arm the condition selects (without a reference model)
        if isinstance(e, ast.IfExp):
            return ev(e.body if cond(e.test) else e.orelse)
        raise Inconclusive(f'expression {ast.unparse(e)[:60]}')

    def cond(t):
        if isinstance(t, ast.Compare) and len(t.ops) == 1 and isinstance(t.ops[0], (ast.Eq, ast.NotEq)):
            l, r = ev(t.left), ev(t.comparators[0])
            v = (l == r)
            return v if isinstance(t.ops[0], ast.Eq) else not v
        if isinstance(t, ast.Attribute) and t.attr == 'reference_model_JSON':
            return False
        if isinstance(t, ast.Compare) and len(t.ops) == 1 and isinstance(t.ops[0], (ast.In, ast.NotIn)) and isinstance(t.comparators[0], ast.Name) and t.comparators[0].id == comb:
            v = ev(t.left) in (c0, c1)
            return v if isinstance(t.ops[0], ast.In) else not v
        if isinstance(t, ast.BoolOp):
            vals = [cond(v) for v in t.values]
            return all(vals) if isinstance(t.op, ast.And) else any(vals)
        if isinstance(t, ast.UnaryOp) and isinstance(t.op, ast.Not):
            return not cond(t.operand)
        raise Inconclusive(f'condition {ast.unparse(t)[:60]}')
    result = {}

    from ..match import is_noise_stmt

    def block(body):
        for s in body:
            if 'ret' in result:
                return
            if is_noise_stmt(s):
                continue
            if isinstance(s, ast.Assign) and len(s.targets) == 1:
                t = s.targets[0]
                if isinstance(t, ast.Tuple) and isinstance(s.value, ast.Name) and s.value.id == comb and len(t.elts) == 2:
                    env[t.elts[0].id], env[t.elts[1].id] = c0, c1
                    continue
                if isinstance(t, ast.Tuple) and isinstance(s.value, ast.Tuple) and len(t.elts) == len(s.value.elts):
                    vals = [ev(x) for x in s.value.elts]
                    for tt, vv in zip(t.elts, vals):
                        env[tt.id] = vv
                    continue
                if isinstance(t, ast.Name):
                    env[t.id] = ev(s.value)
                    continue
            if isinstance(s, ast.If):
                block(s.body if cond(s.test) else s.orelse)
                continue
            if isinstance(s, ast.Return):
                result['ret'] = [ev(x) for x in s.value.elts]
                return
            raise Inconclusive(f'statement {ast.unparse(s)[:60]}')
    block(fn.node.body)
    if 'ret' not in result:
        raise Inconclusive('no return reached')
    out = []
    for r in result['ret']:
        if not (isinstance(r, tuple) and r[0] == 'col'):
            raise Inconclusive('a returned vector is not a column of the coded frame')
        out.append(r[1])
    return out


# -- 4 --------------------------------------------------------------------------------------
def coded_columns(repo, chk):
    fn = repo.func(IE, 'get_importances_estimate_pairwise')
    m = fn.module
    comb, refs, args, frame = fn.params[:4]
    g = [c for c in calls(fn) if m.dotted(c.func) == f'{IE}.generate_data_for_ranking']
    c = [c for c in calls(fn) if m.dotted(c.func) == f'{IE}.conduct_feature_ranking']
    gd = repo.func(IE, 'generate_data_for_ranking')
    cf = repo.func(IE, 'conduct_feature_ranking')
    ba = bind_args(g[0], gd) if len(g) == 1 else {}
    ok = len(g) == 1 and [ast.unparse(ba[p_]) if p_ in ba else None for p_ in gd.params[:4]] == [comb, refs, args, frame]
    chk.expect(ok, 'C05.4a', 'R6', fn.site(g[0]) if g else fn.site(), ast.unparse(g[0]) if g else '', 'vectors are taken from the coded frame by the names of the combination', 'generate_data_for_ranking must receive (combination, reference features, args, coded frame)')
    ok2 = False
    if len(c) == 1 and g:
        par = parents(fn.node)
        st = par.get(g[0])
        if isinstance(st, ast.Assign) and isinstance(st.targets[0], ast.Tuple):
            a, b = [e.id for e in st.targets[0].elts]
            bc = bind_args(c[0], cf)
            ok2 = [ast.unparse(bc[p_]) if p_ in bc else None for p_ in cf.params[:3]] == [a, b, args]
    chk.expect(ok2, 'C05.4b', 'R6', fn.site(c[0]) if c else fn.site(), ast.unparse(c[0]) if c else '', 'the scorer receives (first vector, second vector) in that order', 'conduct_feature_ranking must receive the two vectors in the order generate_data_for_ranking returned them')
    # the worker bound in mixed_rank_graph scores its own combination on the category-coded frame
    from .common import column_coding, mrg_model
    M = mrg_model(repo)
    mrg = M.fn
    done = set()
    for p in M.paths:
        if p.heuristic == 'Constant':
            continue
        wb = M.worker_binding(p) if p.res.unknown is None else None
        if wb is None:
            if 'unres' not in done:
                done.add('unres')
                chk.unsure('C05.4c', 'R6', mrg.site(), 'worker handed to the pool', 'the callable handed to the pool could not be resolved to a call of get_importances_estimate_pairwise')
            continue
        key = ' | '.join(f'{k}={ast.unparse(v)[:60]}' for k, v in sorted(wb.items()) if isinstance(v, ast.AST) and k != '__site__')
        if key in done:
            continue
        done.add(key)
        site = mrg.site(wb['__site__']) if hasattr(wb.get('__site__'), 'lineno') else mrg.site()
        okc = wb.get('__elem__') == comb and isinstance(wb.get(args), ast.Name) and wb[args].id == mrg.params[1]
        chk.expect(okc, 'C05.4c', 'R6', site, key[:160], 'each worker call scores its own combination with the run configuration', 'the worker must pass the mapped combination as `combination` and the run configuration as `args`')
        if frame not in wb:
            chk.bad('C05.4c', 'R6', site, key[:160], 'the worker call does not pass the coded frame')
            continue
        kind, detail = column_coding(repo, mrg, wb[frame])
        if kind in ('category', 'factorize-sorted'):
            chk.ok('C05.4d', 'R6', site, ast.unparse(wb[frame])[:140], f'the scorers read the category-coded columns ({kind})')
        elif kind == 'factorize':
            chk.bad('C05.4d', 'R6', site, ast.unparse(wb[frame])[:140], 'columns are coded by order of first appearance (pd.factorize without sort), not by the category coding (.cat.codes: codes in sorted category order): heuristics that use the numeric codes (correlation-Pearson) no longer equal the heuristic evaluated on the category-coded columns')
        elif ast.unparse(wb[frame]) == mrg.params[0]:
            chk.bad('C05.4c', 'R6', site, ast.unparse(wb[frame])[:140], 'the worker closure must pass its combination and the coded frame (it passes the uncoded batch frame)')
        else:
            chk.unsure('C05.4d', 'R6', site, ast.unparse(wb[frame])[:140], f'the coding of the frame handed to the workers was not recognised: {detail}')


def _replace(term, what, by):
    if term == what:
        return by
    if isinstance(term, tuple):
        return tuple(_replace(x, what, by) for x in term)
    return term


def _dense_pair_index(fn, chk, a1, a2) -> bool:
    """the loop-free form: pairs addressed as cells X * stride + Y of a dense grid, counted with np.unique / np.bincount.  Two pairs share a cell
    exactly when the un-multiplied component can reach the stride, so the stride must be max(Y) + 1 for the component Y that is added."""
    from ..terms import pattern, unify
    m = fn.module
    paths = run_paths(fn, None, None, max_forks=2)
    if not paths or len(paths) != 1 or paths[0][1].unknown is not None or paths[0][1].returned is None:
        return False
    res = paths[0][1]
    # widening casts do not change values
    def strip_cast(t):
        if isinstance(t, tuple):
            t = tuple(strip_cast(x) for x in t)
            if len(t) == 4 and t[0] == 'call' and t[1][0] == 'attr' and t[1][2] == 'astype' and len(t[2]) == 1 and t[2][0] in (('lib', 'numpy.int64'), ('str', 'int64'), ('name', 'int'), ('lib', 'numpy.int32')):
                return t[1][1]
            if len(t) == 4 and t[0] == 'call' and t[1] == ('name', 'int') and len(t[2]) == 1:
                return t[2][0]
            if len(t) == 4 and t[0] == 'call' and t[1] in (('lib', 'numpy.asarray'), ('lib', 'numpy.array'), ('lib', 'numpy.ascontiguousarray')) and len(t[2]) == 1 and all(k[0] in ('dtype', 'copy') for k in t[3]):
                return t[2][0]
        return t
    rt = strip_cast(term_of(fn, res.returned, inline=False))
    K = None
    for src in ('numpy.max(numpy.unique(K, return_counts=True)[1]) / N', 'numpy.unique(K, return_counts=True)[1].max() / N', 'numpy.max(numpy.bincount(K)) / N', 'numpy.bincount(K).max() / N'):
        b = unify(pattern(m, src, ['K', 'N']), rt)
        if b is not None and b['N'] in (expected_term(m, f'len({a1})'), expected_term(m, f'len({a2})')):
            K = b['K']
    if K is None:
        return False
    A1, A2 = ('name', a1), ('name', a2)
    site = fn.site(res.returned) if hasattr(res.returned, 'lineno') else fn.site()
    stride = added = mult = None
    if K[0] == '+' and len(K[1]) == 2:
        for prod, other in (K[1], K[1][::-1]):
            if prod[0] == '*' and len(prod[1]) == 2 and other in (A1, A2):
                for arr, fac in (prod[1], prod[1][::-1]):
                    if arr in (A1, A2) and arr != other:
                        mult, stride, added = arr, fac, other
    if stride is None:
        chk.unsure('C05.5c', 'R9', site, show(K)[:140], 'the cell index of a pair is not of the form X * stride + Y over the two columns')
        return True
    def max_plus_one(arr):
        n = arr[1]
        return [expected_term(m, f'{n}.max() + 1'), expected_term(m, f'numpy.max({n}) + 1'), expected_term(m, f'max({n}) + 1')]
    chk.ok('C05.5a', 'R9', site, show(K)[:120], 'every row is counted once in the cell of its own (a[i], b[i]) pair')
    chk.ok('C05.5b', 'R15', site, show(rt)[:120], 'score = largest cell / number of rows')
    if stride in max_plus_one(added):
        chk.ok('C05.5c', 'R9', site, f'{show(K)[:100]} with stride {show(stride)[:40]}', 'the stride exceeds every value of the added component: distinct pairs get distinct cells')
    elif stride in max_plus_one(mult):
        chk.bad('C05.5c', 'R9', site, f'{show(K)[:100]} with stride {show(stride)[:40]}', f'the stride of the dense pair index is taken from the multiplied column `{mult[1]}` instead of the added column `{added[1]}`: when `{added[1]}` has values >= the stride, '
                'distinct pairs share a cell and the coverage is over-estimated')
    else:
        chk.unsure('C05.5c', 'R9', site, f'{show(K)[:100]} with stride {show(stride)[:40]}', 'whether the stride exceeds every value of the added column is not decided')
    return True


# -- 5 / 6 ----------------------------------------------------------------------------------
def coverage(repo, chk):
    fn = repo.func(COV, 'max_pair_coverage')
    m = fn.module
    a1, a2 = fn.params[:2]
    E = lambda s: expected_term(m, s)
    loops = [n for n in own_nodes(fn.node) if isinstance(n, ast.For)]
    incs = [n for n in own_nodes(fn.node) if isinstance(n, ast.AugAssign) and isinstance(n.target, ast.Subscript)]
    rets = returns(fn)
    if len(loops) != 1 or len(incs) != 1 or len(rets) != 1:
        if not _dense_pair_index(fn, chk, a1, a2):
            chk.unsure('C05.5', 'R9', fn.site(), 'pair-frequency loop', 'unexpected structure of max_pair_coverage')
        return
    lp, inc = loops[0], incs[0]
    i = lp.target.id if isinstance(lp.target, ast.Name) else None
    it = term_of(fn, lp.iter, inline=True)
    ok_it = it in (E(f'range(len({a1}))'), E(f'range(len({a2}))'), E(f'range({a1}.shape[0])'))
    key = term_of(fn, inc.target.slice, inline=True)
    helper = next((f for q, f in m.funcs.items() if q.startswith('max_pair_coverage.')), None)
    e1, e2 = E(f'{a1}[{i}]'), E(f'{a2}[{i}]')
    # for x, y in zip(a1, a2): the row's own pair is (x, y)
    if isinstance(lp.target, ast.Tuple) and len(lp.target.elts) == 2 and all(isinstance(x, ast.Name) for x in lp.target.elts) and isinstance(lp.iter, ast.Call) and isinstance(lp.iter.func, ast.Name) and lp.iter.func.id == 'zip' \
            and len(lp.iter.args) == 2 and not lp.iter.keywords and sorted(ast.unparse(a) for a in lp.iter.args) == sorted([a1, a2]) \
            and not any(isinstance(x, ast.Name) and isinstance(x.ctx, ast.Store) and x.id in (lp.target.elts[0].id, lp.target.elts[1].id) for b in lp.body for x in ast.walk(b)):
        by_arr = {ast.unparse(a): t.id for a, t in zip(lp.iter.args, lp.target.elts)}
        e1, e2 = ('name', by_arr[a1]), ('name', by_arr[a2])
        ok_it, i = True, '<no index>'
    opaque = key[0] == 'call' and key[1][0] == 'name'     # a local helper that is not a single return expression
    if opaque:
        ok_key = helper is not None and key == ('call', ('name', helper.name), (e1, e2), ())
        hr = returns(helper) if helper is not None else []
        kterm = canon(helper, hr[0].value, inline=True, bound={helper.params[0]: e1, helper.params[1]: e2}) if len(hr) == 1 and len(helper.params) >= 2 else None
    else:
        kterm = key
        ok_key = True
    # the table of pair counts holds numbers up to the size of the batch: a narrow integer type wraps
    from .common import NARROW_DTYPES
    tbl = inc.target.value.id if isinstance(inc.target.value, ast.Name) else None
    for n_ in own_nodes(fn.node):
        if isinstance(n_, ast.Assign) and len(n_.targets) == 1 and isinstance(n_.targets[0], ast.Name) and n_.targets[0].id == tbl and isinstance(n_.value, ast.Call):
            dt_ = next((k.value for k in n_.value.keywords if k.arg == 'dtype'), None)
            if dt_ is not None and ast.unparse(dt_) in NARROW_DTYPES:
                chk.bad('C05.5e', 'R8', fn.site(n_), ast.unparse(n_)[:100], f'the table of pair counts has dtype {ast.unparse(dt_)}: a joint value that occurs more often in a batch than that type can hold wraps around '
                        '(negative counts), so the largest joint-value frequency is wrong for large batches')
    ok_inc = isinstance(inc.op, ast.Add) and isinstance(inc.value, ast.Constant) and inc.value.value == 1 and not any(isinstance(x, (ast.If, ast.Continue)) for x in ast.walk(lp))
    chk.expect(ok_it and ok_key and ok_inc, 'C05.5a', 'R9', fn.site(inc), ast.unparse(lp).replace('\n', ' ')[:140], 'every row increments the bucket of its own (a[i], b[i]) pair by 1', 'each row must add exactly 1 to the bucket keyed by its own pair (array1[i], array2[i])')
    cnt = inc.target.value.id if isinstance(inc.target.value, ast.Name) else None
    rt = term_of(fn, rets[0].value, inline=False)
    tot = [n for n in own_nodes(fn.node) if isinstance(n, ast.Assign) and isinstance(n.targets[0], ast.Name) and term_of(fn, n.value, inline=False) in (E(f'len({a1})'), E(f'len({a2})'))]
    tn = tot[0].targets[0].id if tot else None
    chk.expect(rt in (E(f'numpy.max({cnt}) / {tn}'), E(f'{cnt}.max() / {tn}'), E(f'numpy.max({cnt}) / len({a1})')), 'C05.5b', 'R15', fn.site(rets[0]), ast.unparse(rets[0]), 'score = largest bucket / number of rows', f'the score must be max(counts) / number of rows; found {show(rt)[:100]}')
    # the key is a function of both elements of the row's own pair and of nothing else that varies with the row
    ksite = helper.site() if (helper is not None and opaque) else fn.site(inc)
    if kterm is not None:
        # the two parameters are numpy arrays: an elementwise product / sum with scalars read at i is that arithmetic on the element at i
        def distribute(t):
            if not isinstance(t, tuple):
                return t
            t = tuple(distribute(x) for x in t)
            if t and t[0] == 'sub' and isinstance(t[1], tuple) and t[1] and t[1][0] in ('*', '+') and t[2] == ('name', i):
                parts = t[1][1]
                arrs = [x for x in parts if x in (('name', a1), ('name', a2))]
                if len(arrs) == 1 and all(x in arrs or x[0] == 'num' for x in parts):
                    return (t[1][0], tuple(('sub', x, t[2]) if x in arrs else x for x in parts))
            return t
        kterm = distribute(kterm)
    if kterm is None:
        chk.unsure('C05.5c', 'R9', ksite, 'pair key', 'the pair key expression could not be recovered')
    else:
        subs = list(walk_term(kterm))
        both = e1 in subs and e2 in subs
        stripped = _replace(_replace(kterm, e1, ('name', '<el1>')), e2, ('name', '<el2>'))
        stray = [t for t in walk_term(stripped) if t in (('name', i), ('name', a1), ('name', a2))]
        chk.expect(both and not stray, 'C05.5c', 'R9', ksite, show(kterm)[:140], 'the bucket depends on both values of the row\'s own pair (and on no other row)', 'the pair key must depend on both elements of the row\'s own pair')
        size = inc.target.value.id if isinstance(inc.target.value, ast.Name) else None
        alloc = [n for n in own_nodes(fn.node) if isinstance(n, ast.Assign) and isinstance(n.targets[0], ast.Name) and n.targets[0].id == size and isinstance(n.value, ast.Call) and m.dotted(n.value.func) == 'numpy.zeros']
        szt = term_of(fn, alloc[0].value.args[0], inline=True) if alloc and alloc[0].value.args else None
        ok_mod = kterm[0] == '%' and szt is not None and kterm[2] == szt
        chk.expect(ok_mod, 'C05.5d', 'intervals', ksite, f'{show(kterm)[:100]}; counts = np.zeros({show(szt) if szt else None})', 'the bucket index is reduced modulo the number of buckets (in range of the zero-initialised count array)',
                   f'the pair key must be (...) % {show(szt) if szt else "<size>"}, the size of the zero-initialised count array: otherwise the index leaves the array or pairs pile into few buckets')
    # 6: widening
    widened = {}
    for n in own_nodes(fn.node):
        if isinstance(n, ast.Assign) and isinstance(n.targets[0], ast.Name) and n.targets[0].id in (a1, a2) and n.lineno < lp.lineno:
            t = term_of(fn, n.value, inline=False)
            nm = n.targets[0].id
            wide = [E(f'numpy.asarray({nm}, dtype=numpy.int64)'), E(f'{nm}.astype(numpy.int64)'), E(f'numpy.array({nm}, dtype=numpy.int64)'), E(f'numpy.asarray({nm}).astype(numpy.int64)'), E(f"{nm}.astype('int64')"), E(f'{nm}.astype(int)'),
                    E(f'numpy.asarray({nm}, dtype=int)')]
            if t in wide:
                widened[nm] = n
    casts_in_helper = False
    lits = []
    if kterm is not None:
        wrapped = _replace(_replace(kterm, ('call', ('lib', 'builtins.int'), (e1,), ()), ('name', '<w1>')), ('call', ('lib', 'builtins.int'), (e2,), ()), ('name', '<w2>'))
        wrapped = _replace(_replace(wrapped, ('call', ('name', 'int'), (e1,), ()), ('name', '<w1>')), ('call', ('name', 'int'), (e2,), ()), ('name', '<w2>'))
        casts_in_helper = e1 not in list(walk_term(wrapped)) and e2 not in list(walk_term(wrapped))
        lits = [t[1] for t in walk_term(kterm) if isinstance(t, tuple) and len(t) == 2 and t[0] == 'num' and isinstance(t[1], int) and abs(t[1]) > 127]
    need = bool(lits)
    ok_w = (not need) or casts_in_helper or set(widened) == {a1, a2}
    chk.expect(ok_w, 'C05.6', 'R16', fn.site(), f'literals {lits} in the pair hash; widened: {sorted(widened)}', 'codes are widened to int64 before the scalar arithmetic',
               f'category codes arrive as int8/int16 (cat.codes); arithmetic with the literal {lits[0] if lits else ""} on such a scalar overflows / raises OverflowError under NumPy 2 unless both arrays are widened (np.asarray(..., dtype=np.int64)) first')


# -- 2e -------------------------------------------------------------------------------------
def _width_test(t):
    """(kind, node) for a test of the number of columns of a block: 'single' when it holds for one column, 'multi' when it holds for several"""
    if isinstance(t, ast.Compare) and len(t.ops) == 1:
        l, r, op = t.left, t.comparators[0], t.ops[0]
        def is_width(e):
            if isinstance(e, ast.Subscript) and isinstance(e.value, ast.Attribute) and e.value.attr == 'shape':
                i = e.slice
                return (isinstance(i, ast.Constant) and i.value == 1) or (isinstance(i, ast.UnaryOp) and isinstance(i.op, ast.USub) and isinstance(i.operand, ast.Constant) and i.operand.value == 1)
            return False
        if is_width(r) and isinstance(l, ast.Constant):
            l, r = r, l
            op = {ast.Lt: ast.Gt(), ast.Gt: ast.Lt(), ast.LtE: ast.GtE(), ast.GtE: ast.LtE()}.get(type(op), op)
        if is_width(l) and isinstance(r, ast.Constant) and isinstance(r.value, int):
            c = r.value
            if (isinstance(op, ast.Eq) and c == 1) or (isinstance(op, ast.Lt) and c == 2) or (isinstance(op, ast.LtE) and c == 1):
                return 'single'
            if (isinstance(op, ast.NotEq) and c == 1) or (isinstance(op, ast.Gt) and c == 1) or (isinstance(op, ast.GtE) and c == 2):
                return 'multi'
            return 'other'
    return None


def block_collapse(repo, chk):
    """C05.2e - with a reference model the first vector is a block (reference features + candidate); numba_mi collapses it row-wise with
    |max(row) - sum(row)|.  For a block of ONE column that formula is |x - x| = 0 for every row: a single-column block must be handed over as
    the column itself, so the collapse has to sit behind a test of the block's width."""
    fn = repo.mod(IE).funcs.get('numba_mi')
    if fn is None:
        return
    m = fn.module
    par = parents(fn.node)
    coll = [c for c in calls(fn) if (m.dotted(c.func) or '').replace('numpy.', 'np.') == 'np.apply_along_axis']
    if not coll:
        chk.ok('C05.2e', 'R14', fn.site(), 'numba_mi', 'no row-wise collapse of a block of columns in numba_mi')
        return
    for c in coll:
        guards = []
        n, child = par.get(c), c
        while n is not None and n is not fn.node:
            if isinstance(n, ast.If):
                in_body = any(child is x for x in n.body)
                in_else = any(child is x for x in n.orelse)
                k = _width_test(n.test)
                if k in ('single', 'multi') and (in_body or in_else):
                    guards.append(k if in_body else {'single': 'multi', 'multi': 'single'}[k])
                elif k == 'other':
                    guards.append('other')
            elif isinstance(n, ast.IfExp):
                k = _width_test(n.test)
                if k in ('single', 'multi'):
                    guards.append(k if child is n.body else {'single': 'multi', 'multi': 'single'}[k])
            child, n = n, par.get(n)
        # an earlier statement that returns / re-binds for the single-column case
        any_width = [x for x in ast.walk(fn.node) if isinstance(x, (ast.If, ast.IfExp)) and _width_test(x.test)]
        if 'multi' in guards:
            chk.ok('C05.2e', 'R14', fn.site(c), ast.unparse(c)[:100], 'the row-wise collapse is applied to blocks of several columns only; a single-column block is handed over as the column')
        elif 'single' in guards:
            chk.bad('C05.2e', 'R14', fn.site(c), ast.unparse(c)[:100], 'the row-wise collapse |max(row) - sum(row)| is applied exactly to single-column blocks, where it is 0 for every row')
        elif any_width or 'other' in guards or any((isinstance(x, ast.Attribute) and x.attr in ('shape', 'squeeze', 'size', 'ravel', 'flatten')) or (isinstance(x, ast.Name) and x.id in ('len', 'squeeze')) for x in ast.walk(fn.node)):
            chk.unsure('C05.2e', 'R14', fn.site(c), ast.unparse(c)[:100], 'the width of the block is tested, but not in a form that places the collapse on the several-columns side')
        else:
            chk.bad('C05.2e', 'R14', fn.site(c), ast.unparse(c)[:100], 'the row-wise collapse |max(row) - sum(row)| is applied whatever the width of the block: for a block of one column (reference model without usable features) '
                    'it is |x - x| = 0 for every row, the candidate becomes a constant vector and every MI-numba score is 0 (the function never looks at the shape of the block)')
