"""C17 - 3MR ranking is a greedy-optimal permutation of the features.

 1 permutation: candidates of a round are all - set(ranked); exactly one append per round, of a variable assigned only from the
   candidate loop variable; the loop runs until the lengths are equal
 2 start: a feature of maximal relevance
 3 arg-max discipline: running best initialised to -inf in every round; updated under importance > best (or >=)
 4 objective: relevance[f] - alpha * agg(redundancy) + beta * agg(relation)
 5 aggregator table: 'median' -> np.median, 'mean' -> np.mean, otherwise sum; missing pairs via .get(pair, 0) appended
   unconditionally for every ranked feature; pair key is (ranked feature, candidate)
 6 ranks are range(1, n+1) in list order
 7 task_ranking passes (relevance, redundancy, relations) in the callee's parameter order; relation dictionary symmetrised
"""
from __future__ import annotations

import ast

from ..match import bind_args, calls, expected_term, returns, term_of, within_vocabulary
from ..model import own_nodes, parents
from ..terms import Canon, Scope, show, walk_term

EXPLANATION = ('Structural rules over rank_features_3MR: candidate domain and single append per round (permutation by construction), arg-max discipline (initial -inf, strict/non-strict '
               'improvement test, joint update of best value and best feature), canonical-term equality (R15) of the objective, exhaustive dispatch (R7) of the aggregator, '
               'default 0 for missing pairs, rank labels; sibling agreement (R6) of the call in task_ranking. Decides the algorithm\'s shape, not rankings of actual data.')
TRUSTED_BASE = ['max(items, key=itemgetter(1)) returns an item of maximal value; np.median / np.mean / sum semantics']
ASSUMPTIONS = ['ties may be broken arbitrarily (the statement allows any maximiser)']

IE = 'outrank.algorithms.importance_estimator'
TR = 'outrank.task_ranking'


def _ranker_in_use(repo, chk):
    """the function the ranking task really calls to produce 3mr_ranks.tsv: rank_features_3MR unless the task module binds another one"""
    fn = repo.func(IE, 'rank_features_3MR')
    rk = repo.mod(TR).funcs.get('outrank_task_conduct_ranking')
    if rk is None:
        return fn
    m = rk.module
    direct = [c for c in calls(rk) if m.dotted(c.func) == f'{IE}.rank_features_3MR']
    if direct:
        return fn
    for c in calls(rk):
        d = m.dotted(c.func) or ''
        written = ast.unparse(c.func).split('.')[-1]
        if d.startswith('outrank.') and (written == 'rank_features_3MR' or 'rank_features' in d.split('.')[-1]):
            other = repo.find_func(d)
            if other is not None and len(other.params) >= 6:
                chk.note(f'the ranking task calls {d} (written {ast.unparse(c.func)}); the rules are applied to that function, not to rank_features_3MR')
                chk.extra['ranker_in_use'] = d
                return other
    return fn


def run(repo, chk, tier):
    fn = _ranker_in_use(repo, chk)
    m = fn.module
    p = fn.params
    rel, red, relat, strategy, alpha, beta = p[0], p[1], p[2], p[3], p[4], p[5]
    E = lambda s, b=None: expected_term(m, s, b or {})
    scope = Scope(fn)

    # the greedy rounds: a loop whose body (evaluated as one path, the candidate scan summarised as an arg-max) places one feature
    from ..match import PathEval, run_paths
    from ..terms import pattern, unify
    rets = returns(fn)
    rounds = [n for n in fn.node.body if isinstance(n, (ast.While, ast.For)) and any(isinstance(c, ast.Call) and isinstance(c.func, ast.Attribute) and c.func.attr == 'append' for c in ast.walk(n))]
    if len(rounds) != 1:
        chk.bad('C17.1a', 'R13', fn.site(), 'while len(ranked) < len(all_features)', f'{len(rounds)} selection loops found (expected one loop of greedy rounds)', soft=True)
        return
    wl = rounds[0]
    paths = run_paths(fn, None, None, max_forks=3, body=wl.body)
    if paths is None or len(paths) != 1 or paths[0][1].unknown is not None:
        node = paths[0][1].unknown if paths and paths[0][1].unknown is not None else wl
        chk.unsure('C17.1b', 'R13', fn.site(node), ast.unparse(node).replace('\n', ' ')[:100], 'one greedy round could not be evaluated as a single path (a statement outside the vocabulary, or a test that is not decidable)')
        return
    res = paths[0][1]
    apps = [c for c in res.calls if isinstance(c['call'].func, ast.Attribute) and c['call'].func.attr == 'append' and isinstance(c['call'].func.value, ast.Name)]
    if len(apps) != 1:
        chk.bad('C17.1b', 'R13', fn.site(wl), 'ranked.append(best)', f'{len(apps)} appends in one greedy round: each round must place exactly one feature')
        return
    ranked = apps[0]['call'].func.value.id
    placed = apps[0]['call'].args[0]
    chk.ok('C17.1b', 'R13', fn.site(apps[0]['node']), ast.unparse(apps[0]['node']), 'exactly one feature is placed per round')
    # the set of all features: bound before the loop to the key set of the relevance dictionary
    pe = PathEval(fn, None, None, None, stop_at=wl)
    pre = pe.run()
    env0 = pre.env_at_stop or {}
    allf = None
    for k, v in env0.items():
        if v is not None and term_of(fn, v, inline=False) in (E(f'set({rel}.keys())'), E(f'set({rel})'), E(f'list({rel}.keys())'), E(f'list({rel})')):
            allf = k
    if allf is None:
        chk.bad('C17.1c', 'origin', fn.site(), f'all_features = set({rel}.keys())', 'the set of features to rank is not the key set of the relevance dictionary', soft=True)
        return
    # the rounds continue until every feature is placed
    if isinstance(wl, ast.While):
        # names bound once before the loop (n = len(all_features)) and never re-bound denote their value
        pre_bound = {}
        for k_, v_ in env0.items():
            if v_ is not None and isinstance(v_, ast.AST) and k_ not in (allf, ranked) and \
                    sum(1 for x in own_nodes(fn.node) if isinstance(x, ast.Name) and x.id == k_ and isinstance(x.ctx, ast.Store)) == 1:
                try:
                    pre_bound[k_] = term_of(fn, v_, inline=False)
                except Exception:
                    pass
        t = term_of(fn, wl.test, pre_bound, inline=False) if pre_bound else term_of(fn, wl.test, inline=False)
        allf_val = ast.unparse(env0[allf]) if isinstance(env0.get(allf), ast.AST) else allf
        chk.expect_term(t, [E(f'len({ranked}) < len({allf})'), E(f'len({ranked}) != len({allf})'), E(f'len({ranked}) < len({allf_val})'), E(f'len({ranked}) != len({allf_val})')], 'C17.1a', 'R14', fn.site(wl), ast.unparse(wl.test), 'rounds continue until every feature is placed', f'the loop must run while len(ranked) < len(all features); found {show(t)[:100]}')
    else:
        it = term_of(fn, wl.iter, inline=True)
        chk.expect_term(it, [E(f'range(len({allf}) - 1)'), E(f'range(1, len({allf}))'), E(f'range(len({rel}) - 1)'), E(f'range(1, len({rel}))'), E(f'range(len(set({rel}.keys())) - 1)'), E(f'range(1, len(set({rel}.keys())))')], 'C17.1a', 'R14', fn.site(wl), ast.unparse(wl.iter),
                        'one round per feature that is not placed yet (the first one is placed before the loop)', f'the rounds must place all remaining features: len(all features) - 1 rounds; found {show(it)[:100]}')
    # the feature placed: the arg-max of the objective over the features not ranked yet
    pt = term_of(fn, placed, inline=False)
    b_ = unify(pattern(m, '__argmax__(GEN, start=S, strict=ST, rel=RL, tracked=TR, unset=UN)', ['GEN', 'S', 'ST', 'RL', 'TR', 'UN']), pt)
    if b_ is None or b_['GEN'][0] != 'genexp' or len(b_['GEN'][2]) != 1:
        if isinstance(placed, ast.Name):
            chk.unsure('C17.3', 'R14', fn.site(apps[0]['node']), ast.unparse(placed)[:100], 'the scan over the candidates was not recognised as an arg-max loop (running best value and best feature updated together on improvement)')
        else:
            chk.bad('C17.3', 'R14', fn.site(apps[0]['node']), ast.unparse(placed)[:140], 'the feature placed in a round is not the candidate with the largest objective', soft=True)
        return
    from ..terms import alpha_norm, walk_term
    cands, ifs = b_['GEN'][2][0]
    # the objective with the candidate as a free marker (so that its own comprehension variables are numbered independently)
    gv = next((x for x in walk_term(b_['GEN'][1]) if isinstance(x, tuple) and len(x) == 3 and x[0] == 'cvar'), ('cvar', 0, 0))
    cand_var = None
    # the generator variable is the one bound by the single generator of GEN: the lowest-numbered comprehension variable of the whole term
    allcv = sorted({x for x in walk_term(pt) if isinstance(x, tuple) and len(x) == 3 and x[0] == 'cvar' and isinstance(x[1], int)}, key=lambda x: x[1])

    def _rep(t, a, b2):
        if t == a:
            return b2
        if isinstance(t, tuple):
            return tuple(_rep(x, a, b2) for x in t)
        return t
    # find which cvar is the candidate: the one that indexes the relevance dictionary, or else the only one outside inner comprehensions
    cand_var = next((x[2] for x in walk_term(b_['GEN'][1]) if isinstance(x, tuple) and len(x) == 3 and x[0] == 'sub' and x[1] == ('name', rel) and isinstance(x[2], tuple) and x[2][:1] == ('cvar',)), allcv[0] if allcv else ('cvar', 0, 0))
    cv = ('role', 'cand')
    obj = alpha_norm(_rep(b_['GEN'][1], cand_var, cv))
    forms = [E(f'{allf} - set({ranked})'), E(f'{allf}.difference({ranked})'), E(f'{allf}.difference(set({ranked}))'), E(f'[f for f in {allf} if f not in {ranked}]'), E(f'(f for f in {allf} if f not in {ranked})'),
             E(f'set({allf}) - set({ranked})')]
    forms += [Canon(m, Scope(None), inline=False, bound={allf: term_of(fn, env0[allf], inline=False)}).t(ast.parse(x, mode='eval').body) for x in (f'{allf} - set({ranked})', f'{allf}.difference({ranked})')]
    chk.expect_term(cands, forms, 'C17.1d', 'R15', fn.site(wl), show(cands)[:100], 'candidates = features not yet ranked (so no feature is placed twice and none is left out)', f'candidates of a round must be all_features - set(ranked); found {show(cands)[:100]}', extra_ok=not ifs)
    chk.ok('C17.1e', 'origin', fn.site(apps[0]['node']), ast.unparse(apps[0]['node'])[:100], 'the placed feature is one of the remaining candidates (the arg-max of the scan)')
    chk.expect(b_['RL'] in (('str', '>'), ('str', '>=')), 'C17.3a', 'R14', fn.site(wl), f'candidate replaces the running best when its objective is {b_["RL"][1]} it', 'a candidate replaces the running best iff its objective is larger',
               f'the improvement test must be `importance > best_so_far` (or >=): with `{b_["RL"][1]}` the round places the feature with the SMALLEST objective')
    chk.expect(b_['TR'] == ('bool', True), 'C17.3b', 'R13', fn.site(wl), 'running best value and best feature', 'best value and best feature are updated together',
               'when a candidate improves, both the running best value and the best feature must be updated: otherwise the last candidate that beats the start value is placed, not the best one')
    start_ok = b_['S'] in (E('-numpy.inf'), E("float('-inf')"), E('-math.inf'), E("-float('inf')")) or (b_['S'] == ('none',) and b_['UN'] == ('str', 'none'))
    if b_['UN'] == ('str', 'falsy'):
        chk.bad('C17.3c', 'R8', fn.site(wl), f'start = {show(b_["S"])[:60]}; `not best_so_far or ...`', 'the running best is treated as "not set yet" whenever it is falsy: a best objective of exactly 0.0 is replaced by any later candidate, so the feature placed is not the arg-max')
    chk.expect(start_ok or b_['UN'] == ('str', 'falsy'), 'C17.3c', 'R8', fn.site(wl), f'start = {show(b_["S"])[:60]}', 'the running best starts at -inf in every round (any finite objective beats it)',
               'the running best must be reset to -inf at the start of every round: with another sentinel a maximal candidate (e.g. objective 0 or negative) can be overlooked')

    # -- 2 start: the ranked list before the first round
    r0 = env0.get(ranked)
    oks = False
    if isinstance(r0, ast.List) and len(r0.elts) == 1:
        st = term_of(fn, r0.elts[0], inline=False)
        oks = st in (E(f'max({rel}.items(), key=operator.itemgetter(1))[0]'), E(f'max({rel}, key={rel}.get)'), E(f'max({rel}.keys(), key={rel}.get)'), E(f'max({rel}.items(), key=lambda kv: kv[1])[0]'),
                     E(f'max({rel}, key=lambda k: {rel}[k])'))
    uses_min = r0 is not None and any(isinstance(c, ast.Call) and isinstance(c.func, ast.Name) and c.func.id in ('min', 'sorted') for c in ast.walk(r0))
    chk.expect(oks, 'C17.2', 'R15', fn.site(), ast.unparse(r0)[:120] if r0 is not None else 'ranked = [argmax relevance]', 'the ranking starts with a feature of maximal relevance', 'the ranked list must start with [a feature of maximal relevance]', soft=not uses_min)

    # -- 4 objective
    helper = next((f for q, f in m.funcs.items() if q.startswith('rank_features_3MR.')), None)
    BC = {'f': cv}
    X = lambda src: expected_term(m, src, BC)
    wants = []
    if helper is not None:
        hn = helper.name
        hp = helper.params
        flagp = hp[1] if len(hp) > 1 else None
        red_forms = [f'{hn}(f)', f'{hn}(f, True)'] + ([f'{hn}(f, {flagp}=True)'] if flagp else [])
        rel_forms = [f'{hn}(f, False)'] + ([f'{hn}(f, {flagp}=False)'] if flagp else [])
        wants += [X(f'{rel}[f] - {alpha} * {a_} + {beta} * {b2}') for a_ in red_forms for b2 in rel_forms]
        # a helper that receives the dictionary to aggregate over instead of a flag
        wants_by_dict = [X(f'{rel}[f] - {alpha} * {hn}(f, {red}) + {beta} * {hn}(f, {relat})')]
    # the same objective with the aggregation written out (no closure)
    def agg(dname):
        vals = f'[{dname}.get((r, f), 0) for r in {ranked}]'
        return [f"(numpy.median({vals}) if {strategy} == 'median' else (numpy.mean({vals}) if {strategy} == 'mean' else sum({vals})))"]
    wants_inl = [X(f'{rel}[f] - {alpha} * {a_} + {beta} * {b2}') for a_ in agg(red) for b2 in agg(relat)]
    # the aggregate chosen once before the rounds: AGG = {'median': np.median, 'mean': np.mean}.get(strategy, sum)
    dispatch = E(f"{{'median': numpy.median, 'mean': numpy.mean}}.get({strategy}, sum)")
    for k0, v0 in env0.items():
        if v0 is not None and term_of(fn, v0, inline=False) == dispatch:
            vals = lambda dname: f'[{dname}.get((r, f), 0) for r in {ranked}]'
            wants_inl.append(X(f'{rel}[f] - {alpha} * {k0}({vals(red)}) + {beta} * {k0}({vals(relat)})'))
    # the objective decided per aggregation strategy: one round is evaluated with the strategy fixed (closures and helpers evaluated, dispatch
    # tables looked up, conditional expressions decided), and must then be relevance - alpha * AGG(redundancy) + beta * AGG(relation) with AGG the
    # aggregate that strategy names
    per_strategy = objective_per_strategy(fn, wl, env0, strategy, rel, ranked, cv, _rep)
    vals_src = lambda dname: f'[{dname}.get((r, f), 0) for r in {ranked}]'
    decided = None
    if per_strategy is not None:
        decided = []
        for sval, aggs in (('median', ('numpy.median',)), ('mean', ('numpy.mean',)), ('some-other-strategy', ('sum', 'numpy.sum'))):
            got = per_strategy.get(sval)
            want_s = [X(f'{rel}[f] - {alpha} * {ag}({vals_src(red)}) + {beta} * {ag}({vals_src(relat)})') for ag in aggs]
            if got is None:
                decided = None
                break
            decided.append((sval, got, want_s))
    if decided is not None and all(got in want_s for _, got, want_s in decided):
        chk.ok('C17.4', 'R15', fn.site(wl), '; '.join(f'{sv}: {show(g)[:60]}' for sv, g, _ in decided)[:200], "objective = relevance - alpha * agg(redundancy) + beta * agg(relation) with agg = median / mean / sum as the strategy names (decided per strategy)")
        chk.ok('C17.5', 'R7', fn.site(wl), 'aggregation evaluated as part of the objective', "the aggregate ranges over all ranked features, missing pairs count 0, 'median' -> np.median, 'mean' -> np.mean, otherwise sum")
    elif decided is not None and all(got in want_s or within_vocabulary(got, want_s) for _, got, want_s in decided):
        sv, got, want_s = next((sv, g, w) for sv, g, w in decided if g not in w)
        chk.bad('C17.4', 'R15', fn.site(wl), f'strategy {sv!r}: {show(got)[:180]}', f'with strategy {sv!r} the objective must be {show(want_s[0])[:160]}; found {show(got)[:200]}')
    elif helper is not None and obj in wants_by_dict and obj in wants_inl:
        chk.ok('C17.4', 'R15', fn.site(wl), show(obj)[:160], 'objective = relevance - alpha * agg(redundancy) + beta * agg(relation), aggregation over all ranked features written out')
    elif obj in wants:
        chk.ok('C17.4', 'R15', fn.site(wl), show(obj)[:160], 'objective = relevance - alpha * agg(redundancy) + beta * agg(relation)')
        # -- 5 aggregation helper
        aggregator(chk, fn, helper, ranked, red, relat, strategy, E)
    elif obj in wants_inl:
        chk.ok('C17.4', 'R15', fn.site(wl), show(obj)[:160], 'objective = relevance - alpha * agg(redundancy) + beta * agg(relation), aggregation over all ranked features written out')
    else:
        chk.expect_term(obj, wants + wants_inl, 'C17.4', 'R15', fn.site(wl), show(obj)[:200], '', f'the objective must be relevance[f] - alpha * aggregate(redundancy with ranked) + beta * aggregate(relation with ranked); found {show(obj)[:200]}')
        if helper is not None:
            aggregator(chk, fn, helper, ranked, red, relat, strategy, E)

    # -- 6 ranks
    if len(rets) == 1:
        rt = term_of(fn, rets[0].value, inline=False)
        okk = rt in (E(f"pandas.DataFrame({{'Feature': {ranked}, '3MR_Ranking': range(1, len({ranked}) + 1)}})"), E(f"pandas.DataFrame({{'Feature': {ranked}, '3MR_Ranking': list(range(1, len({ranked}) + 1))}})"),
                     E(f"pandas.DataFrame({{'Feature': {ranked}, '3MR_Ranking': numpy.arange(1, len({ranked}) + 1)}})"))
        chk.expect(okk, 'C17.6', 'R15', fn.site(rets[0]), ast.unparse(rets[0]), 'ranks 1..n in list order', f'the result must pair the ranked list with ranks range(1, n+1); found {show(rt)[:160]}')
    call_site(repo, chk, fn)


def objective_per_strategy(fn, wl, env0, strategy, rel, ranked, cv, _rep):
    """{strategy value: objective term of one candidate (candidate = role marker)} from evaluating one greedy round with the strategy fixed; None when a
    round cannot be evaluated that way"""
    from ..match import run_paths
    from ..terms import pattern, unify, walk_term, alpha_norm
    m = fn.module
    assigned = {x.id for x in ast.walk(wl) if isinstance(x, ast.Name) and isinstance(x.ctx, ast.Store)}
    # bindings made before the rounds that depend on the strategy (e.g. the aggregate chosen once)
    env = {k: v for k, v in env0.items() if v is not None and k not in assigned and k != strategy and any(isinstance(x, ast.Name) and x.id == strategy for x in ast.walk(v))}
    out = {}
    for sval in ('median', 'mean', 'some-other-strategy'):
        try:
            ps = run_paths(fn, lambda e: isinstance(e, ast.Name) and e.id == strategy, sval, max_forks=3, body=wl.body, env=dict(env), eval_closures=True)
        except Exception:
            return None
        if ps is None or len(ps) != 1 or ps[0][1].unknown is not None:
            return None
        res = ps[0][1]
        apps = [c for c in res.calls if isinstance(c['call'].func, ast.Attribute) and c['call'].func.attr == 'append' and isinstance(c['call'].func.value, ast.Name) and c['call'].func.value.id == ranked]
        if len(apps) != 1:
            return None
        pt = term_of(fn, apps[0]['call'].args[0], inline=False)
        b_ = unify(pattern(m, '__argmax__(GEN, start=S, strict=ST, rel=RL, tracked=TR, unset=UN)', ['GEN', 'S', 'ST', 'RL', 'TR', 'UN']), pt)
        if b_ is None or b_['GEN'][0] != 'genexp' or len(b_['GEN'][2]) != 1:
            return None
        allcv = sorted({x for x in walk_term(pt) if isinstance(x, tuple) and len(x) == 3 and x[0] == 'cvar' and isinstance(x[1], int)}, key=lambda x: x[1])
        cand_var = next((x[2] for x in walk_term(b_['GEN'][1]) if isinstance(x, tuple) and len(x) == 3 and x[0] == 'sub' and x[1] == ('name', rel) and isinstance(x[2], tuple) and x[2][:1] == ('cvar',)), allcv[0] if allcv else ('cvar', 0, 0))
        out[sval] = alpha_norm(_rep(b_['GEN'][1], cand_var, cv))
    return out


def aggregator(chk, fn, helper, ranked, red, relat, strategy, E):
    m = fn.module
    hp = helper.params
    feat, flag = hp[0], (hp[1] if len(hp) > 1 else None)
    loops = [n for n in own_nodes(helper.node) if isinstance(n, ast.For)]
    rets = [r for r in returns(helper) if not isinstance(r.value, ast.Constant)]
    comps = [n for n in own_nodes(helper.node) if isinstance(n, ast.Assign) and isinstance(n.value, (ast.ListComp, ast.GeneratorExp)) and isinstance(n.targets[0], ast.Name)]
    if not loops and len(comps) == 1 and len(rets) == 1:
        # comprehension form: values = [D.get((r, feat), 0) for r in ranked]
        lc = comps[0].value
        g = lc.generators[0]
        vals = comps[0].targets[0].id
        okdom = len(lc.generators) == 1 and isinstance(g.target, ast.Name) and term_of(helper, g.iter, inline=False) == ('name', ranked)
        chk.expect(okdom, 'C17.5a', 'R13', helper.site(comps[0]), ast.unparse(g.iter), 'one value per already-ranked feature', 'the aggregate must range over all already-ranked features')
        chk.expect(not g.ifs, 'C17.5c', 'R13', helper.site(comps[0]), ast.unparse(lc).replace('\n', ' ')[:160], 'every ranked feature contributes a value (0 when the pair is absent)',
                   'pairs that are absent from the dictionary are skipped instead of counting as 0: the aggregate (median/mean) over the ranked features changes')
        if okdom:
            r = g.target.id
            t = Canon(m, Scope(helper), inline=True, bound={r: ('cvar', 0, 0)}).t(lc.elt)
            B = {'r': ('cvar', 0, 0)}
            forms = [E(f'({red} if {flag} else {relat}).get((r, {feat}), 0)', B), E(f'{red}.get((r, {feat}), 0) if {flag} else {relat}.get((r, {feat}), 0)', B),
                     E(f'({relat} if not {flag} else {red}).get((r, {feat}), 0)', B)]
            chk.expect(t in forms, 'C17.5b', 'R15', helper.site(comps[0]), ast.unparse(lc.elt), 'pair key (ranked feature, candidate); missing pairs count as 0; flag selects the redundancy dictionary',
                       f'each ranked feature must contribute dict.get((ranked, candidate), 0) from the dictionary the flag selects; found {show(t)[:160]}')
        rt = Canon(m, Scope(None), inline=False).t(rets[0].value)
        forms = [E(f"numpy.median({vals}) if {strategy} == 'median' else (numpy.mean({vals}) if {strategy} == 'mean' else sum({vals}))"),
                 E(f"numpy.median({vals}) if {strategy} == 'median' else (numpy.mean({vals}) if {strategy} == 'mean' else numpy.sum({vals}))")]
        chk.expect(rt in forms, 'C17.5e', 'R7', helper.site(rets[0]), ast.unparse(rets[0]), "'median' -> np.median, 'mean' -> np.mean, otherwise sum", f"the aggregate must be np.median for 'median', np.mean for 'mean', sum otherwise; found {show(rt)[:200]}")
        return
    if len(rets) > 1:
        # several returns: what is returned for the strategy 'median', evaluated on the path of that strategy
        from ..match import run_paths
        try:
            ps = run_paths(helper, lambda e: isinstance(e, ast.Name) and e.id == strategy, 'median', max_forks=3)
        except Exception:
            ps = None
        for _a, res in (ps or []):
            if res.unknown is None and res.returned is not None:
                rt_ = Canon(m, Scope(None), inline=False).t(res.returned)
                fns = {x[1] for x in walk_term(rt_) if isinstance(x, tuple) and len(x) == 4 and x[0] == 'call'}
                if not (fns & {('lib', 'numpy.median'), ('lib', 'statistics.median'), ('lib', 'numpy.nanmedian')}) and fns & {('name', 'sorted'), ('lib', 'numpy.sort'), ('lib', 'numpy.partition')}:
                    chk.bad('C17.5e', 'R7', helper.site(res.returned) if hasattr(res.returned, 'lineno') else helper.site(), ast.unparse(res.returned)[:100], "for the strategy 'median' the helper returns an element of the sorted "
                            'values (sorted(v)[len(v) // 2]): for an even number of already ranked features that is the upper of the two middle values, not their mean - the aggregate is not the median')
                    return
    if len(loops) != 1 or len(rets) != 1 or not isinstance(loops[0].target, ast.Name):
        chk.unsure('C17.5', 'R7', helper.site(), 'aggregation helper', 'unexpected structure of the aggregation helper')
        return
    lp = loops[0]
    r = lp.target.id
    chk.expect(term_of(helper, lp.iter, inline=False) == ('name', ranked), 'C17.5a', 'R13', helper.site(lp), ast.unparse(lp.iter), 'one value per already-ranked feature', 'the aggregate must range over all already-ranked features')
    aps = [c for c in ast.walk(lp) if isinstance(c, ast.Call) and isinstance(c.func, ast.Attribute) and c.func.attr == 'append']
    sc = Scope(helper)
    by_dict = {}
    uncond = True
    par = parents(helper.node)
    for a in aps:
        t = Canon(m, sc, inline=True).t(a.args[0])
        for dname, label in ((red, 'redundancy'), (relat, 'relation')):
            if t in (E(f'{dname}.get(({r}, {feat}), 0)'), E(f'{dname}.get(({r}, {feat}), 0.0)')):
                by_dict[label] = a
        # the only guard allowed around an append is the redundancy/relation flag
        cur = par.get(a)
        while cur is not None and cur is not lp:
            if isinstance(cur, ast.If) and ast.unparse(cur.test) not in (flag, f'not {flag}'):
                uncond = False
            cur = par.get(cur)
    chk.expect(set(by_dict) == {'redundancy', 'relation'} and len(aps) == 2, 'C17.5b', 'R15', helper.site(lp), '; '.join(ast.unparse(a) for a in aps)[:200], 'pair key (ranked feature, candidate); missing pairs count as 0',
               f'each ranked feature must contribute dict.get((ranked, candidate), 0) for the redundancy resp. relation dictionary; found {[ast.unparse(a) for a in aps]}')
    chk.expect(uncond, 'C17.5c', 'R13', helper.site(lp), 'append on every iteration', 'every ranked feature contributes a value (0 when the pair is absent)', 'a value must be appended for every ranked feature (absent pairs count as 0, they are not skipped)')
    if set(by_dict) == {'redundancy', 'relation'} and flag:
        # flag True -> redundancy
        a = by_dict['redundancy']
        cur = par.get(a)
        side_ok = False
        while cur is not None and cur is not lp:
            if isinstance(cur, ast.If):
                in_body = any(x is a for s in cur.body for x in ast.walk(s))
                side_ok = (ast.unparse(cur.test) == flag and in_body) or (ast.unparse(cur.test) == f'not {flag}' and not in_body)
            cur = par.get(cur)
        chk.expect(side_ok, 'C17.5d', 'R6', helper.site(a), ast.unparse(a), 'the flag selects the redundancy dictionary, its negation the relation dictionary', 'redundancy and relation dictionaries are swapped with respect to the flag')
    vals = aps[0].func.value.id if aps and isinstance(aps[0].func.value, ast.Name) else 'values'
    rt = Canon(m, Scope(None), inline=False).t(rets[0].value)
    forms = [E(f"numpy.median({vals}) if {strategy} == 'median' else (numpy.mean({vals}) if {strategy} == 'mean' else sum({vals}))"),
             E(f"numpy.median({vals}) if {strategy} == 'median' else (numpy.mean({vals}) if {strategy} == 'mean' else numpy.sum({vals}))"),
             E(f"numpy.mean({vals}) if {strategy} == 'mean' else (numpy.median({vals}) if {strategy} == 'median' else sum({vals}))")]
    chk.expect(rt in forms, 'C17.5e', 'R7', helper.site(rets[0]), ast.unparse(rets[0]), "'median' -> np.median, 'mean' -> np.mean, otherwise sum", f"the aggregate must be np.median for 'median', np.mean for 'mean', sum otherwise; found {show(rt)[:200]}")


def call_site(repo, chk, fn):
    rk = repo.func(TR, 'outrank_task_conduct_ranking')
    cs = [c for c in calls(rk) if rk.module.dotted(c.func) == f'{fn.module.name}.{fn.qualname}']
    if len(cs) != 1:
        chk.unsure('C17.7', 'R6', rk.site(), 'rank_features_3MR(...)', f'{len(cs)} call sites')
        return
    ba = bind_args(cs[0], fn)
    p = fn.params
    names = {k: ast.unparse(v) for k, v in ba.items()}
    ok = 'relevance' in names.get(p[0], '') and 'redundanc' in names.get(p[1], '') and 'relation' in names.get(p[2], '')
    chk.expect(ok, 'C17.7a', 'R6', rk.site(cs[0]), ast.unparse(cs[0]), 'relevance, redundancy and relation dictionaries are passed in their roles', f'arguments are not in the callee\'s parameter order (relevance, redundancy, relations): {names}')
    # symmetrised relation dictionary
    rname = names.get(p[2])
    ups = [c for c in calls(rk, attr='update') if isinstance(c.func.value, ast.Name) and c.func.value.id == rname]
    oks = False
    for u in ups:
        if u.args and isinstance(u.args[0], ast.DictComp) and isinstance(u.args[0].key, ast.Tuple):
            k = [ast.unparse(e) for e in u.args[0].key.elts]
            oks = k == ['row.FeatureB', 'row.FeatureA']
            if k == ['row.FeatureA', 'row.FeatureB']:
                # the same orientation as the first fill: found and wrong
                chk.bad('C17.7b', 'R6', rk.site(u), ast.unparse(u).replace('\n', ' ')[:140], 'the relation dictionary is "mirrored" with the keys in the SAME orientation (FeatureA, FeatureB) as its first fill: the update changes nothing, '
                        'the pairs (b, a) stay missing and count as 0, so the relation of a pair is lost whenever the already ranked feature is its second component')
                return
    if not oks and ups:
        # other spellings of the mirrored pairs: .update(dict(zip(zip(df[B], df[A]), scores))) with the two name columns swapped w.r.t. the first fill
        def _resolve(e, depth=0):
            if isinstance(e, ast.Name) and depth < 4:
                ds = [n.value for n in own_nodes(rk.node) if isinstance(n, ast.Assign) and len(n.targets) == 1 and isinstance(n.targets[0], ast.Name) and n.targets[0].id == e.id]
                if ds:
                    return _resolve(ds[-1], depth + 1)
            return e
        for u in ups:
            a0 = _resolve(u.args[0]) if u.args else None
            txt = ast.unparse(a0) if a0 is not None else ''
            cols = [c.value if isinstance(c, ast.Constant) else getattr(c, 'attr', None) for x in ast.walk(a0) if a0 is not None for c in ([x.slice] if isinstance(x, ast.Subscript) else ([x] if isinstance(x, ast.Attribute) else []))] if a0 is not None else []
            # the argument itself, or the `pairs` it zips (bound just before), names FeatureB before FeatureA
            prev = [n for n in own_nodes(rk.node) if isinstance(n, ast.Assign) and n.lineno <= u.lineno and any(isinstance(t, ast.Name) and t.id == 'pairs' for t in n.targets)]
            ptxt = ast.unparse(prev[-1].value) if prev else ''
            for t_ in (txt, ptxt):
                if 'FeatureB' in t_ and 'FeatureA' in t_ and t_.index('FeatureB') < t_.index('FeatureA') and 'zip' in t_:
                    oks = True
        if not oks:
            chk.unsure('C17.7b', 'R6', rk.site(ups[0]), ast.unparse(ups[0]).replace('\n', ' ')[:140], 'the relation dictionary is extended, but not in a form recognised as the mirrored pairs (b, a)')
            ups = None
    if ups is not None:
      chk.expect(oks, 'C17.7b', 'R6', rk.site(ups[0]) if ups else rk.site(cs[0]), ast.unparse(ups[0]).replace('\n', ' ')[:140] if ups else f'{rname}.update(mirrored)', 'relation scores are available for both orders of a pair', 'the relation dictionary must be symmetrised (both (a, b) and (b, a))')
