"""C17 - 3MR ranking is a greedy-optimal permutation of the features.

 1 permutation: candidates of a round are all - set(ranked); exactly one append per round, of a variable assigned only from the
   candidate loop variable; the loop runs until the lengths are equal
 2 start: a feature of maximal relevance
 3 arg-max discipline: running best initialised to -inf in every round; updated under importance > best (or >=)
 4 objective: relevance[f] - alpha * agg(redundancy) + beta * agg(relation)
 5 aggregator table: 'median' -> np.median, 'mean' -> np.mean, otherwise sum; missing pairs via .get(pair, 0) appended
   unconditionally for every ranked feature; pair key is (ranked feature, candidate)
 6 ranks are range(1, n+1) in list order
 7 task_ranking passes (relevance, redundancy, relations) in the callee's parameter order; relation dictionary symmetrised
"""
from __future__ import annotations

import ast

from ..match import bind_args, calls, expected_term, returns, term_of
from ..model import own_nodes, parents
from ..terms import Canon, Scope, show

EXPLANATION = ('Structural rules over rank_features_3MR: candidate domain and single append per round (permutation by construction), arg-max discipline (initial -inf, strict/non-strict '
               'improvement test, joint update of best value and best feature), canonical-term equality (R15) of the objective, exhaustive dispatch (R7) of the aggregator, '
               'default 0 for missing pairs, rank labels; sibling agreement (R6) of the call in task_ranking. Decides the algorithm\'s shape, not rankings of actual data.')
TRUSTED_BASE = ['max(items, key=itemgetter(1)) returns an item of maximal value; np.median / np.mean / sum semantics']
ASSUMPTIONS = ['ties may be broken arbitrarily (the statement allows any maximiser)']

IE = 'outrank.algorithms.importance_estimator'
TR = 'outrank.task_ranking'


def run(repo, chk, tier):
    fn = repo.func(IE, 'rank_features_3MR')
    m = fn.module
    p = fn.params
    rel, red, relat, strategy, alpha, beta = p[0], p[1], p[2], p[3], p[4], p[5]
    E = lambda s, b=None: expected_term(m, s, b or {})
    scope = Scope(fn)

    # the ranked list and the set of all features
    rets = returns(fn)
    whiles = [n for n in own_nodes(fn.node) if isinstance(n, ast.While)]
    if len(whiles) != 1:
        chk.bad('C17.1a', 'R13', fn.site(), 'while len(ranked) < len(all_features)', f'{len(whiles)} selection loops found (expected one while loop)')
        return
    wl = whiles[0]
    appends = [c for c in ast.walk(wl) if isinstance(c, ast.Call) and isinstance(c.func, ast.Attribute) and c.func.attr == 'append' and isinstance(c.func.value, ast.Name)]
    if len(appends) != 1:
        chk.bad('C17.1b', 'R13', fn.site(wl), 'ranked.append(best)', f'{len(appends)} appends inside the selection loop: each round must place exactly one feature')
        return
    ranked = appends[0].func.value.id
    best_name = appends[0].args[0].id if isinstance(appends[0].args[0], ast.Name) else None
    # all_features
    t = term_of(fn, wl.test, inline=False)
    allf = None
    for cand in scope.defs:
        d = scope.single_def(cand)
        if d is not None and term_of(fn, d, inline=True) in (E(f'set({rel}.keys())'), E(f'set({rel})'), E(f'list({rel}.keys())'), E(f'list({rel})')):
            allf = cand
    if allf is None:
        chk.bad('C17.1c', 'origin', fn.site(), f'all_features = set({rel}.keys())', 'the set of features to rank is not the key set of the relevance dictionary')
        return
    chk.expect(t == E(f'len({ranked}) < len({allf})'), 'C17.1a', 'R14', fn.site(wl), ast.unparse(wl.test), 'rounds continue until every feature is placed', f'the loop must run while len(ranked) < len(all features); found {show(t)[:100]}')
    # append is at the top level of the while body (once per round), not inside the candidate loop
    chk.expect(any(isinstance(s, ast.Expr) and s.value is appends[0] for s in wl.body), 'C17.1b', 'R13', fn.site(appends[0]), ast.unparse(appends[0]), 'exactly one feature is placed per round', 'the append must happen exactly once per round (at the top level of the while body)')
    # candidate loop
    fors = [n for n in wl.body if isinstance(n, ast.For)]
    if len(fors) != 1 or not isinstance(fors[0].target, ast.Name):
        chk.bad('C17.1d', 'R13', fn.site(wl), f'for feat in {allf} - set({ranked})', 'candidate loop not found')
        return
    fl = fors[0]
    cand = fl.target.id
    it = term_of(fn, fl.iter, inline=False)
    forms = [E(f'{allf} - set({ranked})'), E(f'{allf}.difference({ranked})'), E(f'{allf}.difference(set({ranked}))'), E(f'[f for f in {allf} if f not in {ranked}]'), E(f'(f for f in {allf} if f not in {ranked})'),
             E(f'set({allf}) - set({ranked})')]
    chk.expect(it in forms, 'C17.1d', 'R15', fn.site(fl), ast.unparse(fl.iter), 'candidates = features not yet ranked (so no feature is placed twice and none is left out)', f'candidates of a round must be all_features - set(ranked); found {show(it)[:100]}')
    # best variable is assigned only from the candidate loop variable (besides its reset)
    bdefs = [n for n in ast.walk(wl) if isinstance(n, ast.Assign) and any(isinstance(tg, ast.Name) and tg.id == best_name for tg in n.targets)]
    okb = best_name is not None and all((isinstance(d.value, ast.Name) and d.value.id == cand) or (isinstance(d.value, ast.Constant) and d.value.value is None and d in wl.body) for d in bdefs) and any(isinstance(d.value, ast.Name) for d in bdefs)
    chk.expect(okb, 'C17.1e', 'origin', fn.site(appends[0]), f'{best_name} <- {cand}', 'the placed feature is one of the remaining candidates', 'the feature placed in a round must be assigned only from the candidate loop variable')

    # -- 2 start
    init = [n for n in own_nodes(fn.node) if isinstance(n, ast.Assign) and any(isinstance(tg, ast.Name) and tg.id == ranked for tg in n.targets)]
    oks = False
    if len(init) == 1 and isinstance(init[0].value, ast.List) and len(init[0].value.elts) == 1:
        e0 = init[0].value.elts[0]
        if isinstance(e0, ast.Name):
            prev = [n for n in fn.node.body if isinstance(n, ast.Assign) and isinstance(n.targets[0], ast.Name) and n.targets[0].id == e0.id and n.lineno < init[0].lineno]
            if prev:
                e0 = prev[-1].value
        st = term_of(fn, e0, inline=False)
        oks = st in (E(f'max({rel}.items(), key=operator.itemgetter(1))[0]'), E(f'max({rel}, key={rel}.get)'), E(f'max({rel}.keys(), key={rel}.get)'), E(f'max({rel}.items(), key=lambda kv: kv[1])[0]'),
                     E(f'max({rel}, key=lambda k: {rel}[k])'))
    chk.expect(oks, 'C17.2', 'R15', fn.site(init[0]) if init else fn.site(), ast.unparse(init[0]) if init else 'ranked = [argmax relevance]', 'the ranking starts with a feature of maximal relevance', 'the ranked list must start with [a feature of maximal relevance]')

    # -- 3 arg-max discipline
    upd = [n for n in ast.walk(fl) if isinstance(n, ast.If) and any(isinstance(x, ast.Assign) and any(isinstance(tg, ast.Name) and tg.id == best_name for tg in x.targets) for x in n.body)]
    if len(upd) != 1:
        chk.bad('C17.3', 'R14', fn.site(fl), 'if importance > top: top = importance; best = feat', 'improvement test not found')
        return
    u = upd[0]
    ut = term_of(fn, u.test, inline=False)
    top_name = None
    imp_name = None
    if ut[0] == 'cmp' and ut[1] in ('<', '<=') and ut[2][0] == 'name' and ut[3][0] == 'name':
        top_name, imp_name = ut[2][1], ut[3][1]
    okt = top_name is not None
    chk.expect(okt, 'C17.3a', 'R14', fn.site(u), ast.unparse(u.test), 'a candidate replaces the running best iff its objective is larger', f'the improvement test must be exactly `importance > best_so_far` (or >=); found {show(ut)[:100]}')
    if not okt:
        return
    sets_top = any(isinstance(x, ast.Assign) and isinstance(x.targets[0], ast.Name) and x.targets[0].id == top_name and isinstance(x.value, ast.Name) and x.value.id == imp_name for x in u.body)
    chk.expect(sets_top and not u.orelse, 'C17.3b', 'R13', fn.site(u), ast.unparse(u).replace('\n', ' ')[:120], 'best value and best feature are updated together', 'when a candidate improves, both the running best value and the best feature must be updated (and nothing else)')
    resets = [s for s in wl.body if isinstance(s, ast.Assign) and isinstance(s.targets[0], ast.Name) and s.targets[0].id == top_name and s.lineno < fl.lineno]
    okr = len(resets) == 1 and term_of(fn, resets[0].value, inline=False) in (E('-numpy.inf'), E("float('-inf')"), E('-math.inf'), E("-float('inf')"))
    other_top = [n for n in own_nodes(fn.node) if isinstance(n, (ast.Assign, ast.AugAssign)) and any(isinstance(tg, ast.Name) and tg.id == top_name for tg in (n.targets if isinstance(n, ast.Assign) else [n.target])) and n not in resets and not any(x is n for x in ast.walk(u))]
    chk.expect(okr and not other_top, 'C17.3c', 'R8', fn.site(resets[0]) if resets else fn.site(wl), ast.unparse(resets[0]) if resets else f'{top_name} = -np.inf', 'the running best starts at -inf in every round (any finite objective beats it)',
               'the running best must be reset to -inf at the start of every round: with another sentinel a maximal candidate (e.g. objective 0 or negative) can be overlooked')

    # -- 4 objective
    idef = [n for n in ast.walk(fl) if isinstance(n, ast.Assign) and isinstance(n.targets[0], ast.Name) and n.targets[0].id == imp_name]
    helper = next((f for q, f in m.funcs.items() if q.startswith('rank_features_3MR.') ), None)
    if len(idef) != 1 or helper is None:
        chk.bad('C17.4', 'R15', fn.site(fl), 'importance = relevance - alpha * redundancy + beta * relation', 'objective definition (or its aggregation helper) not found')
        return
    hn = helper.name
    loop_scope_defs = {}
    for n in ast.walk(fl):
        if isinstance(n, ast.Assign) and isinstance(n.targets[0], ast.Name):
            loop_scope_defs.setdefault(n.targets[0].id, []).append(n.value)
    bound = {}
    cn = Canon(m, Scope(None), inline=False, bound={})

    def inl(e, depth=0):
        # inline names defined exactly once inside the candidate loop
        class T(ast.NodeTransformer):
            def visit_Name(self, node):
                if node.id in loop_scope_defs and len(loop_scope_defs[node.id]) == 1 and node.id != imp_name and depth < 5:
                    return inl(loop_scope_defs[node.id][0], depth + 1)
                return node
        import copy
        return T().visit(copy.deepcopy(e))
    ot = cn.t(inl(idef[0].value))
    hp = helper.params
    flagp = hp[1] if len(hp) > 1 else None
    red_forms = [f'{hn}({cand})', f'{hn}({cand}, True)', f'{hn}({cand}, {flagp}=True)']
    rel_forms = [f'{hn}({cand}, False)', f'{hn}({cand}, {flagp}=False)']
    wants = [E(f'{rel}[{cand}] - {alpha} * {a} + {beta} * {b}') for a in red_forms for b in rel_forms]
    chk.expect(ot in wants, 'C17.4', 'R15', fn.site(idef[0]), ast.unparse(idef[0]), 'objective = relevance - alpha * agg(redundancy) + beta * agg(relation)',
               f'the objective must be relevance[f] - alpha * aggregate(redundancy with ranked) + beta * aggregate(relation with ranked); found {show(ot)[:200]}')

    # -- 5 aggregation helper
    aggregator(chk, fn, helper, ranked, red, relat, strategy, E)

    # -- 6 ranks
    if len(rets) == 1:
        rt = term_of(fn, rets[0].value, inline=False)
        okk = rt in (E(f"pandas.DataFrame({{'Feature': {ranked}, '3MR_Ranking': range(1, len({ranked}) + 1)}})"), E(f"pandas.DataFrame({{'Feature': {ranked}, '3MR_Ranking': list(range(1, len({ranked}) + 1))}})"),
                     E(f"pandas.DataFrame({{'Feature': {ranked}, '3MR_Ranking': numpy.arange(1, len({ranked}) + 1)}})"))
        chk.expect(okk, 'C17.6', 'R15', fn.site(rets[0]), ast.unparse(rets[0]), 'ranks 1..n in list order', f'the result must pair the ranked list with ranks range(1, n+1); found {show(rt)[:160]}')
    call_site(repo, chk, fn)


def aggregator(chk, fn, helper, ranked, red, relat, strategy, E):
    m = fn.module
    hp = helper.params
    feat, flag = hp[0], (hp[1] if len(hp) > 1 else None)
    loops = [n for n in own_nodes(helper.node) if isinstance(n, ast.For)]
    rets = [r for r in returns(helper) if not isinstance(r.value, ast.Constant)]
    comps = [n for n in own_nodes(helper.node) if isinstance(n, ast.Assign) and isinstance(n.value, (ast.ListComp, ast.GeneratorExp)) and isinstance(n.targets[0], ast.Name)]
    if not loops and len(comps) == 1 and len(rets) == 1:
        # comprehension form: values = [D.get((r, feat), 0) for r in ranked]
        lc = comps[0].value
        g = lc.generators[0]
        vals = comps[0].targets[0].id
        okdom = len(lc.generators) == 1 and isinstance(g.target, ast.Name) and term_of(helper, g.iter, inline=False) == ('name', ranked)
        chk.expect(okdom, 'C17.5a', 'R13', helper.site(comps[0]), ast.unparse(g.iter), 'one value per already-ranked feature', 'the aggregate must range over all already-ranked features')
        chk.expect(not g.ifs, 'C17.5c', 'R13', helper.site(comps[0]), ast.unparse(lc).replace('\n', ' ')[:160], 'every ranked feature contributes a value (0 when the pair is absent)',
                   'pairs that are absent from the dictionary are skipped instead of counting as 0: the aggregate (median/mean) over the ranked features changes')
        if okdom:
            r = g.target.id
            t = Canon(m, Scope(helper), inline=True, bound={r: ('cvar', 0, 0)}).t(lc.elt)
            B = {'r': ('cvar', 0, 0)}
            forms = [E(f'({red} if {flag} else {relat}).get((r, {feat}), 0)', B), E(f'{red}.get((r, {feat}), 0) if {flag} else {relat}.get((r, {feat}), 0)', B),
                     E(f'({relat} if not {flag} else {red}).get((r, {feat}), 0)', B)]
            chk.expect(t in forms, 'C17.5b', 'R15', helper.site(comps[0]), ast.unparse(lc.elt), 'pair key (ranked feature, candidate); missing pairs count as 0; flag selects the redundancy dictionary',
                       f'each ranked feature must contribute dict.get((ranked, candidate), 0) from the dictionary the flag selects; found {show(t)[:160]}')
        rt = Canon(m, Scope(None), inline=False).t(rets[0].value)
        forms = [E(f"numpy.median({vals}) if {strategy} == 'median' else (numpy.mean({vals}) if {strategy} == 'mean' else sum({vals}))"),
                 E(f"numpy.median({vals}) if {strategy} == 'median' else (numpy.mean({vals}) if {strategy} == 'mean' else numpy.sum({vals}))")]
        chk.expect(rt in forms, 'C17.5e', 'R7', helper.site(rets[0]), ast.unparse(rets[0]), "'median' -> np.median, 'mean' -> np.mean, otherwise sum", f"the aggregate must be np.median for 'median', np.mean for 'mean', sum otherwise; found {show(rt)[:200]}")
        return
    if len(loops) != 1 or len(rets) != 1 or not isinstance(loops[0].target, ast.Name):
        chk.unsure('C17.5', 'R7', helper.site(), 'aggregation helper', 'unexpected structure of the aggregation helper')
        return
    lp = loops[0]
    r = lp.target.id
    chk.expect(term_of(helper, lp.iter, inline=False) == ('name', ranked), 'C17.5a', 'R13', helper.site(lp), ast.unparse(lp.iter), 'one value per already-ranked feature', 'the aggregate must range over all already-ranked features')
    aps = [c for c in ast.walk(lp) if isinstance(c, ast.Call) and isinstance(c.func, ast.Attribute) and c.func.attr == 'append']
    sc = Scope(helper)
    by_dict = {}
    uncond = True
    par = parents(helper.node)
    for a in aps:
        t = Canon(m, sc, inline=True).t(a.args[0])
        for dname, label in ((red, 'redundancy'), (relat, 'relation')):
            if t in (E(f'{dname}.get(({r}, {feat}), 0)'), E(f'{dname}.get(({r}, {feat}), 0.0)')):
                by_dict[label] = a
        # the only guard allowed around an append is the redundancy/relation flag
        cur = par.get(a)
        while cur is not None and cur is not lp:
            if isinstance(cur, ast.If) and ast.unparse(cur.test) not in (flag, f'not {flag}'):
                uncond = False
            cur = par.get(cur)
    chk.expect(set(by_dict) == {'redundancy', 'relation'} and len(aps) == 2, 'C17.5b', 'R15', helper.site(lp), '; '.join(ast.unparse(a) for a in aps)[:200], 'pair key (ranked feature, candidate); missing pairs count as 0',
               f'each ranked feature must contribute dict.get((ranked, candidate), 0) for the redundancy resp. relation dictionary; found {[ast.unparse(a) for a in aps]}')
    chk.expect(uncond, 'C17.5c', 'R13', helper.site(lp), 'append on every iteration', 'every ranked feature contributes a value (0 when the pair is absent)', 'a value must be appended for every ranked feature (absent pairs count as 0, they are not skipped)')
    if set(by_dict) == {'redundancy', 'relation'} and flag:
        # flag True -> redundancy
        a = by_dict['redundancy']
        cur = par.get(a)
        side_ok = False
        while cur is not None and cur is not lp:
            if isinstance(cur, ast.If):
                in_body = any(x is a for s in cur.body for x in ast.walk(s))
                side_ok = (ast.unparse(cur.test) == flag and in_body) or (ast.unparse(cur.test) == f'not {flag}' and not in_body)
            cur = par.get(cur)
        chk.expect(side_ok, 'C17.5d', 'R6', helper.site(a), ast.unparse(a), 'the flag selects the redundancy dictionary, its negation the relation dictionary', 'redundancy and relation dictionaries are swapped with respect to the flag')
    vals = aps[0].func.value.id if aps and isinstance(aps[0].func.value, ast.Name) else 'values'
    rt = Canon(m, Scope(None), inline=False).t(rets[0].value)
    forms = [E(f"numpy.median({vals}) if {strategy} == 'median' else (numpy.mean({vals}) if {strategy} == 'mean' else sum({vals}))"),
             E(f"numpy.median({vals}) if {strategy} == 'median' else (numpy.mean({vals}) if {strategy} == 'mean' else numpy.sum({vals}))"),
             E(f"numpy.mean({vals}) if {strategy} == 'mean' else (numpy.median({vals}) if {strategy} == 'median' else sum({vals}))")]
    chk.expect(rt in forms, 'C17.5e', 'R7', helper.site(rets[0]), ast.unparse(rets[0]), "'median' -> np.median, 'mean' -> np.mean, otherwise sum", f"the aggregate must be np.median for 'median', np.mean for 'mean', sum otherwise; found {show(rt)[:200]}")


def call_site(repo, chk, fn):
    rk = repo.func(TR, 'outrank_task_conduct_ranking')
    cs = [c for c in calls(rk) if rk.module.dotted(c.func) == f'{IE}.rank_features_3MR']
    if len(cs) != 1:
        chk.unsure('C17.7', 'R6', rk.site(), 'rank_features_3MR(...)', f'{len(cs)} call sites')
        return
    ba = bind_args(cs[0], fn)
    p = fn.params
    names = {k: ast.unparse(v) for k, v in ba.items()}
    ok = 'relevance' in names.get(p[0], '') and 'redundanc' in names.get(p[1], '') and 'relation' in names.get(p[2], '')
    chk.expect(ok, 'C17.7a', 'R6', rk.site(cs[0]), ast.unparse(cs[0]), 'relevance, redundancy and relation dictionaries are passed in their roles', f'arguments are not in the callee\'s parameter order (relevance, redundancy, relations): {names}')
    # symmetrised relation dictionary
    rname = names.get(p[2])
    ups = [c for c in calls(rk, attr='update') if isinstance(c.func.value, ast.Name) and c.func.value.id == rname]
    oks = False
    for u in ups:
        if u.args and isinstance(u.args[0], ast.DictComp) and isinstance(u.args[0].key, ast.Tuple):
            k = [ast.unparse(e) for e in u.args[0].key.elts]
            oks = k == ['row.FeatureB', 'row.FeatureA']
    chk.expect(oks, 'C17.7b', 'R6', rk.site(ups[0]) if ups else rk.site(cs[0]), ast.unparse(ups[0]).replace('\n', ' ')[:140] if ups else f'{rname}.update(mirrored)', 'relation scores are available for both orders of a pair', 'the relation dictionary must be symmetrised (both (a, b) and (b, a))')
