"""C06 - the rank graph covers exactly the requested pairs, in both orientations.

 1 mirroring: every pool triplet t contributes exactly (t0,t1,t2) and (t1,t0,t2); Constant lists each pair once with literal 0.0
 2 enumeration per mode is the stated iterator algebra (cwr over the right column set, filtered by "label in pair" in target-only mode,
   relation features x label only for 3MR)
 3 the candidates handed to the pool are the sampler's return value, changed only by random.shuffle (cap before evaluation);
   the sampler reduces the list only by the cap (shared obligation with C07)
 4 names in emitted rows are the names of the evaluated combination, in order
"""
from __future__ import annotations

import ast

from ..match import calls, is_noise_stmt, returns, term_of
from ..model import own_nodes, parents
from ..terms import show
from .c07 import sampler_selection
from .common import CR, enumeration, path_mode

EXPLANATION = ('Tuple-shape analysis of the mirroring loop in mixed_rank_graph; symbolic walk of get_combinations_from_columns classifying every contribution to the returned list '
               '(enumerator kind, column set, arity, filter) per path and comparison with the stated enumeration per mode; reaching-definition / ordering check that the iterable '
               'given to the pool and to the Constant loop is the sampler result touched only by random.shuffle; canonical form of the sampler selection; origin of the names in a triplet.')
TRUSTED_BASE = ['itertools.combinations_with_replacement(S, 2) yields every unordered pair of positions once, self-pairs included, in input order',
                'pathos amap returns one result per input element']
ASSUMPTIONS = ['relation features are exactly the columns whose name contains " AND_REL "']

IE = 'outrank.algorithms.importance_estimator'


def run(repo, chk, tier):
    enumeration_modes(repo, chk)
    mirroring(repo, chk)
    cap_before_evaluation(repo, chk)
    cap_only(repo, chk)
    cap_writers(repo, chk)
    names(repo, chk)


EXPECTED = {
    ('plain', 'pairwise'): {('cwr', 'ALL', 2, None)},
    ('plain', 'target-only'): {('cwr', 'ALL', 2, 'label-in-pair')},
    ('3mr', None): {('cwr', 'NONREL', 2, None), ('with-label', 'REL', 2, None)},
    ('3mr', 'pairwise'): {('cwr', 'NONREL', 2, None), ('with-label', 'REL', 2, None)},
    ('3mr', 'target-only'): {('cwr', 'NONREL', 2, None), ('with-label', 'REL', 2, None)},
}


def enumeration_modes(repo, chk):
    fn, ea = enumeration(repo)
    for s, why in ea.problems:
        chk.unsure('C06.2', 'R15', fn.site(s), ast.unparse(s)[:100], why)
    seen_modes = set()
    done = set()
    for conds, cs, ret in ea.paths:
        mode = path_mode(fn, conds)
        got = {(c.kind, c.colset, c.r, c.flt) for c in cs}
        multiset = sorted((c.kind, str(c.colset), str(c.r), str(c.flt)) for c in cs)
        key = (mode, tuple(multiset))
        if key in done:
            continue
        done.add(key)
        seen_modes.add(mode)
        site = fn.site(ret) if ret is not None else fn.site()
        desc = f'{mode[0]}/{mode[1] or "any"}: ' + (' + '.join(repr(c) for c in cs) or '(nothing returned)')
        if mode[0] is None:
            chk.unsure('C06.2', 'R15', site, desc, 'cannot tell whether this path is the 3MR or the plain enumeration')
            continue
        exp = EXPECTED.get(mode)
        if exp is None and mode[0] == 'plain':
            chk.unsure('C06.2', 'R15', site, desc, 'plain enumeration without a target_ranking_only decision')
            continue
        unknown = [c for c in cs if c.kind == 'unknown']
        if unknown:
            chk.unsure('C06.2', 'R15', site, desc, f'cannot classify {unknown[0].text}')
            continue
        ok = got == exp and len(multiset) == len(exp)
        why = ''
        if not ok:
            extra = got - exp
            missing = exp - got
            bits = []
            if missing:
                bits.append(f'missing {sorted(map(str, missing))}')
            if extra:
                bits.append(f'unexpected {sorted(map(str, extra))}')
            if len(multiset) != len(set(multiset)) or (not extra and not missing):
                bits.append('a contribution is repeated')
            why = (f'in {mode[0]}/{mode[1] or "any"} mode the evaluated pairs must be exactly {sorted(map(str, exp))}; ' + '; '.join(bits) +
                   ' (self-pairs come from combinations_with_replacement; relation features pair with the label only; target-only keeps exactly the pairs containing the label)')
        chk.expect(ok, 'C06.2', 'R15', site, desc, 'enumeration is the stated one for this mode', why)
    for need in (('plain', 'pairwise'), ('plain', 'target-only')):
        chk.expect(need in seen_modes, 'C06.2m', 'R7', fn.site(), f'mode {need}', 'mode has its own enumeration path', f'no enumeration path for mode {need} was found')
    chk.expect(any(m[0] == '3mr' for m in seen_modes), 'C06.2m', 'R7', fn.site(), 'mode 3mr', '3MR has its own enumeration path', 'no enumeration path for 3MR heuristics was found')
    # the function is applied to the batch's own columns
    mrg = repo.func(CR, 'mixed_rank_graph')
    cs = [c for c in calls(mrg) if mrg.module.dotted(c.func) == f'{CR}.get_combinations_from_columns']
    ok = len(cs) == 1 and term_of(mrg, cs[0].args[0]) == term_of(mrg, ast.parse(f'{mrg.params[0]}.columns', mode='eval').body)
    chk.expect(ok, 'C06.5', 'origin', mrg.site(cs[0]) if cs else mrg.site(), ast.unparse(cs[0]) if cs else 'get_combinations_from_columns(...)', 'pairs are enumerated from the columns of the batch frame',
               'get_combinations_from_columns must be applied to input_dataframe.columns: otherwise rows can mention columns that are not in the feature space')


def mirroring(repo, chk):
    fn = repo.func(CR, 'mixed_rank_graph')
    par = parents(fn.node)
    # results of the pool
    # the loop that walks the scored triplets: a for over a named list whose body appends (to a list) the loop variable or tuples built from it
    def walks_triplets(n):
        if not (isinstance(n, ast.For) and isinstance(n.iter, ast.Name) and isinstance(n.target, ast.Name)):
            return False
        t = n.target.id
        for c in ast.walk(n):
            if isinstance(c, ast.Call) and isinstance(c.func, ast.Attribute) and c.func.attr == 'append' and c.args:
                if any(isinstance(x, ast.Name) and x.id == t for x in ast.walk(c.args[0])):
                    return True
                if isinstance(c.args[0], ast.Name):
                    return True
        return False
    loops = [n for n in own_nodes(fn.node) if walks_triplets(n)]
    if len(loops) != 1:
        chk.bad('C06.1a', 'tuple-shape', fn.site(), 'for triplet in <pool results>: ...', 'no loop over the pool results that mirrors every triplet was found')
        return
    lp = loops[0]
    t = lp.target.id
    appends = [c for c in ast.walk(lp) if isinstance(c, ast.Call) and isinstance(c.func, ast.Attribute) and c.func.attr == 'append' and isinstance(c.func.value, ast.Name)]
    lists = {c.func.value.id for c in appends}
    conditional = [x for x in ast.walk(lp) if isinstance(x, (ast.If, ast.Try, ast.For, ast.While, ast.Continue, ast.Break)) and x is not lp]
    shapes = []
    for c in appends:
        a = c.args[0]
        if isinstance(a, ast.Name):
            d = [n for n in ast.walk(lp) if isinstance(n, ast.Assign) and isinstance(n.targets[0], ast.Name) and n.targets[0].id == a.id]
            if a.id == t:
                shapes.append('same')
                continue
            if len(d) == 1:
                a = d[0].value
        if isinstance(a, ast.Tuple) and len(a.elts) == 3:
            idx = []
            for e in a.elts:
                if isinstance(e, ast.Subscript) and isinstance(e.value, ast.Name) and e.value.id == t and isinstance(e.slice, ast.Constant):
                    idx.append(e.slice.value)
                else:
                    idx.append(ast.unparse(e))
            shapes.append(tuple(idx))
        else:
            shapes.append(ast.unparse(a))
    norm = sorted('same' if s == (0, 1, 2) else str(s) for s in shapes)
    ok = len(lists) == 1 and not conditional and norm == sorted(['same', str((1, 0, 2))])
    chk.expect(ok, 'C06.1a', 'tuple-shape', fn.site(lp), f'appends per triplet: {shapes}', 'each triplet contributes exactly (t0,t1,t2) and (t1,t0,t2): both orientations, identical score',
               f'per evaluated pair the loop must append exactly the triplet and its mirror (t[1], t[0], t[2]) unconditionally; found {shapes}{" under a condition" if conditional else ""}')
    # what is returned on this path is that list
    rets = [r for r in returns(fn) if r.lineno > lp.lineno]
    okr = False
    for r in rets:
        a0 = r.value.args[0] if isinstance(r.value, ast.Call) and r.value.args else None
        if isinstance(a0, ast.Name):
            if a0.id in lists:
                okr = True
            else:
                d = [n for n in own_nodes(fn.node) if isinstance(n, ast.Assign) and isinstance(n.targets[0], ast.Name) and n.targets[0].id == a0.id and isinstance(n.value, ast.Name) and n.value.id in lists]
                # `triplets = final_triplets` (re-bound to the mirrored list); the name must not be re-bound to anything else after the loop
                later = [n for n in own_nodes(fn.node) if isinstance(n, ast.Assign) and isinstance(n.targets[0], ast.Name) and n.targets[0].id == a0.id and n.lineno > lp.end_lineno]
                okr = bool(d) and not later
    chk.expect(okr, 'C06.1b', 'origin', fn.site(rets[0]) if rets else fn.site(), ast.unparse(rets[0]) if rets else 'return', 'the batch summary carries the mirrored list', 'the returned triplet list is not the mirrored list')
    # Constant path: (c1, c2, 0.0) once per pair
    cl = [n for n in own_nodes(fn.node) if isinstance(n, ast.For) and isinstance(n.target, ast.Tuple) and len(n.target.elts) == 2]
    okc = False
    for n in cl:
        aps = [c for c in ast.walk(n) if isinstance(c, ast.Call) and isinstance(c.func, ast.Attribute) and c.func.attr == 'append']
        if len(aps) == 1 and isinstance(aps[0].args[0], ast.Tuple) and len(aps[0].args[0].elts) == 3:
            e = aps[0].args[0].elts
            tn = [x.id for x in n.target.elts if isinstance(x, ast.Name)]
            if [getattr(e[0], 'id', None), getattr(e[1], 'id', None)] == tn and isinstance(e[2], ast.Constant) and e[2].value == 0:
                okc = True
                chk.ok('C06.1c', 'tuple-shape', fn.site(n), ast.unparse(aps[0]), 'Constant lists each pair once with literal 0')
    if not okc:
        chk.bad('C06.1c', 'tuple-shape', fn.site(), 'for c1, c2 in combinations: append((c1, c2, 0.0))', 'the Constant heuristic must list each sampled pair once with score 0.0')
    for n in cl:
        g = par.get(n)
        okg = isinstance(g, ast.If) and term_of(fn, g.test, inline=False) == term_of(fn, ast.parse(f"{fn.params[1]}.heuristic == 'Constant'", mode='eval').body, inline=False) and n in g.body
        chk.expect(okg, 'C06.1d', 'R14', fn.site(g) if isinstance(g, ast.If) else fn.site(n), ast.unparse(g.test) if isinstance(g, ast.If) else '(unguarded)', "the one-row-per-pair zero listing is used exactly for the heuristic 'Constant'",
                   "the zero-score shortcut must be guarded by exactly `args.heuristic == 'Constant'`: otherwise scoring heuristics emit single, unmirrored rows with score 0")


def cap_before_evaluation(repo, chk):
    fn = repo.func(CR, 'mixed_rank_graph')
    m = fn.module
    amaps = [c for c in calls(fn) if isinstance(c.func, ast.Attribute) and c.func.attr in ('amap', 'map', 'imap', 'uimap', 'apipe', 'pipe') and len(c.args) >= 2]
    if len(amaps) != 1 or not isinstance(amaps[0].args[1], ast.Name):
        chk.unsure('C06.3', 'origin', fn.site(), 'p.amap(f, combinations)', f'{len(amaps)} pool submissions found, expected one over a named list')
        return
    name = amaps[0].args[1].id
    body = fn.node.body
    top = [s for s in body if (isinstance(s, ast.Assign) and any(isinstance(t, ast.Name) and t.id == name for t in s.targets))]
    all_defs = [n for n in own_nodes(fn.node) if isinstance(n, (ast.Assign, ast.AugAssign)) and any(isinstance(t, ast.Name) and t.id == name for t in (n.targets if isinstance(n, ast.Assign) else [n.target]))]
    sampler_defs = [s for s in all_defs if isinstance(s, ast.Assign) and isinstance(s.value, ast.Call) and m.dotted(s.value.func) == f'{CR}.prior_combinations_sample']
    if len(sampler_defs) != 1 or sampler_defs[0] not in top:
        chk.bad('C06.3', 'origin', fn.site(amaps[0]), ast.unparse(amaps[0]), 'the pairs handed to the pool are not (unconditionally) the return value of prior_combinations_sample: the per-batch cap is not applied before evaluation')
        return
    sd = sampler_defs[0]
    later = [s for s in all_defs if s.lineno > sd.lineno]
    arg0 = sd.value.args[0] if sd.value.args else None
    feeds = isinstance(arg0, ast.Name) and arg0.id == name
    chk.expect(not later and feeds, 'C06.3', 'origin', fn.site(sd), ast.unparse(sd), 'the evaluated list is the sampler result (cap applied before evaluation)',
               'after the cap the candidate list is re-bound or extended again, or the sampler is not fed the enumerated pairs')
    # mutations of the list after the sampler: only random.shuffle
    muts = []
    for n in own_nodes(fn.node):
        if isinstance(n, ast.Call) and n.lineno > sd.lineno:
            if any(isinstance(a, ast.Name) and a.id == name for a in n.args) and m.dotted(n.func) in ('heapq.heapify', 'heapq.heappop', 'heapq.heappush', 'numpy.random.shuffle'):
                muts.append(n)
            if isinstance(n.func, ast.Attribute) and isinstance(n.func.value, ast.Name) and n.func.value.id == name and n.func.attr in ('append', 'extend', 'insert', 'pop', 'remove', 'clear', 'sort'):
                muts.append(n)
    chk.expect(not muts, 'C06.3b', 'origin', fn.site(muts[0]) if muts else fn.site(sd), ast.unparse(muts[0]) if muts else f'{name}: only random.shuffle after the cap', 'between cap and evaluation the list is only shuffled',
               'the capped list is modified (other than by random.shuffle) before it is evaluated')
    # the Constant loop iterates the same list
    cl = [n for n in own_nodes(fn.node) if isinstance(n, ast.For) and isinstance(n.target, ast.Tuple) and len(n.target.elts) == 2 and n.lineno > sd.lineno]
    for n in cl:
        chk.expect(isinstance(n.iter, ast.Name) and n.iter.id == name, 'C06.3c', 'origin', fn.site(n), ast.unparse(n.iter), 'Constant path lists the capped pairs', 'the Constant path must iterate the capped list')


def names(repo, chk):
    fn = repo.func(IE, 'get_importances_estimate_pairwise')
    comb = fn.params[0]
    rets = returns(fn)
    unp = [n for n in own_nodes(fn.node) if isinstance(n, ast.Assign) and isinstance(n.targets[0], ast.Tuple) and isinstance(n.value, ast.Name) and n.value.id == comb and len(n.targets[0].elts) == 2]
    ok = False
    if len(rets) == 1 and isinstance(rets[0].value, ast.Tuple) and len(rets[0].value.elts) == 3:
        e = rets[0].value.elts
        if unp:
            a, b = [x.id for x in unp[0].targets[0].elts]
            rebinding = [n for n in own_nodes(fn.node) if isinstance(n, ast.Assign) and n is not unp[0] and any(isinstance(t, ast.Name) and t.id in (a, b) for t in n.targets)]
            ok = isinstance(e[0], ast.Name) and isinstance(e[1], ast.Name) and e[0].id == a and e[1].id == b and not rebinding
        else:
            ok = ast.unparse(e[0]) == f'{comb}[0]' and ast.unparse(e[1]) == f'{comb}[1]'
    chk.expect(ok, 'C06.4', 'origin', fn.site(rets[0]) if rets else fn.site(), ast.unparse(rets[0]) if rets else 'return', 'a triplet carries the two names of the evaluated combination in their original order',
               'the worker must return (combination[0], combination[1], score): names in the row must be those of the evaluated pair, in order')


def cap_only(repo, chk):
    """The sampler reduces the candidate list only by the cap: what it returns is a prefix (length cap) of a permutation of the
    candidate list.  (Which candidates survive - least evaluated first - is C07's concern.)"""
    fn = repo.func(CR, 'prior_combinations_sample')
    cands, args = fn.params[0], fn.params[1]
    rets = [r for r in returns(fn) if not (isinstance(r.value, (ast.List, ast.Tuple)) and not r.value.elts)]
    if len(rets) != 1 or not isinstance(rets[0].value, ast.Name):
        chk.unsure('C06.3s', 'R15', fn.site(), 'return <selected>', 'the sampler does not return a single named list')
        return
    sel = rets[0].value.id
    defs = [n for n in own_nodes(fn.node) if isinstance(n, ast.Assign) and any(isinstance(t, ast.Name) and t.id == sel for t in n.targets)]
    edits = [n for n in own_nodes(fn.node) if isinstance(n, ast.Call) and isinstance(n.func, ast.Attribute) and isinstance(n.func.value, ast.Name) and n.func.value.id == sel and n.func.attr in ('append', 'extend', 'remove', 'pop', 'insert', 'clear')]
    if len(defs) != 1 or edits:
        chk.unsure('C06.3s', 'R15', fn.site(defs[0]) if defs else fn.site(), f'{sel} = <permutation of the candidates>[:cap]', 'the returned list is built in several steps / edited: it cannot be shown statically to be the candidate list reduced only by the cap')
        return
    v = defs[0].value
    cap = f'{args}.combination_number_upper_bound'
    ok = False
    why = ''
    m = fn.module
    if isinstance(v, ast.Subscript) and isinstance(v.slice, ast.Slice) and v.slice.lower is None and v.slice.step is None and v.slice.upper is not None and ast.unparse(v.slice.upper) == cap:
        base = v.value
        # permutations of the candidate list: the list itself, sorted(list, ...), list(reversed(list)), random.sample(list, len(list))
        if isinstance(base, ast.Name) and base.id == cands:
            ok = True
        elif isinstance(base, ast.Call) and isinstance(base.func, ast.Name) and base.func.id in ('sorted', 'list', 'reversed') and base.args and isinstance(base.args[0], ast.Name) and base.args[0].id == cands:
            ok = True
        elif isinstance(base, ast.Call) and isinstance(base.func, ast.Name) and base.func.id in ('sorted', 'list') and base.args and isinstance(base.args[0], ast.Name) \
                and any(isinstance(n, ast.Assign) and isinstance(n.targets[0], ast.Name) and n.targets[0].id == base.args[0].id and ast.unparse(n.value) in (f'set({cands})', f'list({cands})', f'list(set({cands}))', f'tuple({cands})') for n in own_nodes(fn.node)):
            ok = True      # a de-duplicated copy of a duplicate-free candidate list is the same set of pairs
        else:
            why = f'the prefix is taken of `{ast.unparse(base)[:80]}`, which is not (a re-ordering of) the whole candidate list: a filter before the cap can return fewer than min(cap, #candidates) pairs'
    elif isinstance(v, ast.Call) and m.dotted(v.func) in ('heapq.nsmallest', 'heapq.nlargest') and len(v.args) >= 2 and ast.unparse(v.args[0]) == cap and ast.unparse(v.args[1]) == cands:
        ok = True
    else:
        why = f'the selection `{ast.unparse(v)[:100]}` is not a prefix of length {cap} of the candidate list'
    chk.expect(ok, 'C06.3s', 'R15', fn.site(defs[0]), ast.unparse(defs[0])[:160], 'the evaluated pairs are the requested pairs reduced only by the cap (a prefix of a re-ordering of the candidate list)', why)


def cap_writers(repo, chk):
    """The cap is the configured value: args.combination_number_upper_bound is written nowhere in the package except by the
    whitelisted 3MR clamp (if cap > MAX_FEATURES_3MR: cap = MAX_FEATURES_3MR)."""
    sites = []
    for m in repo.modules.values():
        for f in m.funcs.values():
            par = None
            for n in own_nodes(f.node):
                if isinstance(n, (ast.Assign, ast.AugAssign)):
                    for t in (n.targets if isinstance(n, ast.Assign) else [n.target]):
                        if isinstance(t, ast.Attribute) and t.attr == 'combination_number_upper_bound':
                            par = par or parents(f.node)
                            sites.append((f, n, par.get(n)))
    for f, n, g in sites:
        from ..match import expected_term
        ok = f.qualname == 'get_combinations_from_columns' and isinstance(n, ast.Assign) and ast.unparse(n.value) == 'MAX_FEATURES_3MR' and isinstance(g, ast.If) \
            and term_of(f, g.test, inline=False) == expected_term(f.module, f'{f.params[1]}.combination_number_upper_bound > MAX_FEATURES_3MR')
        chk.expect(ok, 'C06.3w', 'R2', f.site(n), ast.unparse(n), 'whitelisted: 3MR clamp of the cap to MAX_FEATURES_3MR', f'{f.qualname} overwrites args.combination_number_upper_bound (an object shared by all batches of a run): later batches are reduced by something other than the configured cap')
    if not sites:
        chk.ok('C06.3w', 'R2', 'outrank', 'no writer of args.combination_number_upper_bound', 'the cap is the configured value')
