"""C06 - the rank graph covers exactly the requested pairs, in both orientations.

 1 mirroring: every pool triplet t contributes exactly (t0,t1,t2) and (t1,t0,t2); Constant lists each pair once with literal 0.0
 2 enumeration per mode is the stated iterator algebra (cwr over the right column set, filtered by "label in pair" in target-only mode,
   relation features x label only for 3MR)
 3 the candidates handed to the pool are the sampler's return value, changed only by random.shuffle (cap before evaluation);
   the sampler reduces the list only by the cap (shared obligation with C07)
 4 names in emitted rows are the names of the evaluated combination, in order
"""
from __future__ import annotations

import ast

from ..match import calls, is_noise_stmt, returns, term_of
from ..model import own_nodes, parents
from ..terms import show
from .c07 import sampler_selection
from .common import CR, enumeration, path_mode

EXPLANATION = ('Tuple-shape analysis of the mirroring loop in mixed_rank_graph; symbolic walk of get_combinations_from_columns classifying every contribution to the returned list '
               '(enumerator kind, column set, arity, filter) per path and comparison with the stated enumeration per mode; reaching-definition / ordering check that the iterable '
               'given to the pool and to the Constant loop is the sampler result touched only by random.shuffle; canonical form of the sampler selection; origin of the names in a triplet.')
TRUSTED_BASE = ['itertools.combinations_with_replacement(S, 2) yields every unordered pair of positions once, self-pairs included, in input order',
                'pathos amap returns one result per input element']
ASSUMPTIONS = ['relation features are exactly the columns whose name contains " AND_REL "']

IE = 'outrank.algorithms.importance_estimator'


def run(repo, chk, tier):
    enumeration_modes(repo, chk)
    mirroring(repo, chk)
    cap_before_evaluation(repo, chk)
    cap_only(repo, chk)
    cap_writers(repo, chk)
    names(repo, chk)
    prior_mode_predicate(repo, chk)


EXPECTED = {
    ('plain', 'pairwise'): {('cwr', 'ALL', 2, None)},
    ('plain', 'target-only'): {('cwr', 'ALL', 2, 'label-in-pair')},
    ('3mr', None): {('cwr', 'NONREL', 2, None), ('with-label', 'REL', 2, None)},
    ('3mr', 'pairwise'): {('cwr', 'NONREL', 2, None), ('with-label', 'REL', 2, None)},
    ('3mr', 'target-only'): {('cwr', 'NONREL', 2, None), ('with-label', 'REL', 2, None)},
}


def enumeration_modes(repo, chk):
    fn, ea = enumeration(repo)
    for s, why in ea.problems:
        chk.unsure('C06.2', 'R15', fn.site(s), ast.unparse(s)[:100], why)
    seen_modes = set()
    done = set()
    for conds, cs, ret in ea.paths:
        mode = path_mode(fn, conds)
        got = {(c.kind, c.colset, c.r, c.flt) for c in cs}
        multiset = sorted((c.kind, str(c.colset), str(c.r), str(c.flt)) for c in cs)
        key = (mode, tuple(multiset))
        if key in done:
            continue
        done.add(key)
        seen_modes.add(mode)
        site = fn.site(ret) if ret is not None else fn.site()
        desc = f'{mode[0]}/{mode[1] or "any"}: ' + (' + '.join(repr(c) for c in cs) or '(nothing returned)')
        if mode[0] is None:
            chk.unsure('C06.2', 'R15', site, desc, 'cannot tell whether this path is the 3MR or the plain enumeration')
            continue
        exp = EXPECTED.get(mode)
        if exp is None and mode[0] == 'plain':
            chk.unsure('C06.2', 'R15', site, desc, 'plain enumeration without a target_ranking_only decision')
            continue
        if not cs and not (ret is not None and isinstance(getattr(ret, 'value', None), (ast.List, ast.Tuple)) and not ret.value.elts):
            # nothing on this path was classified as an enumeration, yet it does not return a literal empty list: the pairs are produced by
            # code this walk does not follow (generators, helpers of another shape)
            chk.unsure('C06.2', 'R15', site, desc, 'the pairs returned on this path are produced by code the enumeration walk does not follow')
            continue
        unknown = [c for c in cs if c.kind == 'unknown']
        if unknown:
            chk.unsure('C06.2', 'R15', site, desc, f'cannot classify {unknown[0].text}')
            continue
        unresolved = [c for c in cs if isinstance(c.colset, str) and c.colset.startswith('?')]
        if unresolved and got != exp:
            chk.unsure('C06.2', 'R15', site, desc, f'the column set `{unresolved[0].colset[1:]}` that is enumerated was not resolved to all / relation / non-relation columns: which pairs this path evaluates is not decided')
            continue
        ok = got == exp and len(multiset) == len(exp)
        why = ''
        if not ok:
            extra = got - exp
            missing = exp - got
            bits = []
            if missing:
                bits.append(f'missing {sorted(map(str, missing))}')
            if extra:
                bits.append(f'unexpected {sorted(map(str, extra))}')
            if len(multiset) != len(set(multiset)) or (not extra and not missing):
                bits.append('a contribution is repeated')
            why = (f'in {mode[0]}/{mode[1] or "any"} mode the evaluated pairs must be exactly {sorted(map(str, exp))}; ' + '; '.join(bits) +
                   ' (self-pairs come from combinations_with_replacement; relation features pair with the label only; target-only keeps exactly the pairs containing the label)')
        chk.expect(ok, 'C06.2', 'R15', site, desc, 'enumeration is the stated one for this mode', why)
    undecided = bool(ea.problems) or any(o.oid == 'C06.2' and o.status == 'inconclusive' for o in chk.obs)
    for need, have in ((('plain', 'pairwise'), ('plain', 'pairwise') in seen_modes), (('plain', 'target-only'), ('plain', 'target-only') in seen_modes), (('3mr', None), any(m[0] == '3mr' for m in seen_modes))):
        if have:
            chk.ok('C06.2m', 'R7', fn.site(), f'mode {need}', 'mode has its own enumeration path')
        elif undecided:
            chk.unsure('C06.2m', 'R7', fn.site(), f'mode {need}', 'no path was classified as this mode, but some paths of the enumeration could not be classified at all')
        else:
            chk.bad('C06.2m', 'R7', fn.site(), f'mode {need}', f'no enumeration path for mode {need} was found')
    # the function is applied to the batch's own columns
    mrg = repo.func(CR, 'mixed_rank_graph')
    cs = [c for c in calls(mrg) if mrg.module.dotted(c.func) == f'{CR}.get_combinations_from_columns']
    ok = len(cs) == 1 and term_of(mrg, cs[0].args[0]) == term_of(mrg, ast.parse(f'{mrg.params[0]}.columns', mode='eval').body)
    chk.expect(ok, 'C06.5', 'origin', mrg.site(cs[0]) if cs else mrg.site(), ast.unparse(cs[0]) if cs else 'get_combinations_from_columns(...)', 'pairs are enumerated from the columns of the batch frame',
               'get_combinations_from_columns must be applied to input_dataframe.columns: otherwise rows can mention columns that are not in the feature space')


def _contains(term, pred):
    from ..terms import walk_term
    return any(pred(x) for x in walk_term(term))


def mirroring(repo, chk):
    """Decided on the path summary of mixed_rank_graph (common.MRGModel): for every heuristic other than Constant the rows handed to the
    batch summary are, for every result t of the single pool submission, t and (t[1], t[0], t[2]); for Constant one (a, b, 0.0) per pair."""
    from .common import mrg_model
    M = mrg_model(repo)
    fn = M.fn
    if M.broken or not M.paths:
        chk.unsure('C06.1a', 'tuple-shape', fn.site(), 'mixed_rank_graph', M.broken or 'no path of mixed_rank_graph could be evaluated')
        return
    is_sampler = lambda x: isinstance(x, tuple) and x[:2] == ('call', ('lib', f'{CR}.prior_combinations_sample'))
    seen = set()
    for p in M.paths:
        res = p.res
        if res.unknown is not None or p.rows is None:
            node = res.unknown
            chk.unsure('C06.1a', 'tuple-shape', fn.site(node) if node is not None else fn.site(), p.describe(), 'the rows returned on this path could not be written as one expression (statement outside the path vocabulary)')
            continue
        key = (p.heuristic == 'Constant', p.rows)
        if key in seen:
            continue
        seen.add(key)
        site = fn.site(res.returned) if hasattr(res.returned, 'lineno') else fn.site()
        shown = f'{p.describe()}: rows = {show(p.rows)[:150]}'
        cands_of = None
        if p.heuristic == 'Constant':
            C = M.constant_rows(p.rows)
            if C is None:
                from ..terms import unify
                other_score = unify(M.pat('[(c[0], c[1], S) for c in C]', ['C', 'S']), p.rows)
                if other_score is not None:
                    chk.bad('C06.1c', 'tuple-shape', site, shown, f'the Constant heuristic must list each sampled pair once with score 0.0; the score listed is {show(other_score["S"])[:60]}')
                elif M.mirrored(p.rows) is not None:
                    chk.bad('C06.1c', 'tuple-shape', site, shown, 'the Constant heuristic must list each sampled pair once with score 0.0 (it is scored and mirrored like the other heuristics)')
                else:
                    chk.unsure('C06.1c', 'tuple-shape', site, shown, 'the rows of the Constant path are not recognised as one (a, b, 0.0) per pair')
                continue
            chk.ok('C06.1c', 'tuple-shape', site, shown, 'Constant lists each pair once with literal 0')
            cands_of = C
        else:
            R = M.mirrored(p.rows)
            if R is None:
                if M.constant_rows(p.rows) is not None:
                    chk.bad('C06.1d', 'R14', site, shown, "the zero-score shortcut must be taken exactly for `args.heuristic == 'Constant'`: here a scoring heuristic emits single, unmirrored rows with score 0")
                elif M.pool_results(p.rows) is not None and p.assumed_empty(p.rows):
                    chk.ok('C06.1a', 'tuple-shape', site, shown, 'on this path the list of results is empty: returning it as it is equals the mirrored list')
                elif M.pool_results(p.rows) is not None:
                    chk.bad('C06.1a', 'tuple-shape', site, shown, 'the results of the pool are returned as they are: the mirrored orientation (t[1], t[0], t[2]) of every evaluated pair is missing')
                elif p.rows[0] in ('listcomp', 'genexp') and p.rows[2] and M.pool_results(p.rows[2][0][0]) is not None:
                    chk.bad('C06.1a', 'tuple-shape', site, shown, 'per evaluated pair the rows must be exactly the triplet and its mirror (t[1], t[0], t[2]), unconditionally')
                else:
                    chk.unsure('C06.1a', 'tuple-shape', site, shown, 'the returned rows are not recognised as the mirrored list of the pool results')
                continue
            chk.ok('C06.1a', 'tuple-shape', site, shown, 'each triplet contributes exactly (t0,t1,t2) and (t1,t0,t2): both orientations, identical score')
            pr = M.pool_results(R)
            if pr is None:
                chk.unsure('C06.1b', 'origin', site, show(R)[:140], 'the mirrored list is not built from the results of one pool submission')
                continue
            chk.ok('C06.1b', 'origin', site, f'results = {show(R)[:120]}', 'the batch summary carries the mirrored list of the pool results')
            cands_of = pr[2]
        # the evaluated pairs are the sampler result (cap applied before evaluation, nothing re-added afterwards)
        K = M.sampled(cands_of)
        if K is not None:
            chk.ok('C06.3' if p.heuristic != 'Constant' else 'C06.3c', 'origin', site, f'{p.describe()}: evaluated = prior_combinations_sample({show(K)[:80]}, args)', 'the evaluated list is the sampler result (cap applied before evaluation)')
        elif _contains(cands_of, is_sampler):
            chk.bad('C06.3', 'origin', site, f'{p.describe()}: evaluated = {show(cands_of)[:140]}', 'after the cap the candidate list is re-bound, extended or filtered again: the evaluated pairs are not the return value of prior_combinations_sample')
        else:
            chk.bad('C06.3', 'origin', site, f'{p.describe()}: evaluated = {show(cands_of)[:140]}', 'the pairs handed to the pool are not the return value of prior_combinations_sample: the per-batch cap is not applied before evaluation')
        # in-place edits of the capped list (other than random.shuffle)
        for eff in res.effects:
            for n in ast.walk(eff):
                if not isinstance(n, ast.Call):
                    continue
                tgt = None
                if isinstance(n.func, ast.Attribute) and isinstance(n.func.value, ast.Name) and n.func.attr in ('append', 'extend', 'insert', 'pop', 'remove', 'clear', 'sort', 'reverse'):
                    tgt = n.func.value.id
                elif (fn.module.dotted(n.func) or '') in ('heapq.heapify', 'heapq.heappop', 'heapq.heappush') and n.args and isinstance(n.args[0], ast.Name):
                    tgt = n.args[0].id
                v = (res.env or {}).get(tgt) if tgt else None
                if v is not None and any(isinstance(x, ast.Call) and fn.module.dotted(x.func) == f'{CR}.prior_combinations_sample' for x in ast.walk(v)):
                    chk.bad('C06.3b', 'origin', fn.site(n), ast.unparse(n)[:100], 'the capped list is modified (other than by random.shuffle) before it is evaluated')
    chk.analysed['mixed_rank_graph_paths'] = len(M.paths)


def cap_before_evaluation(repo, chk):
    return


def names(repo, chk):
    fn = repo.func(IE, 'get_importances_estimate_pairwise')
    comb = fn.params[0]
    rets = returns(fn)
    unp = [n for n in own_nodes(fn.node) if isinstance(n, ast.Assign) and isinstance(n.targets[0], ast.Tuple) and isinstance(n.value, ast.Name) and n.value.id == comb and len(n.targets[0].elts) == 2]
    ok = False
    if len(rets) == 1 and isinstance(rets[0].value, ast.Tuple) and len(rets[0].value.elts) == 3:
        e = rets[0].value.elts
        if unp:
            a, b = [x.id for x in unp[0].targets[0].elts]
            rebinding = [n for n in own_nodes(fn.node) if isinstance(n, ast.Assign) and n is not unp[0] and any(isinstance(t, ast.Name) and t.id in (a, b) for t in n.targets)]
            ok = isinstance(e[0], ast.Name) and isinstance(e[1], ast.Name) and e[0].id == a and e[1].id == b and not rebinding
        else:
            ok = ast.unparse(e[0]) == f'{comb}[0]' and ast.unparse(e[1]) == f'{comb}[1]'
    elif len(rets) == 1 and isinstance(rets[0].value, ast.Tuple) and len(rets[0].value.elts) == 2 and isinstance(rets[0].value.elts[0], ast.Starred):
        # (*combination, score): the two names of the pair, in order
        st0 = rets[0].value.elts[0].value
        ok = isinstance(st0, ast.Name) and st0.id == comb and not [n for n in own_nodes(fn.node) if isinstance(n, ast.Assign) and any(isinstance(t, ast.Name) and t.id == comb for t in n.targets)]
    chk.expect(ok, 'C06.4', 'origin', fn.site(rets[0]) if rets else fn.site(), ast.unparse(rets[0]) if rets else 'return', 'a triplet carries the two names of the evaluated combination in their original order',
               'the worker must return (combination[0], combination[1], score): names in the row must be those of the evaluated pair, in order')


def cap_only(repo, chk):
    """The sampler reduces the candidate list only by the cap: what it returns is a prefix (length cap) of a re-ordering of the
    candidate list.  (Which candidates survive - least evaluated first - is C07's concern.)  Decided on the path model of the sampler."""
    from .c07 import sampler_model
    from ..terms import pattern, unify, walk_term
    fn, paths = sampler_model(repo)
    m = fn.module
    cands, args = fn.params[0], fn.params[1]
    if paths is None:
        chk.unsure('C06.3s', 'R15', fn.site(), 'prior_combinations_sample', 'too many undecidable tests in the sampler')
        return
    bound = {cands: ('role', 'cands'), args: ('role', 'args')}
    P = lambda src, holes: pattern(m, src, holes, {'cands': ('role', 'cands'), 'args': ('role', 'args')})
    cap = P('args.combination_number_upper_bound', [])
    reorderings = [P('cands', []), P('sorted(cands, key=K)', ['K']), P('sorted(cands, key=K, reverse=R)', ['K', 'R']), P('sorted(cands)', []), P('list(cands)', []), P('list(reversed(cands))', []),
                   P('sorted(set(cands), key=K)', ['K']), P('sorted(set(cands), key=K, reverse=R)', ['K', 'R']), P('list(set(cands))', []), P('sorted(list(cands), key=K)', ['K']), P('list(sorted(cands, key=K))', ['K']),
                   P('sorted(dict.fromkeys(cands), key=K)', ['K'])]
    seen = set()
    # locals bound to a filtered copy of something ([c for c in .. if ..]): a test of their length relates the filter to the cap
    filtered_names = {n.targets[0].id for n in own_nodes(fn.node) if isinstance(n, ast.Assign) and len(n.targets) == 1 and isinstance(n.targets[0], ast.Name)
                      and isinstance(n.value, (ast.ListComp,)) and any(g.ifs for g in n.value.generators)}
    for assume, res in paths:
        if res.unknown is not None or res.returned is None:
            chk.unsure('C06.3s', 'R15', fn.site(res.unknown) if res.unknown is not None else fn.site(), 'return <selected>', 'a statement outside the path vocabulary decides what the sampler returns')
            continue
        if isinstance(res.returned, (ast.List, ast.Tuple)) and not res.returned.elts:
            continue
        rt = term_of(fn, res.returned, bound, inline=False)
        if rt in seen:
            continue
        seen.add(rt)
        site = fn.site(res.returned) if hasattr(res.returned, 'lineno') else fn.site()
        shown = ast.unparse(res.returned)[:160]
        ok, why, unsure = False, '', False
        b = unify(('sub', ('?', 'BASE'), ('slice', ('?', 'LO'), ('?', 'UP'), ('?', 'ST'))), rt)
        if b is not None:
            if b['LO'] not in (('none',), ('num', 0)) or b['ST'] != ('none',) or b['UP'] != cap:
                why = f'the selection `{shown}` is not a prefix of length args.combination_number_upper_bound of the candidate list'
            elif any(unify(r, b['BASE']) is not None for r in reorderings):
                ok = True
            elif any(isinstance(x, tuple) and x and x[0] in ('listcomp', 'genexp') and any(g[1] for g in x[2]) for x in walk_term(b['BASE'])) and \
                    (b['BASE'][0] == 'concat' or any(f'len({nm})' in ast.unparse(t_) for t_, _v in assume for nm in filtered_names) or
                     any(isinstance(x, ast.Call) and isinstance(x.func, ast.Name) and x.func.id == 'len' and x.args and isinstance(x.args[0], (ast.ListComp, ast.GeneratorExp)) and any(g.ifs for g in x.args[0].generators)
                         for t_, _v in assume for x in ast.walk(t_))):
                # a filtered layer of the candidates followed by the rest, or a filtered layer whose length the path has compared with the cap:
                # whether that is the cap-long prefix of a re-ordering of ALL candidates is not decided by this rule
                unsure = True
            elif any(isinstance(x, tuple) and x and x[0] in ('listcomp', 'genexp') and any(g[1] for g in x[2]) for x in walk_term(b['BASE'])):
                why = f'the prefix is taken of `{show(b["BASE"])[:80]}`, which is not (a re-ordering of) the whole candidate list: a filter before the cap can return fewer than min(cap, #candidates) pairs'
            else:
                unsure = True
        else:
            for src in ('heapq.nsmallest(CAPV, cands, key=K)', 'heapq.nlargest(CAPV, cands, key=K)', 'heapq.nsmallest(CAPV, cands)', 'random.sample(cands, CAPV)'):
                bb = unify(P(src, ['CAPV', 'K']), rt)
                if bb is not None:
                    ok = bb['CAPV'] == cap or bb['CAPV'] == P('min(args.combination_number_upper_bound, len(cands))', []) or bb['CAPV'] == P('min(len(cands), args.combination_number_upper_bound)', [])
                    why = '' if ok else f'the selection `{shown}` does not cut at args.combination_number_upper_bound'
                    break
            else:
                # [cands[p] for p in <order>[:cap]] : positions of a permutation
                bb = unify(P('[cands[p] for p in ORDER[:CAPV]]', ['ORDER', 'CAPV']), rt)
                if bb is not None and bb['CAPV'] == cap and any(isinstance(x, tuple) and x[:2] == ('call', ('lib', 'numpy.argsort')) for x in walk_term(bb['ORDER'])):
                    ok = True
                elif any(unify(r, rt) is not None for r in reorderings):
                    why = f'the selection `{shown}` is not reduced by the cap at all'
                elif any(isinstance(x, tuple) and x and x[0] in ('listcomp', 'genexp') and any(g[1] for g in x[2]) for x in walk_term(rt)):
                    why = f'the selection `{shown}` filters the candidates by a predicate: it can return fewer than min(cap, #candidates) pairs'
                else:
                    unsure = True
        if unsure:
            chk.unsure('C06.3s', 'R15', site, shown, 'the returned list could not be shown statically to be the candidate list reduced only by the cap')
        else:
            chk.expect(ok, 'C06.3s', 'R15', site, shown, 'the evaluated pairs are the requested pairs reduced only by the cap (a prefix of a re-ordering of the candidate list)', why)


def cap_writers(repo, chk):
    """The cap is the configured value: args.combination_number_upper_bound is written nowhere in the package except by the
    whitelisted 3MR clamp (if cap > MAX_FEATURES_3MR: cap = MAX_FEATURES_3MR)."""
    sites = []
    for m in repo.modules.values():
        for f in m.funcs.values():
            par = None
            for n in own_nodes(f.node):
                if isinstance(n, (ast.Assign, ast.AugAssign)):
                    for t in (n.targets if isinstance(n, ast.Assign) else [n.target]):
                        if isinstance(t, ast.Attribute) and t.attr == 'combination_number_upper_bound':
                            par = par or parents(f.node)
                            sites.append((f, n, par.get(n)))
    for f, n, g in sites:
        from ..match import expected_term
        cap_e = f'{f.params[1]}.combination_number_upper_bound' if len(f.params) > 1 else 'args.combination_number_upper_bound'
        # the conjuncts in force at the store: tests of the enclosing ifs whose body (not else) holds it
        conj = []
        pp = parents(f.node)
        cur = n
        while pp.get(cur) is not None:
            up = pp[cur]
            if isinstance(up, ast.If) and any(cur is b for b in up.body):
                t = term_of(f, up.test, inline=True)
                conj += list(t[1]) if t[0] == 'and' else [t]
            cur = up
        clamp_tests = (expected_term(f.module, f'{cap_e} > MAX_FEATURES_3MR'), expected_term(f.module, f'{cap_e} >= MAX_FEATURES_3MR'))
        ok = f.qualname == 'get_combinations_from_columns' and isinstance(n, ast.Assign) and ast.unparse(n.value) == 'MAX_FEATURES_3MR' and any(c in clamp_tests for c in conj)
        # the same clamp written as min(cap, MAX)
        ok = ok or (f.qualname == 'get_combinations_from_columns' and isinstance(n, ast.Assign) and term_of(f, n.value, inline=False) in (expected_term(f.module, f'min({cap_e}, MAX_FEATURES_3MR)'), expected_term(f.module, f'min(MAX_FEATURES_3MR, {cap_e})')))
        chk.expect(ok, 'C06.3w', 'R2', f.site(n), ast.unparse(n), 'whitelisted: 3MR clamp of the cap to MAX_FEATURES_3MR', f'{f.qualname} overwrites args.combination_number_upper_bound (an object shared by all batches of a run): later batches are reduced by something other than the configured cap')
    if not sites:
        chk.ok('C06.3w', 'R2', 'outrank', 'no writer of args.combination_number_upper_bound', 'the cap is the configured value')


# -- 8 which heuristics enumerate from the reference model ---------------------------------------------------------------
PRIOR_HEURISTICS = {'surrogate-SGD', 'surrogate-SVM', 'surrogate-SGD-RP'}


from .common import Undecided as _Undecided, pred_eval as _pred_eval, pred_run as _pred_run, heuristic_universe


def prior_mode_predicate(repo, chk):
    """C06.8 - mixed_rank_graph and get_combinations_from_columns switch to the reference-model enumeration exactly when is_prior_heuristic says so.
    The predicate is a function of two configuration values with a finite domain that matters (the heuristic names the estimator dispatches on,
    reference model given / not given): it is evaluated for every combination and compared with the confirmed table
    {surrogate-SGD, surrogate-SVM, surrogate-SGD-RP} x {reference model given}."""
    m = repo.mod('outrank.core_utils')
    fn = m.funcs.get('is_prior_heuristic')
    if fn is None:
        chk.unsure('C06.8', 'R14', 'outrank/core_utils.py', 'is_prior_heuristic', 'the predicate that selects the reference-model enumeration was not found')
        return
    universe = set(PRIOR_HEURISTICS) | heuristic_universe(repo)
    a = fn.params[0] if fn.params else 'args'
    wrong = []
    try:
        for h in sorted(universe):
            for ref in ('reference.json', None, ''):
                env = {f'{a}.heuristic': h, f'{a}.reference_model_JSON': ref}
                r = _pred_run(fn.node.body, env, m)
                got = bool(r[1]) if r is not None else False
                want = h in PRIOR_HEURISTICS and bool(ref)
                if got != want:
                    wrong.append((h, ref, got))
    except _Undecided as u:
        chk.unsure('C06.8', 'R14', fn.site(), 'is_prior_heuristic', f'the predicate is written with a construct outside the evaluated vocabulary: {u}')
        return
    if wrong:
        h, ref, got = wrong[0]
        chk.bad('C06.8', 'R14', fn.site(), f'is_prior_heuristic(heuristic={h!r}, reference_model_JSON={ref!r}) = {got}',
                f'the reference-model enumeration (features of the reference model only, no pairs among the other columns) must be selected exactly for the heuristics {sorted(PRIOR_HEURISTICS)} when a reference model is given; '
                f'the predicate answers {got} for {h!r} with reference model {ref!r}' + (f' (and {len(wrong) - 1} more combination(s))' if len(wrong) > 1 else '') + ': that run enumerates a different candidate set')
    else:
        chk.ok('C06.8', 'R14', fn.site(), f'is_prior_heuristic over {len(universe)} heuristic names x 3 reference-model settings', 'true exactly for the three prior heuristics with a reference model', inspected=3 * len(universe))
