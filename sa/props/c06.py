"""C06 - the rank graph covers exactly the requested pairs, in both orientations.

 1 mirroring: every pool triplet t contributes exactly (t0,t1,t2) and (t1,t0,t2); Constant lists each pair once with literal 0.0
 2 enumeration per mode is the stated iterator algebra (cwr over the right column set, filtered by "label in pair" in target-only mode,
   relation features x label only for 3MR)
 3 the candidates handed to the pool are the sampler's return value, changed only by random.shuffle (cap before evaluation);
   the sampler reduces the list only by the cap (shared obligation with C07)
 4 names in emitted rows are the names of the evaluated combination, in order
"""
from __future__ import annotations

import ast

from ..match import calls, is_noise_stmt, returns, term_of
from ..model import own_nodes, parents
from ..terms import show
from .c07 import sampler_selection
from .common import CR, enumeration, path_mode

EXPLANATION = ('Tuple-shape analysis of the mirroring loop in mixed_rank_graph; symbolic walk of get_combinations_from_columns classifying every contribution to the returned list '
               '(enumerator kind, column set, arity, filter) per path and comparison with the stated enumeration per mode; reaching-definition / ordering check that the iterable '
               'given to the pool and to the Constant loop is the sampler result touched only by random.shuffle; canonical form of the sampler selection; origin of the names in a triplet.')
TRUSTED_BASE = ['itertools.combinations_with_replacement(S, 2) yields every unordered pair of positions once, self-pairs included, in input order',
                'pathos amap returns one result per input element']
ASSUMPTIONS = ['relation features are exactly the columns whose name contains " AND_REL "']

IE = 'outrank.algorithms.importance_estimator'


def run(repo, chk, tier):
    enumeration_modes(repo, chk)
    mirroring(repo, chk)
    cap_before_evaluation(repo, chk)
    cap_only(repo, chk)
    cap_writers(repo, chk)
    names(repo, chk)


EXPECTED = {
    ('plain', 'pairwise'): {('cwr', 'ALL', 2, None)},
    ('plain', 'target-only'): {('cwr', 'ALL', 2, 'label-in-pair')},
    ('3mr', None): {('cwr', 'NONREL', 2, None), ('with-label', 'REL', 2, None)},
    ('3mr', 'pairwise'): {('cwr', 'NONREL', 2, None), ('with-label', 'REL', 2, None)},
    ('3mr', 'target-only'): {('cwr', 'NONREL', 2, None), ('with-label', 'REL', 2, None)},
}


def enumeration_modes(repo, chk):
    fn, ea = enumeration(repo)
    for s, why in ea.problems:
        chk.unsure('C06.2', 'R15', fn.site(s), ast.unparse(s)[:100], why)
    seen_modes = set()
    done = set()
    for conds, cs, ret in ea.paths:
        mode = path_mode(fn, conds)
        got = {(c.kind, c.colset, c.r, c.flt) for c in cs}
        multiset = sorted((c.kind, str(c.colset), str(c.r), str(c.flt)) for c in cs)
        key = (mode, tuple(multiset))
        if key in done:
            continue
        done.add(key)
        seen_modes.add(mode)
        site = fn.site(ret) if ret is not None else fn.site()
        desc = f'{mode[0]}/{mode[1] or "any"}: ' + (' + '.join(repr(c) for c in cs) or '(nothing returned)')
        if mode[0] is None:
            chk.unsure('C06.2', 'R15', site, desc, 'cannot tell whether this path is the 3MR or the plain enumeration')
            continue
        exp = EXPECTED.get(mode)
        if exp is None and mode[0] == 'plain':
            chk.unsure('C06.2', 'R15', site, desc, 'plain enumeration without a target_ranking_only decision')
            continue
        unknown = [c for c in cs if c.kind == 'unknown']
        if unknown:
            chk.unsure('C06.2', 'R15', site, desc, f'cannot classify {unknown[0].text}')
            continue
        ok = got == exp and len(multiset) == len(exp)
        why = ''
        if not ok:
            extra = got - exp
            missing = exp - got
            bits = []
            if missing:
                bits.append(f'missing {sorted(map(str, missing))}')
            if extra:
                bits.append(f'unexpected {sorted(map(str, extra))}')
            if len(multiset) != len(set(multiset)) or (not extra and not missing):
                bits.append('a contribution is repeated')
            why = (f'in {mode[0]}/{mode[1] or "any"} mode the evaluated pairs must be exactly {sorted(map(str, exp))}; ' + '; '.join(bits) +
                   ' (self-pairs come from combinations_with_replacement; relation features pair with the label only; target-only keeps exactly the pairs containing the label)')
        chk.expect(ok, 'C06.2', 'R15', site, desc, 'enumeration is the stated one for this mode', why)
    for need in (('plain', 'pairwise'), ('plain', 'target-only')):
        chk.expect(need in seen_modes, 'C06.2m', 'R7', fn.site(), f'mode {need}', 'mode has its own enumeration path', f'no enumeration path for mode {need} was found')
    chk.expect(any(m[0] == '3mr' for m in seen_modes), 'C06.2m', 'R7', fn.site(), 'mode 3mr', '3MR has its own enumeration path', 'no enumeration path for 3MR heuristics was found')
    # the function is applied to the batch's own columns
    mrg = repo.func(CR, 'mixed_rank_graph')
    cs = [c for c in calls(mrg) if mrg.module.dotted(c.func) == f'{CR}.get_combinations_from_columns']
    ok = len(cs) == 1 and term_of(mrg, cs[0].args[0]) == term_of(mrg, ast.parse(f'{mrg.params[0]}.columns', mode='eval').body)
    chk.expect(ok, 'C06.5', 'origin', mrg.site(cs[0]) if cs else mrg.site(), ast.unparse(cs[0]) if cs else 'get_combinations_from_columns(...)', 'pairs are enumerated from the columns of the batch frame',
               'get_combinations_from_columns must be applied to input_dataframe.columns: otherwise rows can mention columns that are not in the feature space')


def _contains(term, pred):
    from ..terms import walk_term
    return any(pred(x) for x in walk_term(term))


def mirroring(repo, chk):
    """Decided on the path summary of mixed_rank_graph (common.MRGModel): for every heuristic other than Constant the rows handed to the
    batch summary are, for every result t of the single pool submission, t and (t[1], t[0], t[2]); for Constant one (a, b, 0.0) per pair."""
    from .common import mrg_model
    M = mrg_model(repo)
    fn = M.fn
    if M.broken or not M.paths:
        chk.unsure('C06.1a', 'tuple-shape', fn.site(), 'mixed_rank_graph', M.broken or 'no path of mixed_rank_graph could be evaluated')
        return
    is_sampler = lambda x: isinstance(x, tuple) and x[:2] == ('call', ('lib', f'{CR}.prior_combinations_sample'))
    seen = set()
    for p in M.paths:
        res = p.res
        if res.unknown is not None or p.rows is None:
            node = res.unknown
            chk.unsure('C06.1a', 'tuple-shape', fn.site(node) if node is not None else fn.site(), p.describe(), 'the rows returned on this path could not be written as one expression (statement outside the path vocabulary)')
            continue
        key = (p.heuristic == 'Constant', p.rows)
        if key in seen:
            continue
        seen.add(key)
        site = fn.site(res.returned) if hasattr(res.returned, 'lineno') else fn.site()
        shown = f'{p.describe()}: rows = {show(p.rows)[:150]}'
        cands_of = None
        if p.heuristic == 'Constant':
            C = M.constant_rows(p.rows)
            if C is None:
                from ..terms import unify
                other_score = unify(M.pat('[(c[0], c[1], S) for c in C]', ['C', 'S']), p.rows)
                if other_score is not None:
                    chk.bad('C06.1c', 'tuple-shape', site, shown, f'the Constant heuristic must list each sampled pair once with score 0.0; the score listed is {show(other_score["S"])[:60]}')
                elif M.mirrored(p.rows) is not None:
                    chk.bad('C06.1c', 'tuple-shape', site, shown, 'the Constant heuristic must list each sampled pair once with score 0.0 (it is scored and mirrored like the other heuristics)')
                else:
                    chk.unsure('C06.1c', 'tuple-shape', site, shown, 'the rows of the Constant path are not recognised as one (a, b, 0.0) per pair')
                continue
            chk.ok('C06.1c', 'tuple-shape', site, shown, 'Constant lists each pair once with literal 0')
            cands_of = C
        else:
            R = M.mirrored(p.rows)
            if R is None:
                if M.constant_rows(p.rows) is not None:
                    chk.bad('C06.1d', 'R14', site, shown, "the zero-score shortcut must be taken exactly for `args.heuristic == 'Constant'`: here a scoring heuristic emits single, unmirrored rows with score 0")
                elif M.pool_results(p.rows) is not None:
                    chk.bad('C06.1a', 'tuple-shape', site, shown, 'the results of the pool are returned as they are: the mirrored orientation (t[1], t[0], t[2]) of every evaluated pair is missing')
                elif p.rows[0] in ('listcomp', 'genexp') and p.rows[2] and M.pool_results(p.rows[2][0][0]) is not None:
                    chk.bad('C06.1a', 'tuple-shape', site, shown, 'per evaluated pair the rows must be exactly the triplet and its mirror (t[1], t[0], t[2]), unconditionally')
                else:
                    chk.unsure('C06.1a', 'tuple-shape', site, shown, 'the returned rows are not recognised as the mirrored list of the pool results')
                continue
            chk.ok('C06.1a', 'tuple-shape', site, shown, 'each triplet contributes exactly (t0,t1,t2) and (t1,t0,t2): both orientations, identical score')
            pr = M.pool_results(R)
            if pr is None:
                chk.unsure('C06.1b', 'origin', site, show(R)[:140], 'the mirrored list is not built from the results of one pool submission')
                continue
            chk.ok('C06.1b', 'origin', site, f'results = {show(R)[:120]}', 'the batch summary carries the mirrored list of the pool results')
            cands_of = pr[2]
        # the evaluated pairs are the sampler result (cap applied before evaluation, nothing re-added afterwards)
        K = M.sampled(cands_of)
        if K is not None:
            chk.ok('C06.3' if p.heuristic != 'Constant' else 'C06.3c', 'origin', site, f'{p.describe()}: evaluated = prior_combinations_sample({show(K)[:80]}, args)', 'the evaluated list is the sampler result (cap applied before evaluation)')
        elif _contains(cands_of, is_sampler):
            chk.bad('C06.3', 'origin', site, f'{p.describe()}: evaluated = {show(cands_of)[:140]}', 'after the cap the candidate list is re-bound, extended or filtered again: the evaluated pairs are not the return value of prior_combinations_sample')
        else:
            chk.bad('C06.3', 'origin', site, f'{p.describe()}: evaluated = {show(cands_of)[:140]}', 'the pairs handed to the pool are not the return value of prior_combinations_sample: the per-batch cap is not applied before evaluation')
        # in-place edits of the capped list (other than random.shuffle)
        for eff in res.effects:
            for n in ast.walk(eff):
                if not isinstance(n, ast.Call):
                    continue
                tgt = None
                if isinstance(n.func, ast.Attribute) and isinstance(n.func.value, ast.Name) and n.func.attr in ('append', 'extend', 'insert', 'pop', 'remove', 'clear', 'sort', 'reverse'):
                    tgt = n.func.value.id
                elif (fn.module.dotted(n.func) or '') in ('heapq.heapify', 'heapq.heappop', 'heapq.heappush') and n.args and isinstance(n.args[0], ast.Name):
                    tgt = n.args[0].id
                v = (res.env or {}).get(tgt) if tgt else None
                if v is not None and any(isinstance(x, ast.Call) and fn.module.dotted(x.func) == f'{CR}.prior_combinations_sample' for x in ast.walk(v)):
                    chk.bad('C06.3b', 'origin', fn.site(n), ast.unparse(n)[:100], 'the capped list is modified (other than by random.shuffle) before it is evaluated')
    chk.analysed['mixed_rank_graph_paths'] = len(M.paths)


def cap_before_evaluation(repo, chk):
    return


def names(repo, chk):
    fn = repo.func(IE, 'get_importances_estimate_pairwise')
    comb = fn.params[0]
    rets = returns(fn)
    unp = [n for n in own_nodes(fn.node) if isinstance(n, ast.Assign) and isinstance(n.targets[0], ast.Tuple) and isinstance(n.value, ast.Name) and n.value.id == comb and len(n.targets[0].elts) == 2]
    ok = False
    if len(rets) == 1 and isinstance(rets[0].value, ast.Tuple) and len(rets[0].value.elts) == 3:
        e = rets[0].value.elts
        if unp:
            a, b = [x.id for x in unp[0].targets[0].elts]
            rebinding = [n for n in own_nodes(fn.node) if isinstance(n, ast.Assign) and n is not unp[0] and any(isinstance(t, ast.Name) and t.id in (a, b) for t in n.targets)]
            ok = isinstance(e[0], ast.Name) and isinstance(e[1], ast.Name) and e[0].id == a and e[1].id == b and not rebinding
        else:
            ok = ast.unparse(e[0]) == f'{comb}[0]' and ast.unparse(e[1]) == f'{comb}[1]'
    chk.expect(ok, 'C06.4', 'origin', fn.site(rets[0]) if rets else fn.site(), ast.unparse(rets[0]) if rets else 'return', 'a triplet carries the two names of the evaluated combination in their original order',
               'the worker must return (combination[0], combination[1], score): names in the row must be those of the evaluated pair, in order')


def cap_only(repo, chk):
    """The sampler reduces the candidate list only by the cap: what it returns is a prefix (length cap) of a permutation of the
    candidate list.  (Which candidates survive - least evaluated first - is C07's concern.)"""
    fn = repo.func(CR, 'prior_combinations_sample')
    cands, args = fn.params[0], fn.params[1]
    rets = [r for r in returns(fn) if not (isinstance(r.value, (ast.List, ast.Tuple)) and not r.value.elts)]
    if len(rets) != 1 or not isinstance(rets[0].value, ast.Name):
        chk.unsure('C06.3s', 'R15', fn.site(), 'return <selected>', 'the sampler does not return a single named list')
        return
    sel = rets[0].value.id
    defs = [n for n in own_nodes(fn.node) if isinstance(n, ast.Assign) and any(isinstance(t, ast.Name) and t.id == sel for t in n.targets)]
    edits = [n for n in own_nodes(fn.node) if isinstance(n, ast.Call) and isinstance(n.func, ast.Attribute) and isinstance(n.func.value, ast.Name) and n.func.value.id == sel and n.func.attr in ('append', 'extend', 'remove', 'pop', 'insert', 'clear')]
    if len(defs) != 1 or edits:
        chk.unsure('C06.3s', 'R15', fn.site(defs[0]) if defs else fn.site(), f'{sel} = <permutation of the candidates>[:cap]', 'the returned list is built in several steps / edited: it cannot be shown statically to be the candidate list reduced only by the cap')
        return
    v = defs[0].value
    cap = f'{args}.combination_number_upper_bound'
    ok = False
    why = ''
    m = fn.module
    if isinstance(v, ast.Subscript) and isinstance(v.slice, ast.Slice) and v.slice.lower is None and v.slice.step is None and v.slice.upper is not None and ast.unparse(v.slice.upper) == cap:
        base = v.value
        # permutations of the candidate list: the list itself, sorted(list, ...), list(reversed(list)), random.sample(list, len(list))
        if isinstance(base, ast.Name) and base.id == cands:
            ok = True
        elif isinstance(base, ast.Call) and isinstance(base.func, ast.Name) and base.func.id in ('sorted', 'list', 'reversed') and base.args and isinstance(base.args[0], ast.Name) and base.args[0].id == cands:
            ok = True
        elif isinstance(base, ast.Call) and isinstance(base.func, ast.Name) and base.func.id in ('sorted', 'list') and base.args and isinstance(base.args[0], ast.Name) \
                and any(isinstance(n, ast.Assign) and isinstance(n.targets[0], ast.Name) and n.targets[0].id == base.args[0].id and ast.unparse(n.value) in (f'set({cands})', f'list({cands})', f'list(set({cands}))', f'tuple({cands})') for n in own_nodes(fn.node)):
            ok = True      # a de-duplicated copy of a duplicate-free candidate list is the same set of pairs
        else:
            why = f'the prefix is taken of `{ast.unparse(base)[:80]}`, which is not (a re-ordering of) the whole candidate list: a filter before the cap can return fewer than min(cap, #candidates) pairs'
    elif isinstance(v, ast.Call) and m.dotted(v.func) in ('heapq.nsmallest', 'heapq.nlargest') and len(v.args) >= 2 and ast.unparse(v.args[0]) == cap and ast.unparse(v.args[1]) == cands:
        ok = True
    else:
        why = f'the selection `{ast.unparse(v)[:100]}` is not a prefix of length {cap} of the candidate list'
    chk.expect(ok, 'C06.3s', 'R15', fn.site(defs[0]), ast.unparse(defs[0])[:160], 'the evaluated pairs are the requested pairs reduced only by the cap (a prefix of a re-ordering of the candidate list)', why)


def cap_writers(repo, chk):
    """The cap is the configured value: args.combination_number_upper_bound is written nowhere in the package except by the
    whitelisted 3MR clamp (if cap > MAX_FEATURES_3MR: cap = MAX_FEATURES_3MR)."""
    sites = []
    for m in repo.modules.values():
        for f in m.funcs.values():
            par = None
            for n in own_nodes(f.node):
                if isinstance(n, (ast.Assign, ast.AugAssign)):
                    for t in (n.targets if isinstance(n, ast.Assign) else [n.target]):
                        if isinstance(t, ast.Attribute) and t.attr == 'combination_number_upper_bound':
                            par = par or parents(f.node)
                            sites.append((f, n, par.get(n)))
    for f, n, g in sites:
        from ..match import expected_term
        ok = f.qualname == 'get_combinations_from_columns' and isinstance(n, ast.Assign) and ast.unparse(n.value) == 'MAX_FEATURES_3MR' and isinstance(g, ast.If) \
            and term_of(f, g.test, inline=False) == expected_term(f.module, f'{f.params[1]}.combination_number_upper_bound > MAX_FEATURES_3MR')
        chk.expect(ok, 'C06.3w', 'R2', f.site(n), ast.unparse(n), 'whitelisted: 3MR clamp of the cap to MAX_FEATURES_3MR', f'{f.qualname} overwrites args.combination_number_upper_bound (an object shared by all batches of a run): later batches are reduced by something other than the configured cap')
    if not sites:
        chk.ok('C06.3w', 'R2', 'outrank', 'no writer of args.combination_number_upper_bound', 'the cap is the configured value')
