"""C04 - subsampled estimation is memory-safe, deterministic, sample-only.

 1 (R4)  definite initialisation of the np.empty index buffer of stratified_subsampling: slice stores advancing a cursor;
         every read while the buffer is "raw" is restricted to the written prefix [:cursor]
 2       the only fancy indexing in the kernel without boundscheck uses indices that originate from np.where on the indexed
         vector itself (in range once (1) holds); allocation is large enough for all writes
 3 (R15) quota = int(int(r*n) / #values); selection is the prefix np.where(X == v)[0][:quota]; quota == 0 returns the inputs
 4 (R6)  X and Y are gathered with the same index array; return order matches the caller's unpacking
 5 (R10) no RNG / clock / hash call in the sampling function
 6 (R17) once r < 1, the estimator reads the parameter Y only after it has been replaced by the sample
 7 (R1)  N, Vals(X), Cnts(X) are computed from the full X before the sampling; the result is scaled by r; the CLI ratio is forwarded
"""
from __future__ import annotations

import ast

from ..match import bind_args, calls, expected_term, returns, term_of
from ..model import own_nodes, parents
from ..terms import Canon, Scope, show, walk_term

EXPLANATION = ('Definite-initialisation analysis (R4) of the np.empty index buffer (cursor discipline, prefix-restricted reads, flow-sensitive over the straight-line body); origin of gather indices; '
               'canonical-term equality (R15) of the quota and prefix selection; sibling agreement (R6) of the two gathers; effect scan (R10) for entropy sources; ordering/information-flow rule (R17): '
               'no read of the full Y before the sampling statement in the estimator; ordering (R1) of the stratum weights; forwarding of --mi_stratified_sampling_ratio. '
               'Decides memory safety and sample-only dependence as shapes of code; numba code generation is trusted.')
TRUSTED_BASE = ['np.empty returns uninitialised memory; basic slices are views; fancy indexing with an integer array copies',
                'np.where(cond)[0] on a 1-D array holds in-range ascending positions', 'numba: without boundscheck an out-of-range index is unchecked']
ASSUMPTIONS = ['numba compiles the kernel as written (trusted base)']

MI = 'outrank.algorithms.feature_ranking.ranking_mi_numba'
IE = 'outrank.algorithms.importance_estimator'


def run(repo, chk, tier):
    sampling(repo, chk)
    stratum_buffers(repo, chk)
    estimator(repo, chk)
    forwarding(repo, chk)
    sampled_sizes(repo, chk)
    displaced_reads(repo, chk)


def displaced_reads(repo, chk):
    """C04.8 - compute_entropies reads Y at positions computed by arithmetic (row position + size of the stratum).  The sizes it is given are
    those of the FULL data while Y is the sample when r < 1, so such a position is bounded by nothing: it must be reduced modulo the length of
    the vector that is read (or clamped into it).  A single conditional subtraction (`np.where(s >= n, s - n, s)`, `if s >= n: s -= n`) keeps
    the position inside only while s < 2n - true for r = 1, false under sampling."""
    fn = repo.mod(MI).funcs.get('compute_entropies')
    if fn is None:
        return
    m = fn.module
    arrays = set(fn.params[:2])          # the two row-indexed code vectors (tables of values / counts are read at table positions, another matter)
    defs = {}
    for n in own_nodes(fn.node):
        if isinstance(n, ast.Assign) and len(n.targets) == 1 and isinstance(n.targets[0], ast.Name):
            defs.setdefault(n.targets[0].id, []).append(n.value)

    def resolve(e, depth=0, at=None):
        if isinstance(e, ast.Name) and e.id in defs and depth < 4:
            vs = defs[e.id]
            # the binding in force at the use: the last one written before it (bindings in exclusive branches are rare in a numba kernel)
            before = [v for v in vs if at is not None and v.lineno < at]
            if before:
                vs = [max(before, key=lambda v: v.lineno)]
            return [r for v in vs for r in resolve(v, depth + 1, v.lineno)]
        return [e]

    def has_arith(e):
        for x in ast.walk(e):
            if isinstance(x, ast.BinOp) and isinstance(x.op, (ast.Add, ast.Sub)) and not (isinstance(x.left, ast.Constant) and isinstance(x.right, ast.Constant)):
                return True
            if isinstance(x, ast.Name) and x.id in defs and any(has_arith(v) for v in defs[x.id] if not any(isinstance(y, ast.Name) and y.id == x.id for y in ast.walk(v))):
                return True
        return False

    def is_len_of(e, base, depth=0):
        if isinstance(e, ast.Name) and e.id not in arrays and len(defs.get(e.id, ())) == 1 and depth < 3 and \
                not any(isinstance(x, ast.AugAssign) and isinstance(x.target, ast.Name) and x.target.id == e.id for x in own_nodes(fn.node)):
            return is_len_of(defs[e.id][0], base, depth + 1)          # n_rows = len(Y), bound once
        return (isinstance(e, ast.Call) and isinstance(e.func, ast.Name) and e.func.id == 'len' and len(e.args) == 1 and ast.unparse(e.args[0]) == base) or \
               (isinstance(e, ast.Attribute) and e.attr == 'size' and ast.unparse(e.value) == base) or \
               (isinstance(e, ast.Subscript) and isinstance(e.value, ast.Attribute) and e.value.attr == 'shape' and ast.unparse(e.value.value) == base)

    seen = 0
    for n in own_nodes(fn.node):
        if not (isinstance(n, ast.Subscript) and isinstance(n.ctx, ast.Load) and isinstance(n.value, ast.Name) and n.value.id in arrays):
            continue
        base = n.value.id
        for idx in resolve(n.slice, 0, n.lineno):
            if not has_arith(idx):
                continue
            seen += 1
            d = (m.dotted(idx.func) or '') if isinstance(idx, ast.Call) else ''
            if isinstance(idx, ast.BinOp) and isinstance(idx.op, ast.Mod):
                if is_len_of(idx.right, base):
                    chk.ok('C04.8', 'R8', fn.site(n), f'{base}[{ast.unparse(idx)[:60]}]', 'the computed position is reduced modulo the length of the vector that is read')
                elif isinstance(idx.right, ast.Name) and idx.right.id in fn.params and idx.right.id not in arrays:
                    chk.bad('C04.8', 'R8', fn.site(n), f'{base}[{ast.unparse(idx)[:60]}]', f'the computed position is reduced modulo the parameter `{idx.right.id}` (a count handed in by the caller - the number of rows of the FULL data), '
                            f'not modulo len({base}): under sampling {base} is shorter, so the read leaves the vector (IndexError / foreign memory)')
                else:
                    chk.unsure('C04.8', 'R8', fn.site(n), f'{base}[{ast.unparse(idx)[:60]}]', f'the computed position is reduced modulo {ast.unparse(idx.right)[:40]}; that this is the length of {base} is not decided')
            elif d in ('numpy.mod', 'numpy.remainder') and len(idx.args) == 2:
                (chk.ok if is_len_of(idx.args[1], base) else chk.unsure)('C04.8', 'R8', fn.site(n), f'{base}[{ast.unparse(idx)[:60]}]', 'the computed position is reduced modulo the length of the vector that is read')
            elif d in ('numpy.clip', 'numpy.minimum', 'min'):
                chk.unsure('C04.8', 'R8', fn.site(n), f'{base}[{ast.unparse(idx)[:60]}]', 'the computed position is clamped, not reduced modulo the length; whether it stays inside the vector is not decided')
            elif d == 'numpy.where' and len(idx.args) == 3:
                chk.bad('C04.8', 'R8', fn.site(n), f'{base}[{ast.unparse(idx)[:80]}]', f'the position read from {base} is wrapped by ONE conditional subtraction: with r < 1 the stratum sizes are those of the full data and {base} is the sample, '
                        f'so row + size can exceed 2 len({base}) and the read leaves the vector (IndexError / foreign memory) - it must be reduced modulo len({base})')
            elif isinstance(idx, (ast.BinOp, ast.Name)):
                chk.bad('C04.8', 'R8', fn.site(n), f'{base}[{ast.unparse(idx)[:80]}]', f'the position read from {base} is computed by arithmetic and not reduced modulo len({base}): it leaves the vector')
            else:
                chk.unsure('C04.8', 'R8', fn.site(n), f'{base}[{ast.unparse(idx)[:60]}]', 'how the computed position is kept inside the vector is not recognised')
    if not seen:
        chk.ok('C04.8', 'R8', fn.site(), 'reads at computed positions in compute_entropies', 'no read of an input vector at a position computed by arithmetic')


def sampled_sizes(repo, chk):
    """C04.7g - original stratum weights: in compute_entropies the number of rows a stratum has *in the arrays it is given* (the sample, when
    r < 1) may size buffers, bound loops over those rows and take part in counting within the sample, but it decides nothing (no comparison),
    normalises nothing (no quotient) and is not handed on as a stratum size: every weight, normaliser and decision comes from the counts of
    the full data that are passed in.  With r = 1 both numbers coincide, so a guard or a quotient over the sampled size is invisible to
    every test of the unsampled estimator and changes the estimate only under sampling."""
    fn = repo.func(MI, 'compute_entropies')
    m = fn.module
    Xp = fn.params[0]
    par = parents(fn.node)
    rows, sizes = set(), set()

    def is_rows(e):
        # np.where(X == v) / np.nonzero / np.flatnonzero (with or without [0]) or a name bound to one
        if isinstance(e, ast.Name):
            return e.id in rows
        if isinstance(e, ast.Subscript) and isinstance(e.slice, ast.Constant) and e.slice.value == 0:
            return is_rows(e.value)
        if isinstance(e, ast.Call) and (m.dotted(e.func) or '') in ('numpy.where', 'numpy.nonzero', 'numpy.flatnonzero', 'numpy.argwhere') and len(e.args) == 1:
            return any(isinstance(x, ast.Name) and x.id == Xp for x in ast.walk(e.args[0]))
        return False

    def is_size(e):
        if isinstance(e, ast.Name):
            return e.id in sizes
        if isinstance(e, ast.Attribute) and e.attr == 'size':
            return is_rows(e.value)
        if isinstance(e, ast.Call) and isinstance(e.func, ast.Name) and e.func.id == 'len' and len(e.args) == 1:
            return is_rows(e.args[0])
        if isinstance(e, ast.Subscript) and isinstance(e.slice, ast.Constant) and e.slice.value == 0 and isinstance(e.value, ast.Attribute) and e.value.attr == 'shape':
            return is_rows(e.value.value)
        return False
    stores = {}
    for n in own_nodes(fn.node):
        if isinstance(n, ast.Name) and isinstance(n.ctx, ast.Store):
            stores[n.id] = stores.get(n.id, 0) + 1
    for _ in range(3):
        for n in own_nodes(fn.node):
            if isinstance(n, ast.Assign) and len(n.targets) == 1 and isinstance(n.targets[0], ast.Name) and stores.get(n.targets[0].id) == 1:
                if is_rows(n.value):
                    rows.add(n.targets[0].id)
                elif is_size(n.value):
                    sizes.add(n.targets[0].id)
    bad = []
    n_uses = 0
    for n in own_nodes(fn.node):
        if not is_size(n) or not isinstance(getattr(n, 'ctx', ast.Load()), ast.Load):
            continue
        p = par.get(n)
        if isinstance(n, ast.Name) and isinstance(p, ast.Assign) and n in p.targets:
            continue
        # skip the inner nodes of a size expression (len(rows): the Name rows is not a size itself)
        if isinstance(p, ast.Assign) and p.value is n and isinstance(p.targets[0], ast.Name):
            continue      # sz = rows.size
        n_uses += 1
        # decides (a comparison), normalises (a quotient) or is handed on as a stratum size (argument of another function of the kernel):
        # counting within the sample (size - positives, counting rows down) is what the sample is for
        decides = isinstance(p, ast.Compare)
        normalises = isinstance(p, ast.BinOp) and isinstance(p.op, (ast.Div, ast.FloorDiv))
        handed_on = isinstance(p, ast.Call) and isinstance(p.func, ast.Name) and p.func.id in m.funcs and n in p.args
        if decides or normalises or handed_on:
            bad.append(n)
    if bad:
        st = bad[0]
        while par.get(st) is not None and not isinstance(st, ast.stmt):
            st = par.get(st)
        chk.bad('C04.7g', 'R1', fn.site(bad[0]), ast.unparse(st).split('\n')[0][:120], 'the number of rows of the stratum in the (sampled) arrays decides or weights something: under sampling a stratum holds fewer rows than its full-data count, '
                'so the estimate no longer uses the original stratum weights (with r = 1 both numbers are equal and nothing shows)')
    else:
        chk.ok('C04.7g', 'R1', fn.site(), f'{n_uses} use(s) of the sampled stratum size: none in a comparison, a quotient or as the stratum size of a helper', 'weights, normalisers and decisions of the kernel come from the full-data counts')


def _top_stmts(fn):
    """straight-line order of all statements (pre-order)"""
    out = []

    def rec(body):
        for s in body:
            out.append(s)
            for f in ('body', 'orelse', 'finalbody'):
                if hasattr(s, f) and isinstance(getattr(s, f), list):
                    rec(getattr(s, f))
    rec(fn.node.body)
    return out


def sampling(repo, chk):
    fn = repo.func(MI, 'stratified_subsampling')
    m = fn.module
    Yp, Xp, rp, vp = fn.params[:4]
    par = parents(fn.node)
    E = lambda s: expected_term(m, s)
    allocs = [n for n in own_nodes(fn.node) if isinstance(n, ast.Assign) and isinstance(n.targets[0], ast.Name) and isinstance(n.value, ast.Call) and m.dotted(n.value.func) in ('numpy.empty', 'numpy.empty_like')]
    zero_allocs = [n for n in own_nodes(fn.node) if isinstance(n, ast.Assign) and isinstance(n.targets[0], ast.Name) and isinstance(n.value, ast.Call) and m.dotted(n.value.func) in ('numpy.zeros', 'numpy.full', 'numpy.ones')]
    stmts = _top_stmts(fn)
    chk.analysed['np_empty_allocations'] = len(allocs)
    gathers = [n for n in own_nodes(fn.node) if isinstance(n, ast.Subscript) and isinstance(n.ctx, ast.Load) and isinstance(n.value, ast.Name) and n.value.id in (Xp, Yp) and isinstance(n.slice, ast.Name)]
    if not allocs and not zero_allocs:
        chk.unsure('C04.1', 'R4', fn.site(), 'index buffer', 'no index buffer allocation found in stratified_subsampling')
        return
    # the buffer holds ROW POSITIONS: its element type must represent every position exactly (float32 is exact only up to 2**24, int16 up to 32767)
    for al in allocs + zero_allocs:
        dt = next((k.value for k in al.value.keywords if k.arg == 'dtype'), None)
        if dt is not None and ast.unparse(dt).split('.')[-1].strip("'\"") in ('float32', 'float16', 'half', 'single', 'int16', 'int8', 'uint8', 'uint16', 'short', 'byte'):
            chk.bad('C04.1c', 'R8', fn.site(al), ast.unparse(al), f'the index buffer of the sample is allocated as {ast.unparse(dt)}: row positions beyond the exact range of that type are rounded / wrapped, so other rows '
                    'than the first rows of each stratum are gathered (float32 is exact only up to 2**24)')
    for al in allocs:
        B = al.targets[0].id
        # cursor discipline
        stores = [n for n in own_nodes(fn.node) if isinstance(n, ast.Assign) and isinstance(n.targets[0], ast.Subscript) and isinstance(n.targets[0].value, ast.Name) and n.targets[0].value.id == B]
        cursor = None
        ok_cursor = bool(stores)
        why = ''
        for st in stores:
            sl = st.targets[0].slice
            if isinstance(sl, ast.Name):
                # one entry written at the cursor, the cursor advanced by one right after it (in the same block): B[c] = v; c += 1
                c = sl.id
                blk = par.get(st)
                seq = next((getattr(blk, f_) for f_ in ('body', 'orelse', 'finalbody') if st in getattr(blk, f_, [])), [])
                after = seq[seq.index(st) + 1:] if st in seq else []
                adv = [a for a in after if isinstance(a, ast.AugAssign) and isinstance(a.target, ast.Name) and a.target.id == c]
                if (cursor in (None, c)) and len(adv) == 1 and isinstance(adv[0].op, ast.Add) and isinstance(adv[0].value, ast.Constant) and adv[0].value.value == 1 \
                        and not any(isinstance(x, ast.Name) and x.id == c and isinstance(x.ctx, ast.Store) for a in after[:after.index(adv[0])] for x in ast.walk(a)):
                    cursor = c
                    continue
                if cursor in (None, c) and len(adv) == 1 and any(isinstance(a, ast.AugAssign) and isinstance(a.target, ast.Name) and a.target.id == c for a in own_nodes(fn.node)):
                    chk.bad('C04.1a', 'R4', fn.site(adv[0]), ast.unparse(adv[0]), f'after the store {ast.unparse(st.targets[0])} of ONE entry the cursor is advanced by {ast.unparse(adv[0].value)}: the prefix [:{c}] then contains entries that were never written')
                    ok_cursor, why = False, None
                    break
            if not (isinstance(sl, ast.Slice) and isinstance(sl.lower, ast.Name) and sl.step is None and sl.upper is not None):
                ok_cursor, why = False, f'store {ast.unparse(st.targets[0])} is not a slice store at a cursor'
                break
            c = sl.lower.id
            cursor = cursor or c
            v = st.value
            up = term_of(fn, sl.upper, inline=True)
            vt = ast.unparse(v)
            cn = Canon(m, Scope(fn), inline=True)
            vterm = cn.t(v)
            lens = [('call', ('name', 'len'), (vterm,), ()), ('attr', vterm, 'size')]
            # a prefix W[:K] with K = min(len(W), q) has exactly K entries
            if vterm[0] == 'sub' and vterm[2][0] == 'slice' and vterm[2][1] == ('none',) and vterm[2][3] == ('none',):
                W, K = vterm[1], vterm[2][2]
                if K[0] == 'call' and K[1] == ('name', 'min') and len(K[2]) == 2 and not K[3] and (('call', ('name', 'len'), (W,), ()) in K[2] or ('attr', W, 'size') in K[2]):
                    lens.append(K)
            ups = [cn._add([('name', c), l]) for l in lens]
            if cursor != c or up not in ups:
                ok_cursor, why = False, f'slice store {ast.unparse(st.targets[0])} does not end at cursor + len(stored values)'
                running = any(isinstance(a, ast.AugAssign) and isinstance(a.target, ast.Name) and a.target.id == c for a in own_nodes(fn.node))
                if not running:
                    why = f'the lower bound `{c}` of the slice store is not a running cursor (it is not advanced by `{c} += ...`): where each stratum is written is decided by something this rule does not model'
                elif cursor == c:
                    chk.bad('C04.1a', 'R4', fn.site(st), ast.unparse(st), f'the slice store starts at the cursor `{c}` but does not end at {c} + len(stored values): entries of the written prefix are left uninitialised or overwritten')
                    why = None
                break
            # followed by c += len(v)
            blk = par.get(st)
            body = getattr(blk, 'body', [])
            after = body[body.index(st) + 1:] if st in body else []
            adv = [a for a in after if isinstance(a, ast.AugAssign) and isinstance(a.target, ast.Name) and a.target.id == c]
            # `c = <end of the slice>` is the same advance written as an assignment
            set_to_end = [a for a in after if isinstance(a, ast.Assign) and len(a.targets) == 1 and isinstance(a.targets[0], ast.Name) and a.targets[0].id == c]
            if not adv and len(set_to_end) == 1 and (ast.unparse(set_to_end[0].value) == ast.unparse(sl.upper) or term_of(fn, set_to_end[0].value, inline=True) == up):
                by_assignment = getattr(fn, '_c04_by_assignment', set())
                by_assignment.add(id(set_to_end[0]))
                fn._c04_by_assignment = by_assignment
                continue
            if not (len(adv) == 1 and isinstance(adv[0].op, ast.Add) and term_of(fn, adv[0].value, inline=True) in lens):
                ok_cursor, why = False, f'the cursor {c} is not advanced by exactly the number of stored entries after the store'
                if len(adv) == 1:
                    chk.bad('C04.1a', 'R4', fn.site(adv[0]), ast.unparse(adv[0]), f'after the slice store {ast.unparse(st.targets[0])} the cursor is advanced by {ast.unparse(adv[0].value)}, not by the number of entries written: the prefix [:{c}] then contains unwritten (uninitialised) entries or later stores overwrite earlier ones')
                    why = None
                break
        if ok_cursor:
            by_asg = getattr(fn, '_c04_by_assignment', set())
            inits = [n for n in own_nodes(fn.node) if isinstance(n, ast.Assign) and isinstance(n.targets[0], ast.Name) and n.targets[0].id == cursor and id(n) not in by_asg]
            others = [n for n in own_nodes(fn.node) if (isinstance(n, ast.AugAssign) and isinstance(n.target, ast.Name) and n.target.id == cursor) or id(n) in by_asg]
            if not (len(inits) == 1 and isinstance(inits[0].value, ast.Constant) and inits[0].value.value == 0 and len(others) == len(stores)):
                ok_cursor, why = False, f'the cursor {cursor} must start at 0 and be modified only by the advance after each store'
                if len(inits) == 1 and isinstance(inits[0].value, ast.Constant) and inits[0].value.value != 0:
                    chk.bad('C04.1a', 'R4', fn.site(inits[0]), ast.unparse(inits[0]), f'the cursor starts at {inits[0].value.value}: the entries before it are never written but lie inside the prefix [:{cursor}] that is read')
                    why = None
        if not ok_cursor and why is None:
            continue
        if not ok_cursor:
            chk.unsure('C04.1a', 'R4', fn.site(al), ast.unparse(al), f'cannot relate the writes of the np.empty buffer to a cursor: {why or "no stores"}')
            continue
        chk.ok('C04.1a', 'R4', fn.site(stores[0]), f'{ast.unparse(stores[0])}; {cursor} += len(...)', f'writes fill {B}[0:{cursor}] contiguously')
        # reads: flow-sensitive over the straight-line order
        raw = False
        viol = []
        nreads = 0
        for s in stmts:
            if s is al:
                raw = True
                continue
            if not raw:
                continue
            own = [s] if not isinstance(s, (ast.For, ast.While, ast.If, ast.With, ast.Try)) else ([s.iter] if isinstance(s, ast.For) else [s.test] if isinstance(s, (ast.While, ast.If)) else [])
            loads = []
            for root in own:
                for n in ast.walk(root):
                    if isinstance(n, ast.Name) and n.id == B and isinstance(n.ctx, ast.Load):
                        loads.append(n)
            bad_here = []
            parmap = par
            for n in loads:
                p = parmap.get(n)
                if isinstance(p, ast.Subscript) and p.value is n:
                    if isinstance(p.ctx, ast.Store):
                        continue
                    sl = p.slice
                    if isinstance(sl, ast.Slice) and sl.lower is None and sl.step is None and isinstance(sl.upper, ast.Name) and sl.upper.id == cursor:
                        nreads += 1
                        continue
                nreads += 1
                bad_here.append(n)
            if bad_here:
                viol.append((s, bad_here[0]))
            # rebinding B to a value built only from the written prefix ends the raw phase
            if isinstance(s, ast.Assign) and any(isinstance(t, ast.Name) and t.id == B for t in s.targets) and s is not al:
                if not bad_here:
                    raw = False
                else:
                    break
        if viol:
            s, n = viol[0]
            chk.bad('C04.1b', 'R4', fn.site(s), ast.unparse(s)[:140], f'the np.empty buffer {B} is read beyond its written prefix [:{cursor}]: a stratum smaller than the quota (or a sample size that is not a multiple of the number of strata) leaves an uninitialised tail, which is then used as row indices in a kernel without bounds checking')
        else:
            chk.ok('C04.1b', 'R4', fn.site(al), f'{nreads} read(s) of {B}, all through [:{cursor}]', 'only written entries of the buffer are ever read', inspected=max(nreads, 1))
        # allocation is large enough: size term == final_space_size (>= #values * quota)
        size = al.value.args[0] if al.value.args else None
        st_ = term_of(fn, size, inline=True) if size is not None else None
        n_expr = f'int({rp} * len({Xp}))'
        quota = f'int({n_expr} / len({vp}))'
        quota2 = f'{n_expr} // len({vp})'           # for these non-negative integers a // b is int(a / b)
        ok_size = st_ in (E(n_expr), E(f'{quota} * len({vp})'), E(f'len({vp}) * {quota}'), E(f'len({Xp})'), E(f'({quota2}) * len({vp})'), E(f'len({vp}) * ({quota2})'))
        # a buffer of one stratum (size = the per-value quota, filled by a scan that stops at the quota) is another buffer than the index buffer of the sample
        if not ok_size and st_ == E(quota) and not any(isinstance(x, ast.Subscript) and isinstance(x.value, ast.Name) and x.value.id in (Xp, Yp) and any(isinstance(y, ast.Name) and y.id == B for y in ast.walk(x.slice))
                                                       for x in own_nodes(fn.node)):
            chk.ok('C04.2a', 'R4', fn.site(al), ast.unparse(al), 'a per-stratum buffer of quota entries (not the index buffer of the sample)')
            continue
        chk.expect(ok_size, 'C04.2a', 'R4', fn.site(al), ast.unparse(al), 'allocation holds all writes (#values * quota <= int(r*n))', f'the buffer size must be int(r*n) (or #values*quota): found {show(st_)[:100] if st_ else None}; slice stores beyond the end are silently truncated / out of bounds')
    if not allocs:
        chk.ok('C04.1b', 'R4', fn.site(zero_allocs[0]), ast.unparse(zero_allocs[0]), 'index buffer is zero-initialised (no uninitialised memory)')
    # 3: quota and prefix selection
    sc = Scope(fn)
    n_expr = f'int({rp} * len({Xp}))'
    quota_t = E(f'int({n_expr} / len({vp}))')
    # (both operands are non-negative counts: floor division and int() of the quotient agree)
    QUOTAS = [quota_t, E(f'{n_expr} // len({vp})')]
    ZERO_FORMS = [f for q in QUOTAS for f in (('cmp', '==', ('num', 0), q), ('cmp', '==', q, ('num', 0)), ('cmp', '<', q, ('num', 1)), ('cmp', '<=', q, ('num', 0)), ('not', q))]
    POS_FORMS = [f for q in QUOTAS for f in (('cmp', '!=', ('num', 0), q), ('cmp', '!=', q, ('num', 0)), ('cmp', '<', ('num', 0), q), ('cmp', '<=', ('num', 1), q), q)]
    # quota == 0  <=>  int(r*n) < #values   (the quota is the integer quotient of the two)
    budget_t, nvals_t = E(n_expr), E(f'len({vp})')
    ZERO_FORMS += [('cmp', '<', budget_t, nvals_t), ('cmp', '>', nvals_t, budget_t), ('not', ('cmp', '<=', nvals_t, budget_t)), ('not', ('cmp', '>=', budget_t, nvals_t))]
    POS_FORMS += [('cmp', '<=', nvals_t, budget_t), ('cmp', '>=', budget_t, nvals_t), ('not', ('cmp', '<', budget_t, nvals_t))]
    loops = [n for n in own_nodes(fn.node) if isinstance(n, ast.For) and term_of(fn, n.iter, inline=True) in (('name', vp), E(f'enumerate({vp})'), E(f'range(len({vp}))'))]
    mentions_quota = lambda t: any(x in QUOTAS for x in walk_term(t)) or (any(x == budget_t for x in walk_term(t)) and any(x == nvals_t for x in walk_term(t)))
    # (a) an early return of the inputs when the quota is 0, or (b) the whole sampling block guarded by quota != 0 and the inputs returned otherwise
    early = [n for n in fn.node.body if isinstance(n, ast.If) and any(isinstance(x, ast.Return) for x in n.body)]
    verdict, site, shown = None, fn.site(), 'if quota == 0: return Y, X'
    for e in early:
        t = term_of(fn, e.test, inline=True)
        r = [x for x in e.body if isinstance(x, ast.Return)][0]
        if t in ZERO_FORMS:
            same = isinstance(r.value, ast.Tuple) and [ast.unparse(x) for x in r.value.elts] == [Yp, Xp] and len(e.body) == 1
            verdict, site, shown = ('ok' if same else 'bad'), fn.site(e), ast.unparse(e.test)
        elif t in (('cmp', '<=', budget_t, nvals_t), ('cmp', '>=', nvals_t, budget_t)):
            # int(r*n) <= #values also holds when the two are equal, i.e. when the quota is 1: the sample is then replaced by the full data
            verdict, site, shown = 'bad1', fn.site(e), ast.unparse(e.test)
        elif mentions_quota(t) and verdict is None:
            verdict, site, shown = 'unsure', fn.site(e), ast.unparse(e.test)
    if verdict is None and loops:
        # guards around the sampling loop
        cur = par.get(loops[0])
        prev = loops[0]
        while cur is not None and cur is not fn.node and verdict is None:
            if isinstance(cur, ast.If):
                t = term_of(fn, cur.test, inline=True)
                positive = prev in cur.body
                forms = POS_FORMS if positive else ZERO_FORMS
                if t in forms:
                    # on the other side nothing may touch X / Y before the return
                    other = cur.orelse if positive else cur.body
                    rebinds = [x for blk in [other] for st_ in blk for x in ast.walk(st_) if isinstance(x, ast.Name) and isinstance(x.ctx, ast.Store) and x.id in (Xp, Yp)]
                    verdict, site, shown = ('ok' if not rebinds else 'bad'), fn.site(cur), ast.unparse(cur.test)
                elif mentions_quota(t):
                    verdict, site, shown = 'unsure', fn.site(cur), ast.unparse(cur.test)
            prev, cur = cur, par.get(cur)
    if verdict == 'bad1':
        chk.bad('C04.3a', 'R15', site, shown, 'the inputs are returned unsampled when int(r*n) <= #values, which includes int(r*n) == #values where the per-value quota is 1: with a quota of 1 the estimator must use one row per value, not all rows')
    elif verdict == 'ok':
        chk.ok('C04.3a', 'R15', site, shown, 'quota 0 -> all rows are used (inputs returned unchanged)')
    elif verdict == 'unsure' or (verdict is None and not loops):
        chk.unsure('C04.3a', 'R15', site, shown, 'a test on the per-value quota exists but is not one of the recognised forms of `quota == 0`')
    else:
        chk.bad('C04.3a', 'R15', site, shown, 'when the per-value quota int(int(r*n)/#values) is 0 the inputs must be returned unchanged' + ('' if verdict == 'bad' else ' (no test of the quota guards the sampling loop)'))
    # the selection inside the loop over the values: what is stored into the index buffer
    sel_ok = None
    sel_site, sel_txt = fn.site(), f'np.where({Xp} == v)[0][:quota] for v in {vp}'
    for lp in loops:
        if isinstance(lp.target, ast.Name) and term_of(fn, lp.iter, inline=True) == ('name', vp):
            v = ('name', lp.target.id)
        elif isinstance(lp.target, ast.Tuple) and len(lp.target.elts) == 2 and isinstance(lp.target.elts[1], ast.Name):
            v = ('name', lp.target.elts[1].id)
        elif isinstance(lp.target, ast.Name):
            v = ('sub', ('name', vp), ('name', lp.target.id))
        else:
            continue
        W = expected_term(m, f'numpy.where({Xp} == V)[0]', {'V': v})
        lenW = ('call', ('name', 'len'), (W,), ())
        good = [g_ for quota_t in QUOTAS for g_ in (('sub', W, ('slice', ('none',), quota_t, ('none',))),
                ('sub', W, ('slice', ('none',), ('call', ('name', 'min'), (lenW, quota_t), ()), ('none',))), ('sub', W, ('slice', ('none',), ('call', ('name', 'min'), (quota_t, lenW), ()), ('none',))),
                ('sub', W, ('slice', ('num', 0), quota_t, ('none',))))]
        cands = [n for n in ast.walk(lp) if isinstance(n, ast.Assign) and (isinstance(n.targets[0], ast.Subscript) or isinstance(n.targets[0], ast.Name))]
        for n in cands:
            t = term_of(fn, n.value, inline=True)
            if t in good:
                sel_ok = True
                sel_site, sel_txt = fn.site(n), ast.unparse(n)
                break
            if isinstance(n.targets[0], ast.Subscript) and any(x == W for x in walk_term(t)) and sel_ok is None:
                # rows of the stratum are stored, but not as the quota-long prefix - unless the length of the prefix is written over locals
                # this rule cannot resolve (e.g. bounds read from a table): then it is not decided here
                fn_locals = {x.id for x in ast.walk(fn.node) if isinstance(x, ast.Name) and isinstance(x.ctx, ast.Store)} - set(fn.params)
                loose = {x[1] for x in walk_term(t) if isinstance(x, tuple) and len(x) == 2 and x[0] == 'name' and x[1] in fn_locals} - {v[1] if v[0] == 'name' else None}
                sel_ok = 'unsure' if loose else False
                sel_site, sel_txt = fn.site(n), ast.unparse(n)
        if sel_ok is True:
            break
    if sel_ok == 'unsure':
        chk.unsure('C04.3b', 'R15', sel_site, sel_txt, 'the rows of a stratum are stored as a prefix whose length is written over locals this rule cannot resolve to the quota')
    elif sel_ok:
        chk.ok('C04.3b', 'R15', sel_site, sel_txt, 'per stratum: the first quota rows carrying the value, quota = int(int(r*n)/#values)')
    elif sel_ok is False:
        chk.bad('C04.3b', 'R15', sel_site, sel_txt, 'the per-stratum selection must be the prefix np.where(X == v)[0][:int(int(r*n)/#values)] for every distinct target value')
    else:
        chk.unsure('C04.3b', 'R15', sel_site, sel_txt, 'no store of the rows np.where(X == v)[0] of a stratum was recognised in the loop over the distinct target values')
    # 4: same index for both gathers; return order
    def gather_of(e):
        """(param, index term) for P[idx] / np.take(P, idx) / P.take(idx)"""
        if isinstance(e, ast.Subscript) and isinstance(e.value, ast.Name) and e.value.id in (Xp, Yp) and not isinstance(e.slice, ast.Slice):
            return e.value.id, term_of(fn, e.slice, inline=True)
        if isinstance(e, ast.Call) and (m.dotted(e.func) or '') == 'numpy.take' and len(e.args) == 2 and isinstance(e.args[0], ast.Name) and e.args[0].id in (Xp, Yp):
            return e.args[0].id, term_of(fn, e.args[1], inline=True)
        if isinstance(e, ast.Call) and isinstance(e.func, ast.Attribute) and e.func.attr == 'take' and isinstance(e.func.value, ast.Name) and e.func.value.id in (Xp, Yp) and len(e.args) == 1:
            return e.func.value.id, term_of(fn, e.args[0], inline=True)
        return None
    early_rets = {id(x) for e in early for x in ast.walk(e) if isinstance(x, ast.Return)}
    loop_vars = {x.id for lp_ in own_nodes(fn.node) if isinstance(lp_, ast.For) for x in ast.walk(lp_.target) if isinstance(x, ast.Name)}
    gl = [(n, gather_of(n)) for n in own_nodes(fn.node) if isinstance(n, (ast.Subscript, ast.Call)) and gather_of(n) is not None and not (isinstance(n, ast.Subscript) and isinstance(n.ctx, ast.Store))
          and not (isinstance(n, ast.Subscript) and isinstance(n.slice, ast.Name) and n.slice.id in loop_vars)]      # X[i] inside a scan loop reads one element, it is not a gather
    gx = [g for g in gl if g[1][0] == Xp]
    gy = [g for g in gl if g[1][0] == Yp]
    if not gx and not gy:
        chk.unsure('C04.4a', 'R6', fn.site(), 'X[idx], Y[idx]', 'no gather of X / Y by an index array was recognised')
    else:
        ok_g = len(gx) == 1 and len(gy) == 1 and gx[0][1][1] == gy[0][1][1]
        chk.expect(ok_g, 'C04.4a', 'R6', fn.site(gx[0][0]) if gx else fn.site(), f'{[ast.unparse(g[0]) for g in gl]}', 'X and Y are restricted to the same rows', 'X and Y must each be gathered once, with the same index array')
    rets = [r for r in returns(fn) if id(r) not in early_rets]
    def role(e):
        if isinstance(e, ast.Name) and e.id in (Xp, Yp):
            return e.id
        g = gather_of(e)
        return g[0] if g else None
    if len(rets) >= 1 and all(isinstance(r.value, ast.Tuple) and len(r.value.elts) == 2 for r in rets):
        roles = [[role(x) for x in r.value.elts] for r in rets]
        if all(None not in ro for ro in roles):
            ok_r = all(ro == [Yp, Xp] for ro in roles)
            chk.expect(ok_r, 'C04.4b', 'R6', fn.site(rets[0]), ast.unparse(rets[0]), 'returns (Y, X) in parameter order', 'the sampler must return (Y, X) in the order of its parameters')
        else:
            chk.unsure('C04.4b', 'R6', fn.site(rets[0]), ast.unparse(rets[0]), 'cannot tell which returned element is the Y sample and which the X sample')
    else:
        chk.unsure('C04.4b', 'R6', fn.site(), 'return Y, X', 'unexpected return shape of the sampler')
    # 5: determinism
    bad = []
    for c in calls(fn):
        d = m.dotted(c.func) or ''
        if d.startswith(('numpy.random', 'random.', 'time.', 'os.urandom', 'secrets.')) or d in ('hash', 'id'):
            bad.append(c)
    chk.expect(not bad, 'C04.5', 'R10', fn.site(bad[0]) if bad else fn.site(), ast.unparse(bad[0]) if bad else f'{len(calls(fn))} calls, none of RNG/clock/hash', 'the sample is a deterministic function of (X, r)', 'the sampling function draws from an entropy source: repeated calls / processes return different scores', inspected=len(calls(fn)))
    # decorator: not compiled with options that could hide (1): record boundscheck
    deco = dict(fn.decorator_info()[0][1]) if fn.decorator_info() else {}
    chk.note(f'stratified_subsampling decorator options: {sorted(deco)} (boundscheck {"on" if "boundscheck" in deco else "off"})')


def stratum_buffers(repo, chk):
    """In compute_entropies every per-stratum buffer that is filled position by position inside a loop (`for k, row in enumerate(ROWS): B[k] = ...`
    or `for k in range(len(ROWS)): B[k] = ... ROWS[k] ...`) must be allocated with exactly as many slots as the loop has iterations, and the
    loop must range over the row set itself (which under subsampling is the *sampled* stratum), not over the full-data count."""
    fn = repo.func(MI, 'compute_entropies')
    m = fn.module
    E = lambda src: expected_term(m, src)

    def lenform(t):
        if t[0] == 'attr' and t[2] == 'size':
            t = ('call', ('name', 'len'), (t[1],), ())
        # len(V[rows]) / len(V[rows].astype(..)) - a vector gathered at the rows of the stratum has as many entries as there are rows
        if t[0] == 'call' and t[1] == ('name', 'len') and len(t[2]) == 1:
            g = t[2][0]
            while g[0] == 'call' and g[1][0] == 'attr' and g[1][2] in ('astype', 'copy', 'ravel', 'flatten'):
                g = g[1][1]
            if g[0] == 'sub' and g[1][0] == 'name' and g[1][1] in fn.params:
                idx = g[2]
                # V[np.where(..)] (the 1-tuple) gathers at its only element
                if idx[0] == 'call' and idx[1] in (('lib', 'numpy.where'), ('lib', 'numpy.nonzero')):
                    idx = ('sub', idx, ('num', 0))
                return ('call', ('name', 'len'), (idx,), ())
        return t
    n = 0
    candidates = 0
    par = parents(fn.node)
    for st in [x for x in own_nodes(fn.node) if isinstance(x, ast.Assign) and isinstance(x.targets[0], ast.Subscript) and isinstance(x.targets[0].value, ast.Name) and isinstance(x.targets[0].slice, ast.Name)]:
        B, k = st.targets[0].value.id, st.targets[0].slice.id
        allocs = [a for a in own_nodes(fn.node) if isinstance(a, ast.Assign) and isinstance(a.targets[0], ast.Name) and a.targets[0].id == B and isinstance(a.value, ast.Call) and (m.dotted(a.value.func) or '') in ('numpy.zeros', 'numpy.empty', 'numpy.ones', 'numpy.full')]
        if len(allocs) != 1:
            continue
        lp = par.get(st)
        while lp is not None and not (isinstance(lp, ast.For) and k in {x.id for x in ast.walk(lp.target) if isinstance(x, ast.Name)}):
            lp = par.get(lp)
        if lp is None:
            continue
        # a buffer allocated outside the stratum loop and filled once per stratum / class is not a per-row buffer
        it = lp.iter
        rows = None
        trip = None
        if isinstance(it, ast.Call) and isinstance(it.func, ast.Name) and it.func.id == 'enumerate' and isinstance(lp.target, ast.Tuple) and isinstance(lp.target.elts[0], ast.Name) and lp.target.elts[0].id == k:
            rows = term_of(fn, it.args[0], inline=True)
            trip = ('call', ('name', 'len'), (rows,), ())
        elif isinstance(it, ast.Call) and (m.dotted(it.func) or '') in ('range', 'numba.prange') and len(it.args) == 1 and isinstance(lp.target, ast.Name):
            trip = lenform(term_of(fn, it.args[0], inline=True))
            read = [x for x in ast.walk(lp) if isinstance(x, ast.Subscript) and isinstance(x.ctx, ast.Load) and isinstance(x.slice, ast.Name) and x.slice.id == k and isinstance(x.value, ast.Name) and x.value.id != B]
            # a sibling buffer filled in the same loop is not the row list: its length is what it was allocated with
            def is_buffer(name):
                return any(isinstance(a, ast.Assign) and isinstance(a.targets[0], ast.Name) and a.targets[0].id == name and isinstance(a.value, ast.Call) and (m.dotted(a.value.func) or '') in ('numpy.zeros', 'numpy.empty', 'numpy.ones', 'numpy.full') for a in own_nodes(fn.node))
            plain = [x for x in read if not is_buffer(x.value.id)]
            if plain:
                rows = term_of(fn, plain[0].value, inline=True)
            elif read:
                sib = [a for a in own_nodes(fn.node) if isinstance(a, ast.Assign) and isinstance(a.targets[0], ast.Name) and a.targets[0].id == read[0].value.id and isinstance(a.value, ast.Call) and a.value.args]
                sz = lenform(term_of(fn, sib[0].value.args[0], inline=True)) if len(sib) == 1 else None
                if sz is not None and sz[0] == 'call' and sz[1] == ('name', 'len') and len(sz[2]) == 1:
                    rows = sz[2][0]
        else:
            continue
        if rows is None:
            continue
        if rows[:2] == ('call', ('lib', 'numpy.nonzero')):
            continue      # the 1-tuple itself, not the row list
        candidates += 1
        size = lenform(term_of(fn, allocs[0].value.args[0], inline=True))
        want = ('call', ('name', 'len'), (rows,), ())
        n += 1
        chk.expect(size == want and trip == want, 'C04.2b', 'R4', fn.site(allocs[0]), f'{ast.unparse(allocs[0])}  (filled over `for {ast.unparse(lp.target)} in {ast.unparse(it)}`)', 'the per-stratum buffer has one slot per row actually present in the (sampled) stratum, and the fill loop visits exactly those rows',
                   f'the buffer `{B}` is sized by {ast.unparse(allocs[0].value.args[0])} and filled over `{ast.unparse(it)}`, which must both be the number of rows of the stratum\'s own row list: under subsampling the stratum holds fewer rows than the full-data count, so the tail of the buffer is never written (uninitialised memory with np.empty, spurious zero codes with np.zeros) and is counted into the score')
    if n == 0:
        # no position-by-position filled per-stratum buffer: accepted only when the displaced copy is visibly gathered in one vectorised read
        Yp = fn.params[1]
        gathers = []
        for x in own_nodes(fn.node):
            if isinstance(x, ast.Assign) and isinstance(x.targets[0], ast.Name):
                t = term_of(fn, x.value, inline=True)
                while t[0] == 'call' and t[1][0] == 'attr' and t[1][2] == 'astype':
                    t = t[1][1]
                if t[0] == 'sub' and t[1] == ('name', Yp) and any(isinstance(u, tuple) and u and (u[0] == '%' or u[:2] == ('call', ('lib', 'numpy.remainder')) or u[:2] == ('call', ('lib', 'numpy.mod'))) for u in walk_term(t[2])):
                    gathers.append(x)
        if gathers:
            chk.ok('C04.2b', 'R4', fn.site(gathers[0]), ast.unparse(gathers[0])[:120], 'the displaced copy is gathered in one vectorised read: it has exactly one element per row of the (sampled) stratum by construction')
        else:
            chk.unsure('C04.2b', 'R4', fn.site(), 'per-stratum buffers in compute_entropies', 'neither an element-wise filled per-stratum buffer nor a vectorised gather of the displaced copy was recognised')


def estimator(repo, chk):
    fn = repo.func(MI, 'mutual_info_estimator_numba')
    m = fn.module
    Yp, Xp, rp, cp = fn.params[:4]
    E = lambda s: expected_term(m, s)
    stmts = _top_stmts(fn)
    samp = [s for s in stmts if isinstance(s, ast.Assign) and isinstance(s.value, ast.Call) and m.dotted(s.value.func) == f'{MI}.stratified_subsampling']
    if len(samp) != 1:
        chk.bad('C04.6', 'R17', fn.site(), 'Y, X = stratified_subsampling(Y, X, r, f_values)', f'{len(samp)} sampling statements in the estimator (expected one)')
        return
    s0 = samp[0]
    par = parents(fn.node)
    g = par.get(s0)
    ok_guard = isinstance(g, ast.If) and term_of(fn, g.test, inline=False) in (E(f'{rp} < 1.0'), E(f'{rp} < 1')) and not g.orelse
    chk.expect(ok_guard, 'C04.7a', 'R14', fn.site(g) if isinstance(g, ast.If) else fn.site(s0), ast.unparse(g.test) if isinstance(g, ast.If) else '(unconditional)', 'sampling exactly when the ratio is below 1', 'the sampling must be guarded by exactly `approximation_factor < 1.0`')
    # binding of arguments and results
    callee = repo.func(MI, 'stratified_subsampling')
    ba = bind_args(s0.value, callee)
    cps = callee.params
    ok_b = [ast.unparse(ba.get(cps[0], ast.Constant(None))), ast.unparse(ba.get(cps[1], ast.Constant(None))), ast.unparse(ba.get(cps[2], ast.Constant(None)))] == [Yp, Xp, rp]
    tg = s0.targets[0]
    ok_t = isinstance(tg, ast.Tuple) and [ast.unparse(e) for e in tg.elts] == [Yp, Xp]
    chk.expect(ok_b and ok_t, 'C04.4c', 'R6', fn.site(s0), ast.unparse(s0), 'the estimator continues with the sampled (Y, X)', 'arguments/results of the sampler are not bound to (Y, X, ratio) in their roles')
    # 6: no read of Y before the sampling statement (other than as argument of the sampler)
    early_y = []
    for s in stmts:
        if s is s0 or s is g:
            continue
        if s.lineno >= s0.lineno:
            continue
        roots = [s] if not isinstance(s, (ast.If, ast.For, ast.While)) else [s.test if hasattr(s, 'test') else s.iter]
        for r in roots:
            for n in ast.walk(r):
                if isinstance(n, ast.Name) and n.id == Yp and isinstance(n.ctx, ast.Load):
                    early_y.append((s, n))
    if early_y:
        s, n = early_y[0]
        txt = ast.unparse(s.test) if isinstance(s, ast.If) else ast.unparse(s)
        chk.bad('C04.6', 'R17', fn.site(s), txt[:140], 'the full feature vector Y is read before it is replaced by the sample, and the value read reaches the result (branch condition / flag): altering feature values outside the sampled rows changes the score')
    else:
        chk.ok('C04.6', 'R17', fn.site(s0), f'no use of {Yp} before the sampling statement', 'the result depends on Y only through the sampled rows')
    # 7: weights before sampling, from the full X
    sc = Scope(fn)
    pre = {}
    for s in stmts:
        if isinstance(s, ast.Assign) and s.lineno < s0.lineno and s is not g:
            pre[ast.unparse(s.targets[0])] = term_of(fn, s.value, inline=False)
    have_n = E(f'len({Xp})') in pre.values()
    have_u = E(f'{MI}.numba_unique({Xp})') in pre.values()
    chk.expect(have_n and have_u, 'C04.7b', 'R1', fn.site(), 'all_events = len(X); f_values, f_value_counts = numba_unique(X)  (before the sampling)', 'stratum weights come from the full X', 'N = len(X) and the value histogram numba_unique(X) must be computed from the full X before X is replaced by the sample')
    # compute_entropies call and the scaling by r
    ce = [c for c in calls(fn) if m.dotted(c.func) == f'{MI}.compute_entropies']
    rets = returns(fn)
    if len(ce) == 1 and len(rets) == 1:
        names = {v: k for k, v in ((k, v) for k, v in pre.items())}
        nname = [k for k, v in pre.items() if v == E(f'len({Xp})')]
        uname = [k for k, v in pre.items() if v == E(f'{MI}.numba_unique({Xp})')]
        ce_fn = repo.func(MI, 'compute_entropies')
        bce = bind_args(ce[0], ce_fn)
        args = [ast.unparse(bce[p_]) if p_ in bce else None for p_ in ce_fn.params[:5]]
        ok_args = False
        if nname and uname:
            u = uname[0].strip('()').split(', ')
            ok_args = args[:2] == [Xp, Yp] and args[2] == nname[0] and args[3:5] == u and ce[0].lineno > s0.lineno
        chk.expect(ok_args, 'C04.7c', 'R6', fn.site(ce[0]), ast.unparse(ce[0]), 'entropies are computed on the sample with the original N, values and counts', 'compute_entropies must receive (X, Y, len(full X), values(full X), counts(full X), ...) after the sampling')
        rt = term_of(fn, rets[0].value, inline=True)
        ct = term_of(fn, ce[0], inline=True)
        chk.expect(rt == ('*', tuple(sorted([('name', rp), ct], key=repr))), 'C04.7d', 'R15', fn.site(rets[0]), ast.unparse(rets[0]), 'result = r * (entropy combination on the sample)', f'the estimate must be scaled by the ratio exactly once; found {show(rt)[:120]}')
    else:
        chk.unsure('C04.7c', 'R6', fn.site(), 'compute_entropies(...)', 'call / return not found')


def forwarding(repo, chk):
    nm = repo.func(IE, 'numba_mi')
    m = nm.module
    cs = [c for c in calls(nm) if m.dotted(c.func) == f'{MI}.mutual_info_estimator_numba']
    ratio = nm.params[3] if len(nm.params) > 3 else 'mi_stratified_sampling_ratio'
    ok = bool(cs)
    est = repo.func(MI, 'mutual_info_estimator_numba')
    forms = [expected_term(m, f'numpy.float32({ratio})'), expected_term(m, ratio), expected_term(m, f'float({ratio})')]
    for c in cs:          # (one call, or one per value of a flag that used to be a variable)
        a = bind_args(c, est).get(est.params[2])
        ok = ok and a is not None and term_of(nm, a, inline=True) in forms
    chk.expect(ok, 'C04.7e', 'R6', nm.site(cs[0]) if cs else nm.site(), ast.unparse(cs[0]).replace('\n', ' ')[:200] if cs else '', 'numba_mi hands the configured ratio to the estimator', 'numba_mi must pass mi_stratified_sampling_ratio as approximation_factor')
    cf = repo.func(IE, 'conduct_feature_ranking')
    cs2 = [c for c in calls(cf) if m.dotted(c.func) == f'{IE}.numba_mi']
    ok2 = bool(cs2)
    want2 = expected_term(m, f'{cf.params[2]}.mi_stratified_sampling_ratio')
    for c in cs2:
        a2 = bind_args(c, nm).get(ratio)
        ok2 = ok2 and a2 is not None and term_of(cf, a2, inline=True) == want2
    if not cs2:
        # the scorer may be reached through a table of small scorer functions: every call of numba_mi in the module must then pass the
        # configured ratio of ITS run configuration (the attribute mi_stratified_sampling_ratio of one of its parameters)
        elsewhere = [(f_, c) for f_ in m.funcs.values() if f_ is not nm for c in calls(f_) if m.dotted(c.func) == f'{IE}.numba_mi']
        if elsewhere:
            ok2 = True
            for f_, c in elsewhere:
                a2 = bind_args(c, nm).get(ratio)
                t2 = term_of(f_, a2, inline=True) if a2 is not None else None
                ok2 = ok2 and t2 is not None and t2[0] == 'attr' and t2[2] == 'mi_stratified_sampling_ratio' and t2[1][0] == 'name' and t2[1][1] in f_.params
            cs2 = [c for _f, c in elsewhere]
    chk.expect(ok2, 'C04.7f', 'R6', cf.site(cs2[0]) if cs2 else cf.site(), ast.unparse(cs2[0]) if cs2 else 'numba_mi(...)', '--mi_stratified_sampling_ratio reaches numba_mi', 'conduct_feature_ranking must forward args.mi_stratified_sampling_ratio to numba_mi')
