"""C03 - the cardinality correction subtracts the displaced-copy noise floor.

 1 displaced read is Y[(row + Cnt(X=v)) mod len(Y)] for every row of the stratum in order; index within [0, len(Y))
 2 the displaced buffer has one slot per row of the stratum, every slot written
 3 both conditional-entropy terms use the same weights, class values and stratum size; they differ exactly in (sub-vector, joint counts)
 4 the corrected path returns H(Y*|X) - H(Y|X) (no H(Y) contribution); only the whitelisted skip guards
 5 cardinality_correction is True exactly for 'MI-numba-randomized'; it is switched off by the exact self-pair test and nothing else
 6 loop-carried cursors advance on every path
"""
from __future__ import annotations

import ast

from ..match import bind_args, calls, expected_term, term_of
from ..model import own_nodes
from ..terms import show
from .kernel_rules import MI, histogram, loop_cursors, sampling_guard, self_pair_test, summary_obligations

EXPLANATION = ('Probability-kind inference (R9) extended with the displaced copy: the interpreter recognises Y*[k] = Y[(row_k + Cnt(X=v)) mod len(Y)] over enumerate(Rows(X=v)), checks buffer size and slot, '
               'and summarises the corrected path as a signed sum that must equal H(Y*|X) - H(Y|X) with identical weights and guards for both terms. Comparison normal form (R14) of the heuristic-name -> '
               'flag mapping; element-wise/reduction classification of the self-pair predicate. The zero-score corollaries follow from the identity and the one-row-stratum skip; the ranking corollary is declined.')
TRUSTED_BASE = ['x % n with n > 0 and x >= 0 is in [0, n)', 'numba: prange without parallel=True is range']
ASSUMPTIONS = ['the planted-signal ranking corollary (statistical) is not decided']

IE = 'outrank.algorithms.importance_estimator'


def run(repo, chk, tier):
    histogram(repo, chk, 'C03.0')
    summary_obligations(repo, chk, True, 'C03', {'badratio', 'badlog', 'badindex', 'badrange', 'badcount', 'badstore', 'baddisp', 'badinit'})
    loop_cursors(repo, chk, 'C03.6')
    sampling_guard(repo, chk, 'C03.7')
    self_pair_test(repo, chk, 'C03.5')
    flag_mapping(repo, chk)


def flag_mapping(repo, chk):
    fn = repo.func(IE, 'numba_mi')
    m = fn.module
    heur = fn.params[2]
    est = repo.func(MI, 'mutual_info_estimator_numba')
    cs = [c for c in calls(fn) if m.dotted(c.func) == f'{MI}.mutual_info_estimator_numba']
    if len(cs) != 1:
        chk.unsure('C03.5c', 'R14', fn.site(), 'mutual_info_estimator_numba(...)', f'{len(cs)} calls of the estimator in numba_mi')
        return
    ba = bind_args(cs[0], est)
    a = ba.get(est.params[3])
    t = term_of(fn, a, inline=True) if a is not None else None
    want = [expected_term(m, f"{heur} == 'MI-numba-randomized'"), expected_term(m, f"True if {heur} == 'MI-numba-randomized' else False")]
    chk.expect(t in want, 'C03.5c', 'R14', fn.site(cs[0]), f'cardinality_correction = {ast.unparse(a) if a is not None else None}', "correction is on exactly for the heuristic 'MI-numba-randomized'",
               f"the correction flag must be exactly (heuristic == 'MI-numba-randomized'); found {show(t)[:120] if t else 'flag not passed (default False)'}")
    # vectors: feature first, target second
    ok = ast.unparse(ba.get(est.params[0], ast.Constant(None))).startswith(fn.params[0]) and ast.unparse(ba.get(est.params[1], ast.Constant(None))).startswith(fn.params[1])
    chk.expect(ok, 'C03.5d', 'R6', fn.site(cs[0]), ast.unparse(cs[0]).replace('\n', ' ')[:160], 'feature vector is Y, target vector is X', 'numba_mi must pass (feature, target) as (Y, X)')
