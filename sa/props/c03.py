"""C03 - the cardinality correction subtracts the displaced-copy noise floor.

 1 displaced read is Y[(row + Cnt(X=v)) mod len(Y)] for every row of the stratum in order; index within [0, len(Y))
 2 the displaced buffer has one slot per row of the stratum, every slot written
 3 both conditional-entropy terms use the same weights, class values and stratum size; they differ exactly in (sub-vector, joint counts)
 4 the corrected path returns H(Y*|X) - H(Y|X) (no H(Y) contribution); only the whitelisted skip guards
 5 cardinality_correction is True exactly for 'MI-numba-randomized'; it is switched off by the exact self-pair test and nothing else
 6 loop-carried cursors advance on every path
"""
from __future__ import annotations

import ast

from ..match import bind_args, calls, expected_term, term_of
from ..model import own_nodes
from ..terms import show
from .kernel_rules import MI, histogram, loop_cursors, sampling_guard, self_pair_test, summary_obligations

EXPLANATION = ('Probability-kind inference (R9) extended with the displaced copy: the interpreter recognises Y*[k] = Y[(row_k + Cnt(X=v)) mod len(Y)] over enumerate(Rows(X=v)), checks buffer size and slot, '
               'and summarises the corrected path as a signed sum that must equal H(Y*|X) - H(Y|X) with identical weights and guards for both terms. Comparison normal form (R14) of the heuristic-name -> '
               'flag mapping; element-wise/reduction classification of the self-pair predicate. The zero-score corollaries follow from the identity and the one-row-stratum skip; the ranking corollary is declined.')
TRUSTED_BASE = ['x % n with n > 0 and x >= 0 is in [0, n)', 'numba: prange without parallel=True is range']
ASSUMPTIONS = ['the planted-signal ranking corollary (statistical) is not decided']

IE = 'outrank.algorithms.importance_estimator'


def run(repo, chk, tier):
    histogram(repo, chk, 'C03.0')
    summary_obligations(repo, chk, True, 'C03', {'badratio', 'badlog', 'badindex', 'badrange', 'badcount', 'badstore', 'baddisp', 'badinit', 'badclamp'})
    loop_cursors(repo, chk, 'C03.6')
    sampling_guard(repo, chk, 'C03.7')
    self_pair_test(repo, chk, 'C03.5')
    flag_mapping(repo, chk)
    from .kernel_rules import compile_options
    compile_options(repo, chk, 'C03.9')


def flag_mapping(repo, chk):
    fn = repo.func(IE, 'numba_mi')
    m = fn.module
    heur = fn.params[2]
    est = repo.func(MI, 'mutual_info_estimator_numba')
    cs = [c for c in calls(fn) if m.dotted(c.func) == f'{MI}.mutual_info_estimator_numba']
    if len(cs) != 1:
        chk.unsure('C03.5c', 'R14', fn.site(), 'mutual_info_estimator_numba(...)', f'{len(cs)} calls of the estimator in numba_mi')
        return
    ba = bind_args(cs[0], est)
    a = ba.get(est.params[3])
    t = term_of(fn, a, inline=True) if a is not None else None
    want = [expected_term(m, f"{heur} == 'MI-numba-randomized'"), expected_term(m, f"True if {heur} == 'MI-numba-randomized' else False")]
    if t in want or a is None:
        chk.expect(t in want, 'C03.5c', 'R14', fn.site(cs[0]), f'cardinality_correction = {ast.unparse(a) if a is not None else None}', "correction is on exactly for the heuristic 'MI-numba-randomized'",
                   f"the correction flag must be exactly (heuristic == 'MI-numba-randomized'); found {show(t)[:120] if t else 'flag not passed (default False)'}")
    else:
        # another spelling: the flag is a function of the heuristic name alone - evaluate it for every name the estimator dispatches on
        from .common import Undecided, heuristic_universe, pred_eval
        expr = a
        for _ in range(4):
            if isinstance(expr, ast.Name) and expr.id != heur:
                ds = [n.value for n in own_nodes(fn.node) if isinstance(n, ast.Assign) and len(n.targets) == 1 and isinstance(n.targets[0], ast.Name) and n.targets[0].id == expr.id]
                if len(ds) != 1:
                    break
                expr = ds[0]
        wrong = None
        try:
            for h in sorted(heuristic_universe(repo)):
                got = bool(pred_eval(expr, {heur: h}, m))
                if got != (h == 'MI-numba-randomized'):
                    wrong = (h, got)
                    break
        except Undecided as u:
            chk.unsure('C03.5c', 'R14', fn.site(cs[0]), f'cardinality_correction = {ast.unparse(expr)[:80]}', f'the correction flag is computed with a construct outside the evaluated vocabulary ({u})')
            wrong = 'undecided'
        if wrong is None:
            chk.ok('C03.5c', 'R14', fn.site(cs[0]), f'cardinality_correction = {ast.unparse(expr)[:80]}', "evaluated for every heuristic name: on exactly for 'MI-numba-randomized'")
        elif wrong != 'undecided':
            chk.bad('C03.5c', 'R14', fn.site(cs[0]), f'cardinality_correction = {ast.unparse(expr)[:80]}', f"the correction must be on exactly for the heuristic 'MI-numba-randomized'; the flag is {wrong[1]} for {wrong[0]!r}")
    # vectors: feature first, target second
    from .common import param_deps
    d0 = param_deps(fn, ba.get(est.params[0], ast.Constant(None))) & set(fn.params[:2])
    d1 = param_deps(fn, ba.get(est.params[1], ast.Constant(None))) & set(fn.params[:2])
    ok = d0 == {fn.params[0]} and d1 == {fn.params[1]}
    chk.expect(ok, 'C03.5d', 'R6', fn.site(cs[0]), ast.unparse(cs[0]).replace('\n', ' ')[:160], 'feature vector is Y, target vector is X', 'numba_mi must pass (feature, target) as (Y, X)')
