"""C08 - streaming equals reference batch semantics with median aggregation.

 1 header: exactly one readline() before the loop; the row counter starts at 0 and is incremented by 1 per line before any skip
 2 row selection: counter % subsampling != 0 -> continue
 3 a parsed row enters the buffer iff len(row) == len(header), otherwise the invalid counter is incremented; nothing else
   appends to the buffer; the buffer is never sorted, shuffled or sliced other than by the tail's prefix
 4 batch trigger len(buffer) >= minibatch_size; on every path from the batch call back to the loop head: buffer reset,
   triplets accumulated, then (heuristic != Constant) checkpoint of the accumulator - in that order
 5 tail rule: len(buffer) > 2**10 (strict, folded 1024); accumulate, then checkpoint
 6 one aggregator: checkpoint and return both apply get_grouped_df to the accumulator = groupby([FeatureA, FeatureB]).median();
   the accumulator is only ever extended with a batch's triplets
 7 task_ranking: pairwise_ranks.tsv is the concatenation of the grouped frames, sorted by Score ascending, not re-aggregated
"""
from __future__ import annotations

import ast

from ..cfg import CFG
from ..match import calls, expected_term, is_noise_stmt, returns, term_of
from ..model import own_nodes, parents
from ..terms import show, walk_term
from .common import CR, field_count_gate, streaming_loop

EXPLANATION = ('CFG rules over estimate_importances_minibatches: guard normal forms (R14) for row selection, validity, batch trigger and tail; must-pass-through with order (R1) from the batch call '
               'back to the loop head (reset, accumulate, checkpoint); accumulator discipline (R13: only extended by a batch\'s triplets, never re-bound); sibling agreement (R6) of the aggregator used by '
               'checkpoint and return; canonical form (R15) of the median aggregation and of the final ascending sort in task_ranking. Decides control/data shape, not file contents.')
TRUSTED_BASE = ['DataFrame.groupby(keys).median() is the per-group median; sort_values default ascending', 'file iteration yields lines in file order']
ASSUMPTIONS = ['Constant heuristic is exempt from checkpointing (all scores 0; the tasks forcing it exit before output is written)']

TR = 'outrank.task_ranking'


def run(repo, chk, tier):
    from .common import stream_model
    from ..terms import walk_term
    S = stream_model(repo)
    fn, loop, pcall = S.fn, S.loop, S.pcall
    m = fn.module
    cfg = CFG(fn.node)
    par = parents(fn.node)
    args = S.args
    E = lambda s: expected_term(m, s)

    # -- 1 header and counter
    stream = S.stream.id if isinstance(S.stream, ast.Name) else None
    rl = [c for c in calls(fn, attr=('readline', 'readlines', '__next__')) if isinstance(c.func.value, ast.Name) and c.func.value.id == stream]
    nexts = [c for c in calls(fn, name='next') if c.args and isinstance(c.args[0], ast.Name) and c.args[0].id == stream]
    before = [c for c in rl + nexts if c.lineno < loop.lineno and not any(x is c for x in ast.walk(loop))]
    inside = [c for c in rl + nexts if any(x is c for x in ast.walk(loop))]
    cond_before = [c for c in before if _conditional(c, par, fn.node)]
    one_line = bool(before) and ((isinstance(before[0].func, ast.Attribute) and before[0].func.attr in ('readline', '__next__')) or (isinstance(before[0].func, ast.Name) and before[0].func.id == 'next'))
    chk.expect(stream is not None and len(before) == 1 and not inside and not cond_before and one_line, 'C08.1a', 'R1', fn.site(before[0]) if before else fn.site(loop),
               f'{len(before)} header read(s) before the loop, {len(inside)} inside', 'exactly the header line is consumed before the data rows', 'exactly one unconditional readline() must precede the loop (and none inside): otherwise data rows are lost or the header is parsed as data')
    if S.paths is None:
        chk.unsure('C08.2', 'R14', fn.site(loop), 'streaming loop', 'too many tests in the loop body to evaluate one iteration path by path')
        return
    # -- 2 row selection: the decided subsampling tests of all paths
    sub_tests = {}
    for p in S.paths:
        for t, truth, node in p.tests:
            d = S.subsampling_decision(t, truth)
            if d is not None:
                sub_tests[id(node)] = (node, d[1])
    if not sub_tests:
        chk.bad('C08.2', 'R14', fn.site(loop), 'if counter % args.subsampling != 0: continue', 'no row-selection guard on the subsampling factor was found in the loop')
    for node, cnt in sub_tests.values():
        # skip-paths end the iteration, keep-paths go on to the parser
        skip_paths = [p for p in S.paths if any(S.subsampling_decision(t, tr) == ('skip', cnt) for t, tr, _ in p.tests)]
        keep_paths = [p for p in S.paths if any(S.subsampling_decision(t, tr) == ('keep', cnt) for t, tr, _ in p.tests)]
        ok_sel = bool(skip_paths) and bool(keep_paths) and all(p.res.ended in ('continue',) and not p.mentions(S.parse) for p in skip_paths) and all(p.mentions(S.parse) for p in keep_paths)
        chk.expect(ok_sel, 'C08.2', 'R14', fn.site(node), ast.unparse(node)[:100], 'rows whose 1-based position is not a multiple of the factor are skipped', f'row selection must be `counter % args.subsampling != 0 -> continue` (skip the others, parse these); found test {ast.unparse(node)[:80]}')
        # the counter is the 1-based position of the line
        if S.enum_counter and cnt == ('name', S.enum_counter):
            chk.expect(S.enum_start == 1, 'C08.1b', 'R13', fn.site(loop), ast.unparse(loop.iter), 'the counter is the 1-based position of the row in the file (enumerate from 1)', 'the row counter must start at 1 for the first data row (enumerate(stream, start=1))')
        elif cnt[0] == '+' and len(cnt[1]) == 2 and ('num', 1) in cnt[1] and [x for x in cnt[1] if x[0] == 'name']:
            cname = [x for x in cnt[1] if x[0] == 'name'][0][1]
            incs = [n for n in ast.walk(loop) if isinstance(n, ast.AugAssign) and isinstance(n.target, ast.Name) and n.target.id == cname]
            inits = [n for n in own_nodes(fn.node) if isinstance(n, (ast.Assign, ast.AnnAssign)) and any(isinstance(tg, ast.Name) and tg.id == cname for tg in (n.targets if isinstance(n, ast.Assign) else [n.target]))]
            # incremented once, on every path, before the test (the test sees counter + 1 on every path that decides it)
            every = all(any(S.subsampling_decision(t, tr) for t, tr, _ in p.tests) for p in S.paths if p.res.unknown is None)
            ok = len(incs) == 1 and isinstance(incs[0].op, ast.Add) and len(inits) == 1 and isinstance(inits[0].value, ast.Constant) and inits[0].value.value == 0 and inits[0].lineno < loop.lineno and every
            chk.expect(ok, 'C08.1b', 'R13', fn.site(incs[0]) if incs else fn.site(loop), f'{cname} = 0 ... {cname} += 1 (before the selection test)', 'the counter is the 1-based position of the row in the file', 'the row counter must start at 0 and be incremented by exactly 1 in every iteration before the selection test (before any skip)')
        else:
            chk.bad('C08.1b', 'R13', fn.site(node), ast.unparse(node)[:100], f'the selection test does not look at the 1-based position of the line (a counter incremented before the test, or enumerate from 1); it tests {show(cnt)[:80]}')

    # -- 3 validity gate and buffer hygiene
    buffers = field_count_gate(repo, chk, 'C08.3')
    if not buffers or len(buffers) != 1:
        chk.unsure('C08.3b', 'R13', fn.site(loop), 'row buffer', 'cannot identify the row buffer')
        return
    buf = next(iter(buffers))
    bad_ops = []
    for n in own_nodes(fn.node):
        if isinstance(n, ast.Call) and isinstance(n.func, ast.Attribute) and isinstance(n.func.value, ast.Name) and n.func.value.id == buf and n.func.attr in ('sort', 'reverse', 'pop', 'remove', 'insert', 'extend', 'clear'):
            if not (n.func.attr == 'clear' and not n.args):
                bad_ops.append(n)
        if isinstance(n, ast.Call) and any(isinstance(a, ast.Name) and a.id == buf for a in n.args) and m.dotted(n.func) in ('random.shuffle', 'numpy.random.shuffle', 'sorted', 'reversed'):
            bad_ops.append(n)
    chk.expect(not bad_ops, 'C08.3d', 'R11', fn.site(bad_ops[0]) if bad_ops else fn.site(loop), ast.unparse(bad_ops[0]) if bad_ops else f'{buf}: append only', 'rows stay in file order', 'the row buffer is reordered or edited: batches no longer hold consecutive rows in file order')

    # -- 4 batch trigger: on the paths of one iteration
    BATCH = f'{CR}.compute_batch_ranking'
    CKPT = f'{CR}.checkpoint_importances_df'

    def batch_calls(p):
        pools = [t for t, _ in p.calls] + [term_of(fn, v, inline=True) for v in (p.res.env or {}).values() if v is not None]
        out = []
        for pool in pools:
            for x in walk_term(pool):
                if isinstance(x, tuple) and x[:2] == ('call', ('lib', BATCH)) and x not in out:
                    out.append(x)
        return out
    trig_seen = {True: 0, False: 0}
    acc_names = set()
    problems = {}
    for p in S.paths:
        if p.res.unknown is not None:
            continue
        bcs = batch_calls(p)
        decided = [S.trigger_decision(t, tr, buf) for t, tr, _ in p.tests]
        decided = [d for d in decided if d is not None]
        if not decided:
            # a path without the trigger test: must not score a batch (e.g. the skipped-line path)
            if bcs:
                other = [n for t, tr, n in p.tests if S.subsampling_decision(t, tr) is None and S.field_count_decision(t, tr) is None]
                if any(any(x == ('name', buf) for x in walk_term(t)) for t, tr, n in p.tests if S.subsampling_decision(t, tr) is None and S.field_count_decision(t, tr) is None):
                    problems.setdefault('C08.4a', (other[0] if other else loop, f'the batch trigger must be exactly `len(buffer) >= args.minibatch_size`; found {[ast.unparse(n)[:60] for n in other]}'))
                else:
                    problems.setdefault('C08.4a', (loop, 'a batch is scored on a path that never tests the size of the buffer against args.minibatch_size'))
            continue
        trig = decided[0]
        trig_seen[trig] += 1
        if not trig:
            if bcs:
                problems.setdefault('C08.4a', (loop, 'a batch is scored although the buffer holds fewer than args.minibatch_size rows'))
            continue
        if len(bcs) != 1:
            problems.setdefault('C08.4a', (loop, f'{len(bcs)} batch evaluations on the path where the buffer is full (expected one)'))
            continue
        bc = bcs[0]
        if not (bc[2] and bc[2][0] == ('name', buf)):
            problems.setdefault('C08.4b', (loop, f'the batch evaluated must be the row buffer itself (all accepted rows, in order); found {show(bc[2][0])[:80] if bc[2] else None}'))
        env = p.res.env or {}
        # buffer reset
        bv = env.get(buf)
        cleared = any(isinstance(c['call'].func, ast.Attribute) and c['call'].func.attr == 'clear' and isinstance(c['call'].func.value, ast.Name) and c['call'].func.value.id == buf for _, c in p.calls)
        if not ((isinstance(bv, ast.List) and not bv.elts) or (isinstance(bv, ast.Call) and ast.unparse(bv) == 'list()') or cleared):
            problems.setdefault('C08.4d', (loop, 'after a batch is scored the row buffer is not reset on every path back to the loop head: rows are scored again in the next batch'))
        # accumulation: some name becomes <name> + <batch>.triplet_scores   (or .extend(...))
        trip = ('attr', ('sub', bc, ('num', 0)), 'triplet_scores')
        trip_alt = [('attr', bc, 'triplet_scores')]
        accs = []
        for k, v in env.items():
            if v is None:
                continue
            t = term_of(fn, v, inline=True)
            if t[0] == '+' and ('name', k) in t[1] and (trip in t[1] or any(a in t[1] for a in trip_alt)) and len(t[1]) == 2:
                accs.append(k)
        for t, c in p.calls:
            if isinstance(c['call'].func, ast.Attribute) and c['call'].func.attr == 'extend' and isinstance(c['call'].func.value, ast.Name) and t[2] and (t[2][0] == trip or t[2][0] in trip_alt):
                accs.append(c['call'].func.value.id)
        if len(accs) != 1:
            problems.setdefault('C08.4c', (loop, 'the triplets of a scored batch are not accumulated (exactly once) into the list of all per-batch triplets'))
            continue
        acc = accs[0]
        acc_names.add(acc)
        # checkpoint after accumulation, unless the heuristic is Constant
        const_dec = [(t, tr) for t, tr, _ in p.tests if t in (E(f"{args}.heuristic != 'Constant'"), E(f"{args}.heuristic == 'Constant'"))]
        is_const = any((t[1] == '==') == tr for t, tr in const_dec) if const_dec else None
        cks = [(term_of(fn, c['call'], inline=False), c) for t, c in p.calls if t[:2] == ('call', ('lib', CKPT))]
        acc_after = term_of(fn, env[acc], inline=False) if env.get(acc) is not None else None
        extended = any(isinstance(c['call'].func, ast.Attribute) and c['call'].func.attr == 'extend' and isinstance(c['call'].func.value, ast.Name) and c['call'].func.value.id == acc for _, c in p.calls)
        good_ck = [1 for t, c in cks if t[2] and (t[2][0] == acc_after or (extended and t[2][0] == ('name', acc) and c['seq'] > max(cc['seq'] for _, cc in p.calls if isinstance(cc['call'].func, ast.Attribute) and cc['call'].func.attr == 'extend')))]
        if is_const:
            continue
        if not good_ck:
            stale = bool(cks)
            problems.setdefault('C08.4e', (cks[0][1]['node'] if cks else loop, 'a path from the batch call to the loop head ' + ('checkpoints something else than the accumulator extended by this batch (e.g. before accumulating): the on-disk checkpoint lags behind the processed batches' if stale else 'does not checkpoint the accumulator after accumulating: the on-disk checkpoint lags behind the processed batches')))
    if trig_seen[True] == 0 and 'C08.4a' not in problems:
        bc_any = [n for n in ast.walk(loop) if isinstance(n, ast.Call) and m.dotted(n.func) == BATCH]
        if not bc_any:
            problems['C08.4a'] = (loop, '0 batch evaluations inside the streaming loop (expected one)')
        else:
            tests = sorted({ast.unparse(n)[:70] for p in S.paths for t, tr, n in p.tests if S.subsampling_decision(t, tr) is None and S.field_count_decision(t, tr) is None and any(x == ('name', buf) for x in walk_term(t))})
            problems['C08.4a'] = (bc_any[0], f'the batch trigger must be exactly `len(buffer) >= args.minibatch_size`; found {tests}')
    for oid, good in (('C08.4a', 'a batch is scored exactly when the buffer holds minibatch_size rows'), ('C08.4b', 'the batch is the row buffer'), ('C08.4c', 'the triplets of every scored batch are accumulated'),
                      ('C08.4d', 'the buffer is emptied after every scored batch (no row is scored twice)'), ('C08.4e', 'every scored batch is accumulated, then the checkpoint is rewritten from the accumulator')):
        if oid in problems:
            node, why = problems[oid]
            # "not found" verdicts are shape recognisers: they abstain when the loop was restructured (soft); "found and wrong" ones do not
            absence = oid == 'C08.4c' and 'are not accumulated' in why
            chk.bad(oid, 'R1' if oid in ('C08.4d', 'C08.4e', 'C08.4c') else 'R14', fn.site(node), ast.unparse(node).replace('\n', ' ')[:100], why, soft=absence)
        else:
            chk.ok(oid, 'R1' if oid in ('C08.4d', 'C08.4e', 'C08.4c') else 'R14', fn.site(loop), f'{trig_seen[True]} full-buffer path(s), {trig_seen[False]} other', good)
    if len(acc_names) != 1:
        if 'C08.4c' not in problems:
            chk.unsure('C08.6a', 'R13', fn.site(loop), 'accumulator', 'cannot identify the accumulator of per-batch triplets')
        return
    acc = next(iter(acc_names))

    # -- 6 accumulator discipline
    rebinds = [n for n in own_nodes(fn.node) if isinstance(n, (ast.Assign, ast.AnnAssign)) and any(isinstance(t, ast.Name) and t.id == acc for t in (n.targets if isinstance(n, ast.Assign) else [n.target]))]
    init_ok = len(rebinds) == 1 and rebinds[0].lineno < loop.lineno and isinstance(rebinds[0].value, ast.List) and not rebinds[0].value.elts
    others = [n for n in own_nodes(fn.node) if (isinstance(n, ast.AugAssign) and isinstance(n.target, ast.Name) and n.target.id == acc and not ast.unparse(n.value).endswith('.triplet_scores'))
              or (isinstance(n, ast.Call) and isinstance(n.func, ast.Attribute) and isinstance(n.func.value, ast.Name) and n.func.value.id == acc and n.func.attr in ('clear', 'pop', 'remove', 'sort', 'insert', 'append'))]
    init_v = rebinds[0].value if len(rebinds) == 1 else None
    init_cls = (m.dotted(init_v.func) or '') if isinstance(init_v, ast.Call) else ''
    if init_v is not None and not others and rebinds[0].lineno < loop.lineno and init_cls.startswith('outrank.') and repo.find_class(init_cls) is not None:
        chk.unsure('C08.6a', 'R13', fn.site(rebinds[0]), ast.unparse(rebinds[0])[:100], f'the per-batch triplets are accumulated in an object of the class {init_cls.split(".")[-1]}, which this rule does not model: '
                   'that it holds the raw per-batch scores of all batches is not decided')
    else:
      chk.expect(init_ok and not others, 'C08.6a', 'R13', fn.site(rebinds[-1]) if rebinds else fn.site(), f'{acc}: initialised once to [], only extended by a batch\'s triplets',
               'the accumulator holds the raw per-batch scores of all batches', 'the accumulator of per-batch triplets is re-bound or edited (e.g. replaced by its aggregation): the final score is no longer the median of the per-batch scores')

    # -- 5 tail
    bcalls = [n for n in own_nodes(fn.node) if isinstance(n, ast.Assign) and isinstance(n.value, ast.Call) and m.dotted(n.value.func) == BATCH]
    after = _after(fn, loop, par)
    tail = [b for b in bcalls if id(b) in after]
    tail_rule(repo, chk, fn, cfg, loop, buf, acc, tail, E, args, after)

    # -- 6 aggregator
    aggregator(repo, chk, fn, acc)
    final_sort(repo, chk)


def _conditional(node, par, stop):
    cur = par.get(node)
    while cur is not None and cur is not stop:
        if isinstance(cur, (ast.If, ast.For, ast.While, ast.Try)):
            if isinstance(cur, ast.If) and 'file_extension' in ast.unparse(cur.test):
                pass
            else:
                return True
        cur = par.get(cur)
    return False


def _accumulator(fn, summary):
    for n in own_nodes(fn.node):
        if isinstance(n, ast.AugAssign) and isinstance(n.target, ast.Name) and ast.unparse(n.value) == f'{summary}.triplet_scores':
            return n.target.id
        if isinstance(n, ast.Call) and isinstance(n.func, ast.Attribute) and n.func.attr == 'extend' and n.args and ast.unparse(n.args[0]) == f'{summary}.triplet_scores' and isinstance(n.func.value, ast.Name):
            return n.func.value.id
    return None


def _after(fn, node, par):
    """ids of all nodes of the statements that follow `node` (in its block and in the enclosing blocks)"""
    out = set()
    cur = node
    while cur is not None and cur is not fn.node:
        p = par.get(cur)
        for f in ('body', 'orelse', 'finalbody'):
            blk = getattr(p, f, None)
            if isinstance(blk, list) and cur in blk:
                for later in blk[blk.index(cur) + 1:]:
                    out |= {id(x) for x in ast.walk(later)}
        cur = p
    return out


def tail_rule(repo, chk, fn, cfg, loop, buf, acc, tail, E, args, after=None):
    m = fn.module
    if len(tail) != 1:
        chk.bad('C08.5a', 'R14', fn.site(), 'if len(buffer) > 2**10: compute_batch_ranking(...)', f'{len(tail)} tail evaluations after the loop (expected one): a final partial batch of more than 1024 rows must be used')
        return
    tb = tail[0]
    tnode = cfg.node_of(tb)
    guards = [g for g in cfg.nodes if g.kind == 'branch' and g.test is not None and isinstance(g.ast, ast.If) and cfg.dominates(g.id, tnode.id) and (id(g.ast) in after if after is not None else g.ast.lineno > loop.end_lineno)]
    tt = [(term_of(fn, g.test, inline=True), g.polarity) for g in guards]
    want = E(f'1024 < len({buf})')
    ok = (want, True) in tt and len(guards) == 1
    chk.expect(ok, 'C08.5a', 'R14', fn.site(guards[0].ast) if guards else fn.site(tb), ' and '.join(ast.unparse(g.test) for g in guards) or '(unconditional)', 'a final partial batch is used iff it has more than 1024 rows',
               f'the tail rule must be exactly `len(buffer) > 2**10` (strict, 1024); found {[(show(t), p) for t, p in tt]}')
    cbr_first = repo.func(CR, 'compute_batch_ranking').params[0]
    a0 = tb.value.args[0] if tb.value.args else next((k.value for k in tb.value.keywords if k.arg == cbr_first), None)
    a0t = term_of(fn, a0, inline=True) if a0 is not None else None
    ok_arg = a0t in (E(buf), E(f'{buf}[:{args}.minibatch_size]'))
    chk.expect(ok_arg, 'C08.5b', 'R6', fn.site(tb), ast.unparse(a0) if a0 is not None else '', 'the tail batch is the remaining buffer', f'the tail batch must be the remaining rows of the buffer; found {show(a0t)[:100] if a0t else None}')
    summary = tb.targets[0].elts[0].id if isinstance(tb.targets[0], ast.Tuple) and isinstance(tb.targets[0].elts[0], ast.Name) else None

    def is_acc(n):
        s = n.ast
        return n.kind == 'stmt' and ((isinstance(s, ast.AugAssign) and isinstance(s.op, ast.Add) and isinstance(s.target, ast.Name) and s.target.id == acc and ast.unparse(s.value) == f'{summary}.triplet_scores')
                                     or (isinstance(s, ast.Expr) and ast.unparse(s.value) == f'{acc}.extend({summary}.triplet_scores)'))

    def is_ckpt(n):
        s = n.ast
        if n.kind == 'branch' and n.test is not None and n.polarity is False and term_of(fn, n.test, inline=False) == E(f"{args}.heuristic != 'Constant'"):
            return True
        return n.kind == 'stmt' and isinstance(s, ast.Expr) and isinstance(s.value, ast.Call) and m.dotted(s.value.func) == f'{CR}.checkpoint_importances_df' and ast.unparse(s.value.args[0]) == acc

    ok_ord, stage = cfg.must_pass_ordered(tnode.id, [cfg.exit.id], [is_acc, is_ckpt])
    chk.expect(ok_ord, 'C08.5c', 'R1', fn.site(tb), f'{acc} += {summary}.triplet_scores ; checkpoint_importances_df({acc})', 'the tail batch is accumulated, then checkpointed',
               'the tail batch is ' + ('not accumulated' if stage == 0 else 'not checkpointed after being accumulated'))


def aggregator(repo, chk, fn, acc):
    m = fn.module
    g = repo.func(CR, 'get_grouped_df')
    ck = repo.func(CR, 'checkpoint_importances_df')
    # return element
    rets = returns(fn)
    ok = False
    if len(rets) == 1 and isinstance(rets[0].value, ast.Tuple):
        for e in rets[0].value.elts:
            if isinstance(e, ast.Call) and m.dotted(e.func) == f'{CR}.get_grouped_df' and len(e.args) == 1 and ast.unparse(e.args[0]) == acc:
                ok = True
    chk.expect(ok, 'C08.6b', 'R6', fn.site(rets[0]) if rets else fn.site(), f'get_grouped_df({acc})', 'the returned table is the aggregation of all per-batch triplets', 'the streaming function must return get_grouped_df(<accumulator>)')
    # checkpoint: get_grouped_df(param) -> to_csv
    cp = ck.params[0]
    cs = [c for c in calls(ck) if m.dotted(c.func) == f'{CR}.get_grouped_df']
    ok = len(cs) == 1 and ast.unparse(cs[0].args[0]) == cp and bool(calls(ck, attr='to_csv'))
    tocsv = calls(ck, attr='to_csv')
    path_arg = (tocsv[0].args[0] if tocsv[0].args else next((k.value for k in tocsv[0].keywords if k.arg == 'path_or_buf'), None)) if tocsv else None
    fname_ok = isinstance(path_arg, ast.Constant) and path_arg.value == 'ranking_checkpoint_tmp.tsv'
    par_ck = parents(ck.node)
    guards = []
    cur = par_ck.get(tocsv[0]) if tocsv else None
    while cur is not None and cur is not ck.node:
        if isinstance(cur, ast.If):
            guards.append(cur)
        cur = par_ck.get(cur)
    gname = None
    for n in own_nodes(ck.node):
        if isinstance(n, ast.Assign) and isinstance(n.targets[0], ast.Name) and cs and n.value is cs[0]:
            gname = n.targets[0].id
    ok_guard = all(term_of(ck, g.test, inline=False) == expected_term(m, f'{gname} is not None') and tocsv[0] in [x for s2 in g.body for x in ast.walk(s2)] for g in guards) and len(guards) <= 1
    chk.expect(ok_guard, 'C08.6e', 'R14', ck.site(guards[0]) if guards else ck.site(), ' and '.join(ast.unparse(g.test) for g in guards) or '(unguarded)', 'the checkpoint is written whenever there is an aggregation', 'the checkpoint write must only be skipped when there is nothing to aggregate (`gdf is not None`)')
    chk.expect(ok and fname_ok, 'C08.6c', 'R6', ck.site(), 'get_grouped_df(importances_batch).to_csv("ranking_checkpoint_tmp.tsv")', 'the checkpoint holds the same aggregation, of the batches so far', 'the checkpoint must write get_grouped_df(<all triplets so far>) to ranking_checkpoint_tmp.tsv')
    # the aggregation itself
    gp = g.params[0]
    rets = [r for r in returns(g) if not (isinstance(r.value, ast.Constant) and r.value.value is None)]
    E = lambda s: expected_term(m, s)
    forms = []
    for frame in (f"pandas.DataFrame({gp}, columns=['FeatureA', 'FeatureB', 'Score'])", f"pandas.DataFrame(list({gp}), columns=['FeatureA', 'FeatureB', 'Score'])"):
        for ai in (", as_index=False", ""):
            forms.append(E(f"{frame}.groupby(['FeatureA', 'FeatureB']{ai}).median()"))
            forms.append(E(f"{frame}.groupby(['FeatureA', 'FeatureB']{ai})['Score'].median()"))
            forms.append(E(f"{frame}.groupby(['FeatureA', 'FeatureB']{ai}).Score.median()"))
            forms.append(E(f"{frame}.groupby(['FeatureA', 'FeatureB']{ai}).agg('median')"))
    # the aggregation may only be skipped (None returned) for an empty list of triplets: decided on the paths of the helper
    from ..match import run_paths
    gps = run_paths(g, None, None, max_forks=3)
    if gps:
        frame_t = E(f"pandas.DataFrame({gp}, columns=['FeatureA', 'FeatureB', 'Score'])")
        ln = lambda x: ('call', ('name', 'len'), (x,), ())
        idx_t = ('attr', frame_t, 'index')
        empt_true = [('attr', frame_t, 'empty'), ('cmp', '==', ln(frame_t), ('num', 0)), ('cmp', '==', ln(idx_t), ('num', 0)), ('cmp', '==', ('num', 0), ln(idx_t)), ('cmp', '==', ('num', 0), ln(frame_t)), ('cmp', '==', ln(('name', gp)), ('num', 0)), ('not', ('name', gp)), ('cmp', '==', ('num', 0), ln(('name', gp)))]
        empt_false = [('name', gp), ln(('name', gp)), ln(frame_t), ('cmp', '<', ('num', 0), ln(('name', gp))), ('cmp', '!=', ln(('name', gp)), ('num', 0))]
        any_agg = False
        for _a, r_ in gps:
            if r_.unknown is not None or r_.returned is None:
                continue
            is_none = isinstance(r_.returned, ast.Constant) and r_.returned.value is None
            if not is_none:
                any_agg = True
                continue
            est = any((v and term_of(g, t, inline=True) in empt_true) or (not v and term_of(g, t, inline=True) in empt_false) for t, v in r_.assumed)
            about_input = [t for t, v in r_.assumed if any(x in (('name', gp), frame_t) for x in walk_term(term_of(g, t, inline=True)))]
            if not est and about_input:
                chk.unsure('C08.6f', 'R14', g.site(about_input[0]), ast.unparse(about_input[0])[:80], 'the aggregation is skipped under a test of the triplets that is not one of the recognised emptiness tests')
            elif not est:
                chk.bad('C08.6f', 'R14', g.site(r_.returned) if hasattr(r_.returned, 'lineno') else g.site(), ', '.join(f'{ast.unparse(t)[:40]} is {v}' for t, v in r_.assumed) or '(unconditional)',
                        'the aggregation is skipped (None is returned) on a path that has not established that there are no triplets: scores of evaluated pairs are dropped')
        if not any_agg and all(r_.unknown is None for _a, r_ in gps):
            chk.bad('C08.6f', 'R14', g.site(), 'get_grouped_df', 'no path of get_grouped_df returns the aggregated frame')
        if not any(o.oid == 'C08.6f' for o in chk.obs):
            chk.ok('C08.6f', 'R14', g.site(), f'{len(gps)} path(s)', 'the aggregation is skipped only for an empty list of triplets')
    found = [term_of(g, r.value, inline=True) for r in rets]
    ok = bool(found) and all(t in forms for t in found)
    # found and wrong: a groupby over the pair columns that is reduced by something other than the median, or grouped by other keys
    wrong = None
    for t in found:
        if t in forms:
            continue
        is_call = lambda x: isinstance(x, tuple) and len(x) == 4 and x[0] == 'call' and isinstance(x[1], tuple)
        fname = lambda x: (x[1][2] if x[1][0] == 'attr' else str(x[1][1]).split('.')[-1] if x[1][0] in ('lib', 'name') else None)
        gb = [x for x in walk_term(t) if is_call(x) and x[1][0] == 'attr' and x[1][2] == 'groupby']
        over_gb = [x for x in walk_term(t) if is_call(x) and fname(x) != 'groupby' and any(y in gb for a in (list(x[2]) + ([x[1][1]] if x[1][0] == 'attr' else [])) for y in walk_term(a))]
        red = [fname(x) for x in over_gb if fname(x) in ('mean', 'sum', 'max', 'min', 'first', 'last', 'count', 'std', 'prod', 'nunique', 'nanmean', 'average', 'amax', 'amin')]
        agg_other = [a for x in over_gb if fname(x) in ('agg', 'aggregate') for a in x[2] if a != ('str', 'median') and a not in gb and not any(y in gb for y in walk_term(a))]
        keys_ok = all(x[2] and x[2][0] in (E("['FeatureA', 'FeatureB']"), E("('FeatureA', 'FeatureB')")) for x in gb)
        dropped = [fname(x) for g_ in gb for x in walk_term(g_[1][1]) if is_call(x) and fname(x) in ('drop_duplicates', 'dropna', 'head', 'tail', 'sample', 'query', 'nlargest', 'nsmallest', 'drop', 'unique')]
        if gb and (red or agg_other):
            wrong = f'the per-batch scores of a pair are reduced by {(red or ["another aggregate"])[0]}, not by the median'
        elif gb and dropped:
            wrong = f'rows of the per-batch triplets are removed ({dropped[0]}) before they are aggregated: the median is no longer taken over all per-batch scores of the pair'
        elif gb and not keys_ok:
            wrong = 'the scores are not grouped by the ordered pair (FeatureA, FeatureB)'
    if not wrong:
        # the same when the frame that is grouped was re-bound to a cut of itself before
        DROPS = ('drop_duplicates', 'dropna', 'head', 'tail', 'sample', 'query', 'nlargest', 'nsmallest', 'drop')
        grouped_names = {c.func.value.id for c in calls(g, attr='groupby') if isinstance(c.func.value, ast.Name)}
        for n in own_nodes(g.node):
            if isinstance(n, ast.Assign) and any(isinstance(t_, ast.Name) and t_.id in grouped_names for t_ in n.targets):
                cut = [c for c in ast.walk(n.value) if isinstance(c, ast.Call) and isinstance(c.func, ast.Attribute) and c.func.attr in DROPS]
                if cut:
                    wrong = f'rows of the per-batch triplets are removed ({cut[0].func.attr}) before they are aggregated: the median is no longer taken over all per-batch scores of the pair'
    if wrong:
        chk.bad('C08.6d', 'R15', g.site(rets[0]) if rets else g.site(), ast.unparse(rets[0])[:140] if rets else 'return grouped', wrong)
    else:
        chk.expect(ok, 'C08.6d', 'R15', g.site(rets[0]) if rets else g.site(), ast.unparse(rets[0]) if rets else 'return grouped', 'final score of an ordered pair = median of its per-batch scores',
                   f"aggregation must be DataFrame(triplets, columns=[FeatureA, FeatureB, Score]).groupby([FeatureA, FeatureB]).median(); found {show(found[0])[:200] if found else None}", soft=True)


def final_sort(repo, chk):
    fn = repo.func(TR, 'outrank_task_conduct_ranking')
    m = fn.module
    E = lambda s: expected_term(m, s)
    # triplets = pd.concat(list of grouped frames, axis=0)
    conc = [n for n in own_nodes(fn.node) if isinstance(n, ast.Assign) and isinstance(n.value, ast.Call) and m.dotted(n.value.func) == 'pandas.concat' and isinstance(n.targets[0], ast.Name)]
    if not conc:
        chk.unsure('C08.7', 'R15', fn.site(), 'triplets = pd.concat(...)', 'concatenation of the grouped frames not found')
        return
    name = conc[0].targets[0].id
    lst = conc[0].value.args[0]
    apps = [c for c in calls(fn, attr='append') if isinstance(lst, ast.Name) and isinstance(c.func.value, ast.Name) and c.func.value.id == lst.id]
    ok = bool(apps) and all(isinstance(a.args[0], ast.Name) for a in apps)
    chk.expect(ok, 'C08.7a', 'origin', fn.site(conc[0]), ast.unparse(conc[0]), 'the table is the concatenation of the grouped frames returned by the streaming function', 'the ranked table must be the concatenation of the grouped frames')
    sorts = [n for n in own_nodes(fn.node) if isinstance(n, ast.Assign) and isinstance(n.value, ast.Call) and isinstance(n.value.func, ast.Attribute) and n.value.func.attr == 'sort_values' and isinstance(n.targets[0], ast.Name) and n.targets[0].id == name]
    def _path_text(c):
        # the path argument with local names resolved one level (path = os.path.join(folder, 'pairwise_ranks.tsv'); frame.to_csv(path, ..))
        a0 = c.args[0] if c.args else next((k.value for k in c.keywords if k.arg == 'path_or_buf'), None)
        txt = ast.unparse(c)
        if isinstance(a0, ast.Name):
            for n_ in own_nodes(fn.node):
                if isinstance(n_, ast.Assign) and len(n_.targets) == 1 and isinstance(n_.targets[0], ast.Name) and n_.targets[0].id == a0.id:
                    txt += ' ' + ast.unparse(n_.value)
        return txt
    writes = [c for c in calls(fn, attr='to_csv') if isinstance(c.func.value, ast.Name) and c.func.value.id == name and 'pairwise_ranks.tsv' in _path_text(c)]
    if len(sorts) != 1 or len(writes) != 1:
        chk.bad('C08.7b', 'R15', fn.site(), f'{name} = {name}.sort_values(by=["Score"]); {name}.to_csv(pairwise_ranks.tsv)', f'{len(sorts)} sorts / {len(writes)} writes of pairwise_ranks.tsv found (expected one each)')
        return
    s = sorts[0]
    par_fs = parents(fn.node)
    def _ifs(node):
        out, cur, child = [], par_fs.get(node), node
        while cur is not None and cur is not fn.node:
            if isinstance(cur, ast.If):
                out.append((id(cur), any(child is b or any(child is y for y in ast.walk(b)) for b in cur.body)))
            child, cur = cur, par_fs.get(cur)
        return out
    w_stmt = writes[0]
    only_sort = [g for g in _ifs(s) if g not in _ifs(w_stmt)]
    if only_sort:
        chk.bad('C08.7b', 'R15', fn.site(s), ast.unparse(s), 'the table is sorted only on one branch of a test that the write of pairwise_ranks.tsv does not depend on: on the other branch the file is written in '
                'groupby order, not in ascending score order')
        return
    t = term_of(fn, s.value, inline=False)
    forms = [E(f"{name}.sort_values(by=['Score'])"), E(f"{name}.sort_values(by='Score')"), E(f"{name}.sort_values('Score')"), E(f"{name}.sort_values(['Score'])"), E(f"{name}.sort_values(by=['Score'], ascending=True)"), E(f"{name}.sort_values(by='Score', ascending=True)")]
    chk.expect(t in forms and s.lineno < writes[0].lineno, 'C08.7b', 'R15', fn.site(s), ast.unparse(s), 'pairwise_ranks.tsv lists the pairs in ascending score order', f'the table must be sorted by Score ascending before it is written; found {show(t)[:120]}')
    # not re-aggregated / filtered between concat and write
    touched = [n for n in own_nodes(fn.node) if isinstance(n, ast.Assign) and isinstance(n.targets[0], ast.Name) and n.targets[0].id == name and n is not conc[0] and n is not s and conc[0].lineno < n.lineno < writes[0].lineno]
    chk.expect(not touched, 'C08.7c', 'origin', fn.site(touched[0]) if touched else fn.site(writes[0]), ast.unparse(touched[0])[:100] if touched else ast.unparse(writes[0])[:100], 'the aggregated scores are written as they are', 'the table is re-bound (filtered / re-aggregated) between aggregation and output')
