"""C07 - capped combination sampling is fair over any sequence of batches.

The invariant "counts of any two candidates of a stable duplicate-free list differ by at most one" is an
inductive consequence of structural facts, each checked here:
 1 (R2)  the counters are mutated only inside the sampler: initialise-to-0 for unseen candidates, += 1 for the selected
 2 (R15) selection = stable ascending sort of the *candidate list* by counter value, then the prefix of length cap
 3 (R13) the incrementing loop ranges over exactly the returned list, once, by exactly 1
 4 (R14) the cap is args.combination_number_upper_bound, unmodified; prefix slice
 5 (R6)  exported counts are the counter (copy -> str(k): v), no arithmetic on the values
 6 (R5)  call sites feeding different candidate spaces use different counters
 7       every candidate list handed to the sampler is duplicate-free by construction

Induction: if all counts lie in {m, m+1}, taking the cap smallest and adding 1 leaves all counts in {m, m+1} or {m+1, m+2};
"returned is a subset of the candidates" and "exactly min(cap, |cands|) distinct elements" are immediate from (2).
"""
from __future__ import annotations

import ast

from ..match import arg, calls, expected_term, mutations_of, package_mutations, returns, term_of, within_vocabulary
from ..model import own_nodes, parents
from ..terms import show, walk_term
from .common import CR, enumeration

EXPLANATION = ('Who-may-write (R2) over the whole package for the evaluation counters; canonical-term equality (R15) of the selection `sorted(candidates, key=counter.get)[:cap]` '
               '(or heapq.nsmallest); accumulator discipline (R13) of the +1 loop over exactly the returned list; comparison/constant normal form (R14) of the cap; sibling agreement (R6) '
               'of the exported mapping with the counter; key-space separation (R5) of the sampler call sites; pair-set algebra for duplicate-free candidate lists. '
               'The fairness invariant follows by the induction written in the module docstring; the tool checks its premises, not runs.')
TRUSTED_BASE = ['sorted is stable; sorted(xs, key=f)[:n] == heapq.nsmallest(n, xs, key=f)',
                'itertools.combinations_with_replacement(S, 2) yields every unordered pair of positions once, self-pairs included; combinations(S, k) without self-pairs',
                'a defaultdict(Counter) subscript creates and stores a Counter on first use; .get does not']
ASSUMPTIONS = ['column names of a frame are distinct']

TR = 'outrank.task_ranking'
STORES = {'GLOBAL_PRIOR_COMB_COUNTS', 'GLOBAL_PRIOR_CONSTRUCTION_COUNTS'}


KEYS = ['counter.get', 'lambda c: counter[c]', 'lambda c: counter.get(c)', 'counter.__getitem__', 'lambda c: counter.get(c, 0)']
CAP = 'args.combination_number_upper_bound'


def _roles(fn, counter_expr):
    cands, args = fn.params[0], fn.params[1]
    b = {cands: ('role', 'cands'), args: ('role', 'args')}
    return b


def selection_forms(m):
    """accepted spellings of "the cap least-counted candidates, ties in list order" over the roles cands / args / counter"""
    E = lambda src: expected_term(m, src, {'cands': ('role', 'cands'), 'args': ('role', 'args'), 'counter': ('role', 'counter')})
    forms = []
    for k in KEYS:
        forms += [E(f'sorted(cands, key={k})[:{CAP}]'), E(f'sorted(cands, key={k}, reverse=False)[:{CAP}]'), E(f'heapq.nsmallest({CAP}, cands, key={k})'),
                  E(f'sorted(cands, key={k})[0:{CAP}]'), E(f'list(sorted(cands, key={k}))[:{CAP}]')]
    for arr in ('numpy.asarray([counter[c] for c in cands])', 'numpy.array([counter[c] for c in cands])', 'numpy.asarray([counter.get(c) for c in cands])', 'numpy.fromiter((counter[c] for c in cands), dtype=int)'):
        for kind in ("'stable'", "'mergesort'"):
            forms += [E(f'[cands[p] for p in numpy.argsort({arr}, kind={kind})[:{CAP}]]')]
    return forms


def dsu_selection(rt, cap_t, counter_names=(('role', 'counter'),)):
    """decorate - sort - undecorate:  [<candidate of t> for t in sorted((count(c), i, ..) for i, c in enumerate(cands))][:cap]
    is the ascending order by count (the position only breaks ties).  Returns 'ok', ('bad', why) or None (not this shape)."""
    slices = (('slice', ('none',), cap_t, ('none',)), ('slice', ('num', 0), cap_t, ('none',)))
    capped = False
    t = rt
    if isinstance(t, tuple) and t and t[0] == 'sub' and t[2] in slices:
        capped, t = True, t[1]
    if isinstance(t, tuple) and len(t) == 4 and t[0] == 'call' and t[1] == ('name', 'list') and len(t[2]) == 1:
        t = t[2][0]
        if t[0] == 'sub' and t[2] in slices:
            capped, t = True, t[1]
    if not (isinstance(t, tuple) and t and t[0] in ('listcomp', 'genexp') and len(t[2]) == 1):
        return None
    elt, (it, ifs) = t[1], t[2][0][:2]
    if ifs:
        return None
    if it[0] == 'sub' and it[2] in slices:
        capped, it = True, it[1]
    if not (it[0] == 'call' and it[1] == ('name', 'sorted') and len(it[2]) == 1):
        return None
    kw = dict(it[3])
    if 'key' in kw:
        return None
    G = it[2][0]
    if not (isinstance(G, tuple) and G[0] in ('genexp', 'listcomp') and len(G[2]) == 1 and not G[2][0][1] and isinstance(G[1], tuple) and G[1][0] == 'tuple'):
        return None
    git = G[2][0][0]
    cv = ('cvar', 0, 0)
    if git == ('call', ('name', 'enumerate'), (('role', 'cands'),), ()):
        pos, cand = ('sub', cv, ('num', 0)), ('sub', cv, ('num', 1))
    elif git == ('role', 'cands'):
        pos, cand = None, cv
    else:
        return None
    comps = G[1][1:]
    counts = []
    for cn in counter_names:
        counts += [('sub', cn, cand), ('call', ('attr', cn, 'get'), (cand,), ()), ('call', ('attr', cn, 'get'), (cand, ('num', 0)), ())]
    ok = False
    for k, c in enumerate(comps):
        if c == cand and elt == ('sub', cv, ('num', k)):
            ok = True
        if pos is not None and c == pos and elt == ('sub', ('role', 'cands'), ('sub', cv, ('num', k))):
            ok = True
    if not ok:
        return None
    if comps[0] not in counts:
        if any(c in counts for c in comps[1:]):
            return ('bad', 'the evaluation count is not the first component of the sort key: the candidates are ordered by something else first, so the selection is not the least-evaluated ones')
        return None
    if kw.get('reverse') not in (None, ('bool', False)):
        return ('bad', 'descending sort selects the MOST evaluated candidates')
    if not capped:
        return ('bad', 'the ordered candidates are not cut at args.combination_number_upper_bound')
    return 'ok'


class SamplerPath:
    pass


def sampler_model(repo):
    """Paths of prior_combinations_sample (forking on `counter is None`, empty candidate list, nothing to initialise): per path the counter
    object, the returned expression and the keyed updates of the counter, all written over the parameters."""
    from ..match import run_paths
    fn = repo.func(CR, 'prior_combinations_sample')
    paths = run_paths(fn, None, None, max_forks=5)
    return fn, paths


def _counter_of(fn, expr):
    """'global' / 'param' / None for the object a keyed update writes to"""
    if isinstance(expr, ast.Name) and expr.id == 'GLOBAL_PRIOR_COMB_COUNTS':
        return 'global'
    if isinstance(expr, ast.Name) and len(fn.params) > 2 and expr.id == fn.params[2]:
        return 'param'
    return None


def sampler_selection(repo, chk, prefix):
    """Obligations 1-4 on the path model of the sampler."""
    fn, paths = sampler_model(repo)
    m = fn.module
    cands, args = fn.params[0], fn.params[1]
    cparam = fn.params[2] if len(fn.params) > 2 else None
    # the optional counter is chosen by `is None`: a truthiness test (`counter or GLOBAL`, `if not counter`) also replaces a counter that was
    # passed explicitly and is still EMPTY - the construction counters start empty, so their selections would be booked on the ranking counter
    if cparam is not None and prefix == 'C07':
        for n in own_nodes(fn.node):
            hit = None
            if isinstance(n, ast.BoolOp) and isinstance(n.op, ast.Or) and isinstance(n.values[0], ast.Name) and n.values[0].id == cparam and any('GLOBAL_PRIOR_COMB_COUNTS' in ast.unparse(v) for v in n.values[1:]):
                hit = n
            elif isinstance(n, (ast.If, ast.IfExp)):
                t = n.test
                if isinstance(t, ast.UnaryOp) and isinstance(t.op, ast.Not):
                    t = t.operand
                if isinstance(t, ast.Name) and t.id == cparam and 'GLOBAL_PRIOR_COMB_COUNTS' in ast.unparse(n):
                    hit = n.test
            if hit is not None:
                chk.bad('C07.6c', 'R5', fn.site(hit), ast.unparse(hit)[:100], f'the counter to use is chosen by the truthiness of `{cparam}`: a counter that is passed explicitly but still empty (every construction counter before its first use) is falsy '
                        'and is replaced by GLOBAL_PRIOR_COMB_COUNTS, so the selections of the feature-construction candidates are counted on the ranking pairs\' counter; the choice must be `is None`')
    if paths is None:
        chk.unsure(f'{prefix}.2', 'R15', fn.site(), 'prior_combinations_sample', 'too many undecidable tests in the sampler')
        return None
    forms = selection_forms(m)
    missing_forms_src = ['set(set(cands)).difference(counter.keys())', 'set(cands).difference(counter.keys())', 'set(cands) - set(counter.keys())', 'set(cands) - counter.keys()', 'set(cands).difference(counter)',
                         'set(cands) - set(counter)', '[c for c in cands if c not in counter]', '{c for c in cands if c not in counter}', '[c for c in set(cands) if c not in counter]', 'set(cands).difference(set(counter))',
                         '(c for c in cands if c not in counter)', '[c for c in cands if c not in counter.keys()]']
    seen = set()
    n_main = 0
    for assume, res in paths:
        desc = ', '.join(f'{ast.unparse(t)[:40]} is {v}' for t, v in assume) or 'single path'
        if res.unknown is not None or res.returned is None:
            chk.unsure(f'{prefix}.2', 'R15', fn.site(res.unknown) if res.unknown is not None else fn.site(), desc, 'a statement outside the path vocabulary decides what the sampler returns')
            continue
        # which counter does this path work on?
        objs = {_counter_of(fn, u['target']) for u in res.updates} - {None}      # updates of other (local) containers are not the counter's
        none_assumed = [v for t, v in res.assumed if cparam and term_of(fn, t, inline=False) in (expected_term(m, f'{cparam} is None'), expected_term(m, f'{cparam} == None'))]
        not_none_assumed = [v for t, v in res.assumed if cparam and term_of(fn, t, inline=False) in (expected_term(m, f'{cparam} is not None'), expected_term(m, f'{cparam} != None'))]
        truthy_assumed = [v for t, v in res.assumed if cparam and term_of(fn, t, inline=False) == ('name', cparam)] + [not v for t, v in res.assumed if cparam and term_of(fn, t, inline=False) == ('not', ('name', cparam))]
        if truthy_assumed and not none_assumed and not not_none_assumed:
            if not truthy_assumed[0] and {_counter_of(fn, u['target']) for u in res.updates} & {'global'}:
                chk.bad('C07.1c', 'R6', fn.site(), f'`{cparam} or GLOBAL_PRIOR_COMB_COUNTS`', f'the default counter is chosen by the truthiness of `{cparam}`: an explicitly passed counter that is still empty (first batch) is replaced by the ranking counter, so the construction candidates are counted in the exported ranking counter')
            none_assumed = [not truthy_assumed[0]]
        default_path = (none_assumed and none_assumed[0]) or (not_none_assumed and not not_none_assumed[0])
        explicit_path = (none_assumed and not none_assumed[0]) or (not_none_assumed and not_none_assumed[0])
        want_obj = 'global' if (default_path or cparam is None) else ('param' if explicit_path else None)
        counter_name = 'GLOBAL_PRIOR_COMB_COUNTS' if want_obj == 'global' else cparam
        bound = {cands: ('role', 'cands'), args: ('role', 'args')}
        if counter_name:
            bound[counter_name] = ('role', 'counter')
        E = lambda src: expected_term(m, src, {'cands': ('role', 'cands'), 'args': ('role', 'args'), 'counter': ('role', 'counter')})
        rt = term_of(fn, res.returned, bound, inline=False)
        empty_ret = isinstance(res.returned, (ast.List, ast.Tuple)) and not res.returned.elts
        if empty_ret or rt == ('role', 'cands') and any(term_of(fn, t, bound, inline=False) in (E('len(cands) == 0'), E('not cands')) and v for t, v in res.assumed):
            # nothing to select from: no counter may be touched - and "nothing" must be what the path established
            lc = ('call', ('name', 'len'), (('role', 'cands'),), ())
            empties_true = (('cmp', '==', lc, ('num', 0)), ('cmp', '==', ('num', 0), lc), ('not', ('role', 'cands')), ('cmp', '<', lc, ('num', 1)), ('cmp', '<=', lc, ('num', 0)))
            empties_false = (('cmp', '!=', lc, ('num', 0)), ('cmp', '!=', ('num', 0), lc), ('role', 'cands'), lc, ('cmp', '<', ('num', 0), lc), ('cmp', '<=', ('num', 1), lc))
            established = any((v and term_of(fn, t, bound, inline=False) in empties_true) or (not v and term_of(fn, t, bound, inline=False) in empties_false) for t, v in res.assumed)
            if empty_ret and not established:
                cand_tests = [(t, v) for t, v in res.assumed if any(x == ('role', 'cands') for x in walk_term(term_of(fn, t, bound, inline=False)))]
                if cand_tests:
                    chk.bad(f'{prefix}.2', 'R15', fn.site(cand_tests[0][0]), f'{desc}: return []', 'an empty selection is returned on a path that has not established that there are no candidates: a batch with candidates evaluates none of them')
                else:
                    chk.unsure(f'{prefix}.2', 'R15', fn.site(res.returned) if hasattr(res.returned, 'lineno') else fn.site(), f'{desc}: return []', 'an empty selection is returned under a condition that is not a test of the candidate list')
            for u in res.updates:
                if _counter_of(fn, u['target']):
                    chk.bad(f'{prefix}.1b', 'R2', fn.site(u['node']), ast.unparse(u['node'])[:100], 'the counter is modified on the path that returns no selection')
            continue
        if want_obj is None and cparam is not None and (objs - {None}):
            # no test of the optional parameter on this path: the counter must then be fixed
            want_obj = next(iter(objs - {None}))
            counter_name = 'GLOBAL_PRIOR_COMB_COUNTS' if want_obj == 'global' else cparam
            bound[counter_name] = ('role', 'counter')
            rt = term_of(fn, res.returned, bound, inline=False)
        n_main += 1
        key = (want_obj, rt, tuple((u['kind'], ast.unparse(u['target']), ast.unparse(u['over']) if u['over'] is not None else None, ast.unparse(u['value'])) for u in res.updates),
               tuple(type(e).__name__ for e in res.effects), tuple((ast.unparse(t)[:60], v) for t, v in res.assumed if 'None' not in ast.unparse(t)))
        if key in seen:
            continue
        seen.add(key)
        site = fn.site(res.returned) if hasattr(res.returned, 'lineno') else fn.site()
        # 2 / 4: the selection
        dsu = dsu_selection(rt, E('args.combination_number_upper_bound')) if rt not in forms else None
        if rt in forms:
            chk.ok(f'{prefix}.2', 'R15', site, f'{desc}: {ast.unparse(res.returned)[:120]}', 'selection = stable ascending sort of the candidate list by count, prefix of length cap (the cap least-evaluated candidates, ties in list order)')
        elif dsu == 'ok':
            chk.ok(f'{prefix}.2', 'R15', site, f'{desc}: {ast.unparse(res.returned)[:120]}', 'selection = candidates decorated with (count, position), sorted, cut at the cap and undecorated: the cap least-evaluated candidates')
        elif isinstance(dsu, tuple):
            chk.bad(f'{prefix}.2', 'R15', site, f'{desc}: {ast.unparse(res.returned)[:160]}', dsu[1])
        else:
            why = 'selection must be sorted(candidates, key=counter.get)[:args.combination_number_upper_bound] (stable, ascending, prefix)'
            if "('bool', True)" in repr(rt) and 'reverse' in repr(rt):
                why = 'descending sort selects the MOST evaluated candidates; ' + why
            known_shape = any(isinstance(x, tuple) and x[:2] in (('call', ('name', 'sorted')), ('call', ('lib', 'heapq.nsmallest')), ('call', ('lib', 'heapq.nlargest')), ('call', ('lib', 'numpy.argsort')), ('call', ('lib', 'random.sample'))) for x in walk_term(rt)) \
                or rt == ('role', 'cands') or (rt[0] == 'sub' and rt[1] == ('role', 'cands'))
            filtered = any(isinstance(x, tuple) and x and x[0] in ('listcomp', 'genexp', 'setcomp') and any(g[1] and any(y == ('role', 'cands') for y in walk_term(g[0])) for g in x[2]) for x in walk_term(rt))
            # the order among equally evaluated candidates is the order of what is sorted: a set of the candidates has no list order
            over_set = any(isinstance(x, tuple) and x[:2] in (('call', ('name', 'sorted')), ('call', ('lib', 'heapq.nsmallest'))) and any(isinstance(a, tuple) and (a[:2] in (('call', ('name', 'set')), ('call', ('name', 'frozenset'))) or a[0] == 'setcomp') for a in x[2])
                           for x in walk_term(rt))
            # what is ranked: the candidates - a ranking of the counter's own keys hands back combinations of earlier calls
            ranks_counter = any(isinstance(x, tuple) and x[:2] in (('call', ('name', 'sorted')), ('call', ('lib', 'heapq.nsmallest'))) and len(x) > 2 and x[2] and
                                any(y == ('role', 'counter') for a in x[2][-1:] for y in walk_term(a)) and not any(y == ('role', 'cands') for a in x[2] for y in walk_term(a))
                                for x in walk_term(rt))
            cap_t = E('args.combination_number_upper_bound')
            lc_ = ('call', ('name', 'len'), (('role', 'cands'),), ())
            fits = any((v and tt in (('cmp', '<=', lc_, cap_t), ('cmp', '>=', cap_t, lc_))) or (not v and tt in (('cmp', '>', lc_, cap_t), ('cmp', '<', cap_t, lc_)))
                       for t, v in res.assumed for tt in [term_of(fn, t, bound, inline=False)])
            if ranks_counter:
                chk.bad(f'{prefix}.2', 'R15', site, f'{desc}: {ast.unparse(res.returned)[:160]}', 'the selection ranks the keys of the counter, not the candidates of this call: the counter also holds the combinations of earlier calls '
                        '(other candidate lists), so combinations that are not candidates are returned; ' + why)
            elif fits and rt in (('role', 'cands'), ('call', ('name', 'list'), (('role', 'cands'),), ())):
                chk.ok(f'{prefix}.2', 'R15', site, f'{desc}: {ast.unparse(res.returned)[:120]}', 'the path established that the candidates do not exceed the cap: all of them are selected (the statement orders nothing within a batch)')
            elif over_set:
                chk.bad(f'{prefix}.2', 'R15', site, f'{desc}: {ast.unparse(res.returned)[:160]}', 'the selection sorts a *set* of the candidates: candidates with equal counts come out in set-iteration order (hash dependent), not in candidate-list order; ' + why)
            elif filtered and any(isinstance(x, tuple) and x and x[0] == 'sub' and isinstance(x[2], tuple) and x[2] and x[2][0] == 'slice' for x in walk_term(rt)) and \
                    all(c_[0] == 'cmp' and c_[1] in ('==', '!=') and any(isinstance(y, tuple) and y[:2] in (('call', ('name', 'min')), ('call', ('lib', 'numpy.min'))) for y in walk_term(c_))
                        for x in walk_term(rt) if isinstance(x, tuple) and x and x[0] in ('listcomp', 'genexp') for g in x[2] for c_ in g[1]):
                # the candidates are split at the MINIMUM count (== min / != min): all members of the first layer are equally evaluated, so their list order
                # is their order in the stable sort.  The layer above the minimum holds different counts: it has to be sorted by count before it is appended.
                def _unsorted_rest(t, inside_sorted=False):
                    if isinstance(t, tuple) and t[:2] in (('call', ('name', 'sorted')), ('call', ('lib', 'heapq.nsmallest'))):
                        inside_sorted = True
                    if isinstance(t, tuple) and t and t[0] in ('listcomp', 'genexp') and not inside_sorted and any(c_[0] == 'cmp' and c_[1] == '!=' for g in t[2] for c_ in g[1]):
                        return True
                    return isinstance(t, tuple) and any(_unsorted_rest(x, inside_sorted) for x in t if isinstance(x, tuple))
                flt_names = {n.targets[0].id for n in own_nodes(fn.node) if isinstance(n, ast.Assign) and len(n.targets) == 1 and isinstance(n.targets[0], ast.Name) and isinstance(n.value, ast.ListComp) and any(g.ifs for g in n.value.generators)}
                def _len_of_filter(t_ast):
                    txt = ast.unparse(t_ast)
                    if any(f'len({nm})' in txt for nm in flt_names):
                        return True
                    return any(isinstance(x, ast.Call) and isinstance(x.func, ast.Name) and x.func.id == 'len' and x.args and isinstance(x.args[0], (ast.ListComp, ast.GeneratorExp)) and any(g.ifs for g in x.args[0].generators)
                               for x in ast.walk(t_ast))
                len_tested = any(_len_of_filter(t_) for t_, _v in res.assumed)
                has_concat = any(isinstance(x, tuple) and x and x[0] == 'concat' for x in walk_term(rt))
                if not has_concat and not len_tested:
                    chk.bad(f'{prefix}.2', 'R15', site, f'{desc}: {ast.unparse(res.returned)[:160]}', 'only the least-evaluated layer of the candidates is cut at the cap, and nothing has established that the layer holds at least that many: '
                            'the batch holds fewer than min(cap, #candidates) candidates whenever fewer candidates share the minimum count; ' + why)
                elif rt[0] == 'concat':
                    chk.bad(f'{prefix}.2', 'R15', site, f'{desc}: {ast.unparse(res.returned)[:160]}', 'the cap is applied to a part of the selection only (a concatenation whose parts are cut separately): the batch can hold more than '
                            'args.combination_number_upper_bound candidates; ' + why)
                elif _unsorted_rest(rt):
                    chk.bad(f'{prefix}.2', 'R15', site, f'{desc}: {ast.unparse(res.returned)[:160]}', 'the candidates evaluated more often than the minimum are appended in candidate-list order, not in ascending order of their counts: '
                            'when counts differ by more than one (a changed cap, a changed candidate set) more-evaluated candidates are selected before less-evaluated ones; ' + why)
                else:
                    chk.unsure(f'{prefix}.2', 'R15', site, f'{desc}: {ast.unparse(res.returned)[:160]}', 'the selection combines the least-evaluated layer of the candidates with a prefix: whether it equals the prefix of the stable ascending order by count is not decided; ' + why)
            elif filtered:
                chk.bad(f'{prefix}.2', 'R15', site, f'{desc}: {ast.unparse(res.returned)[:160]}', 'the candidates are filtered by a predicate instead of being sorted by count and cut at the cap: a filter returns fewer than min(cap, #candidates) candidates or does not keep ties in list order; ' + why)
            elif known_shape and within_vocabulary(rt, forms):
                chk.bad(f'{prefix}.2', 'R15', site, f'{desc}: {ast.unparse(res.returned)[:160]}', f'{why}; found {show(rt)[:220]}')
            else:
                chk.unsure(f'{prefix}.2', 'R15', site, f'{desc}: {ast.unparse(res.returned)[:160]}', f'the returned selection is not in the vocabulary of recognised selections: {show(rt)[:200]}')
        if prefix != 'C07':
            continue
        # 1c: which counter
        if cparam is not None:
            if default_path:
                chk.expect(objs <= {'global'}, 'C07.1c', 'R6', site, f'{desc}: counter = {sorted(map(str, objs))}', 'default counter is the ranking counter', 'the optional counter parameter must default to GLOBAL_PRIOR_COMB_COUNTS')
            elif explicit_path:
                chk.expect(objs <= {'param'}, 'C07.1c', 'R6', site, f'{desc}: counter = {sorted(map(str, objs))}', 'an explicitly passed counter is the one that is used', 'when a counter is passed it must be the one that is updated and sorted by')
            else:
                chk.unsure('C07.1c', 'R6', site, desc, 'no test of the optional counter parameter on this path')
        # 1a / 1b / 3: the updates
        sel_seq = getattr(res.returned, '_seq', None)
        inc_seen = False
        for u in res.updates:
            obj = _counter_of(fn, u['target'])
            # for c, n in Counter(SEL).items(): counter[c] += n     is     for c in SEL: counter[c] += 1   (each occurrence counted once)
            if obj is not None and u['kind'] == 'foreach' and u.get('op') == 'inc' and u.get('method') == 'Add' and u.get('guard') is None and len(u.get('chain', [])) == 1:
                from .common import loop_terms
                ch_, key_, val_, _g, _a, _t = loop_terms(fn, u, bound)
                if key_ == ('lvar', 0, 0) and val_ == ('lvar', 0, 1) and ch_[0][0] == 'call' and ch_[0][1][0] == 'attr' and ch_[0][1][2] == 'items' and ch_[0][1][1][0] == 'call' \
                        and ch_[0][1][1][1] == ('lib', 'collections.Counter') and len(ch_[0][1][1][2]) == 1:
                    inner = u['chain'][0][1].func.value.args[0]
                    u = dict(u, kind='incall', op='Add', over=inner, value=ast.Constant(1))
            if obj is None:
                tt = ast.unparse(u['target'])
                if 'GLOBAL_PRIOR' in tt or (cparam and cparam in tt):
                    chk.unsure('C07.1b', 'R2', fn.site(u['node']), ast.unparse(u['node'])[:100], 'an update whose target could not be identified as the counter')
                continue
            over = term_of(fn, u['over'], bound, inline=False) if u['over'] is not None else None
            val = term_of(fn, u['value'], bound, inline=False)
            if u['kind'] == 'storeall' and val == ('num', 0):
                okf = [E(x) for x in missing_forms_src]
                before = sel_seq is None or u['seq'] < sel_seq
                chk.expect(over in okf and before, 'C07.1a', 'R2', fn.site(u['node']), ast.unparse(u['node']).replace('\n', ' ')[:140], 'only unseen candidates are initialised to 0, before the selection',
                           f'initialisation to 0 must be restricted to candidates not yet in the counter (otherwise counts are reset every batch) and precede the selection; it ranges over {show(over)[:120]}')
            elif u['kind'] == 'incall' and u.get('op') == 'Add':
                ok_over = over == rt
                ok_val = val == ('num', 1)
                after = sel_seq is None or u['seq'] >= sel_seq      # equal: one loop over the already ranked list builds the selection and counts it (split by the path evaluation)
                chk.expect(ok_over and ok_val and after, 'C07.3', 'R13', fn.site(u['node']), ast.unparse(u['node']).replace('\n', ' ')[:120], '+1 for every element of the returned list, unconditionally',
                           'the count must be raised by exactly 1 for exactly the returned candidates (after they were selected): ' + ('the loop ranges over something else than the returned list' if not ok_over else ('the increment is not 1' if not ok_val else 'the increment precedes the selection')))
                inc_seen = True
            elif u['kind'] == 'foreach' and u.get('op') == 'store' and val == ('num', 0):
                # for c in candidates: if c not in counter: counter[c] = 0   - the same initialisation, candidate by candidate
                from .common import loop_terms
                ch_, key_, val_, g_, _a, _t = loop_terms(fn, u, bound)
                guard_ok = g_ in (('cmp', 'notin', ('lvar', 0, 0), ('role', 'counter')), ('cmp', 'notin', ('lvar', 0, 0), ('call', ('attr', ('role', 'counter'), 'keys'), (), ())),
                                  ('cmp', 'is', ('call', ('attr', ('role', 'counter'), 'get'), (('lvar', 0, 0),), ()), ('none',)))
                over_ok = len(ch_) == 1 and ch_[0] in (('role', 'cands'), ('call', ('name', 'set'), (('role', 'cands'),), ()))
                before = sel_seq is None or u['seq'] < sel_seq
                if key_ == ('lvar', 0, 0) and over_ok and guard_ok and before:
                    chk.ok('C07.1a', 'R2', fn.site(u['node']), ast.unparse(u['node']).replace('\n', ' ')[:140], 'only unseen candidates are initialised to 0, before the selection')
                elif key_ == ('lvar', 0, 0) and over_ok and g_ is None:
                    chk.bad('C07.1a', 'R2', fn.site(u['node']), ast.unparse(u['node']).replace('\n', ' ')[:140], 'every candidate is reset to 0 in every batch (the initialisation is not restricted to candidates that are not in the counter yet)')
                else:
                    chk.unsure('C07.1a', 'R2', fn.site(u['node']), ast.unparse(u['node']).replace('\n', ' ')[:140], 'an initialisation of counter entries to 0 in a form this rule does not classify')
            else:
                chk.bad('C07.1b', 'R2', fn.site(u['node']), ast.unparse(u['node'])[:120], 'the counter may only be initialised to 0 for unseen candidates and incremented by 1 for the returned ones')
        # 1a (presence): when the selection ranks by counter.get(candidate) a candidate without an entry has no count (None): every path that
        # reaches the selection either initialises the unseen candidates or has established that there are none
        init_seen = any(_counter_of(fn, u['target']) and (u['kind'] == 'storeall' or (u['kind'] == 'foreach' and u.get('op') == 'store' and isinstance(u.get('value'), ast.Constant) and u['value'].value == 0)) for u in res.updates)
        ranks_by_get = any(isinstance(x, tuple) and len(x) == 3 and x[0] == 'attr' and x[1] == ('role', 'counter') and x[2] == 'get' for x in walk_term(rt))
        def _does_something(lp_):
            return any(not isinstance(x, (ast.Pass, ast.For, ast.While, ast.Name, ast.Load, ast.Store, ast.expr_context)) and isinstance(x, ast.stmt) for b_ in lp_.body for x in ast.walk(b_))
        if ranks_by_get and not init_seen and not any(e for e in res.effects if isinstance(e, (ast.For, ast.While)) and _does_something(e)):
            okf_ = [E(x) for x in missing_forms_src]
            none_missing = False
            for t, v in res.assumed:
                tt = term_of(fn, t, bound, inline=False)
                for mf in okf_:
                    ln = ('call', ('name', 'len'), (mf,), ())
                    if (not v and tt in (('cmp', '<', ('num', 0), ln), ('cmp', '!=', ln, ('num', 0)), ('cmp', '!=', ('num', 0), ln), ('cmp', '<=', ('num', 1), ln), mf, ln)) \
                            or (v and tt in (('cmp', '==', ln, ('num', 0)), ('cmp', '==', ('num', 0), ln), ('not', mf), ('cmp', '<', ln, ('num', 1)))):
                        none_missing = True
            if not none_missing:
                chk.bad('C07.1a', 'R2', site, f'{desc}: no initialisation of the unseen candidates before {ast.unparse(res.returned)[:60]}',
                        'candidates that were never counted get no entry before the selection ranks by counter.get(candidate): their key is None (TypeError when compared with a count), so a batch with a new candidate fails instead of evaluating the least-evaluated ones')
        if not inc_seen:
            # conditional / unrecognised increments show up as opaque effects
            opaque = [e for e in res.effects if any(isinstance(x, ast.Name) and x.id in ('GLOBAL_PRIOR_COMB_COUNTS', cparam) for x in ast.walk(e))]
            if opaque:
                nested = any(isinstance(x, (ast.If, ast.Continue, ast.Break)) for x in ast.walk(opaque[0]))
                if nested and any(isinstance(x, ast.AugAssign) for x in ast.walk(opaque[0])):
                    chk.bad('C07.3', 'R13', fn.site(opaque[0]), ast.unparse(opaque[0]).replace('\n', ' ')[:120], 'the +1 must be applied to every element of the returned list unconditionally')
                else:
                    chk.unsure('C07.3', 'R13', fn.site(opaque[0]), ast.unparse(opaque[0]).replace('\n', ' ')[:120], 'a statement that touches the counter is outside the path vocabulary')
            elif any(isinstance(x, tuple) and len(x) >= 3 and x[0] == 'call' and isinstance(x[1], tuple) and
                     ((x[1][0] == 'lib' and str(x[1][1]).startswith('outrank.') and not str(x[1][1]).endswith('.get')) or (x[1][0] == 'attr' and any(isinstance(y, tuple) and y[:1] == ('call',) and isinstance(y[1], tuple) and y[1][0] == 'lib' and str(y[1][1]).startswith('outrank.') for y in walk_term(x[1]))))
                     and any(y == ('role', 'counter') for y in walk_term(x)) for x in walk_term(rt)):
                # the selection is delegated to code of the package that receives the counter (a sampler object / function in another module,
                # not expanded here): the increments may happen there
                chk.unsure('C07.3', 'R13', site, f'{desc}: {ast.unparse(res.returned)[:100]}', 'the selection is computed by package code that is handed the counter and is not analysed by this rule: whether the returned candidates are counted (+1 each) there is not decided')
            else:
                chk.bad('C07.3', 'R13', site, f'{desc}: for c in <returned>: counter[c] += 1', 'no `+= 1` over exactly the returned list was found: reported counts do not equal the number of batches in which a candidate was selected')
    if n_main == 0:
        chk.unsure(f'{prefix}.2', 'R15', fn.site(), 'prior_combinations_sample', 'no path that returns a selection was evaluated')
        return None
    return fn


def run(repo, chk, tier):
    fn = sampler_selection(repo, chk, 'C07')
    if fn is None:
        fn = repo.func(CR, 'prior_combinations_sample')

    # 1: writers elsewhere in the package
    outside = [(f, node, kind) for f, node, kind in package_mutations(repo, CR, STORES) if f is not fn]
    for f, node, kind in outside:
        chk.bad('C07.1d', 'R2', f.site(node), ast.unparse(node)[:120], f'evaluation counter mutated outside prior_combinations_sample ({kind}): reported counts no longer equal the number of selections')
    if not outside:
        chk.ok('C07.1d', 'R2', fn.module.relpath, f'writers of {sorted(STORES)}: prior_combinations_sample only', f'{sum(len(mm.funcs) for mm in repo.modules.values())} functions scanned', inspected=sum(len(mm.funcs) for mm in repo.modules.values()))
    # other ways of writing the counters inside the sampler than the keyed updates of the path model (aliases, .clear(), re-binding of the store)
    cnames = {'GLOBAL_PRIOR_COMB_COUNTS'} | ({fn.params[2]} if len(fn.params) > 2 else set())
    for node, kind in mutations_of(fn, cnames):
        if kind.startswith('call:') and kind not in ('call:update',) or kind == 'del' or (kind == 'rebind' and isinstance(node, ast.Assign) and any(isinstance(t, ast.Name) and t.id == 'GLOBAL_PRIOR_COMB_COUNTS' for t in node.targets)):
            chk.bad('C07.1b', 'R2', fn.site(node), ast.unparse(node)[:120], 'the counter may only be initialised to 0 for unseen candidates and incremented by 1 for the returned ones')

    call_sites(repo, chk, fn)
    from .c06 import cap_writers
    cap_writers(repo, chk)
    export(repo, chk)
    duplicate_free(repo, chk)


def _enclosing(node, par, stop):
    out = []
    cur = par.get(node)
    while cur is not None and cur is not stop:
        out.append(cur)
        cur = par.get(cur)
    return out


# -- 6 call sites ---------------------------------------------------------------
def call_sites(repo, chk, sampler):
    sites = []
    for mod in repo.modules.values():
        for f in mod.funcs.values():
            for c in calls(f):
                if mod.dotted(c.func) == f'{CR}.prior_combinations_sample':
                    sites.append((f, c))
    chk.require_count('call sites of prior_combinations_sample', len(sites), 2)
    by_space = {}
    for f, c in sites:
        counter = arg(c, 2, sampler.params[2] if len(sampler.params) > 2 else None)
        t = term_of(f, counter, inline=True) if counter is not None else ('default',)
        space = 'ranking pairs' if f.qualname == 'mixed_rank_graph' else ('feature-construction tuples' if f.qualname == 'compute_combined_features' else f.qualname)
        by_space.setdefault(space, []).append((f, c, t, counter))
    # every batch goes through the sampler: the counter is where the evaluations are counted, so a call that is skipped "when the cap does not bind"
    # leaves the candidates of that batch evaluated but uncounted
    for f, c in sites:
        par_f = parents(f.node)
        for g in _enclosing(c, par_f, f.node):
            if isinstance(g, ast.If) and any(x is c for b in g.body for x in ast.walk(b)):
                tt = ast.unparse(g.test)
                cands_arg = ast.unparse(c.args[0]) if c.args else ''
                if ('combination_number_upper_bound' in tt or 'len(' in tt) and cands_arg and cands_arg in tt:
                    chk.bad('C07.6e', 'R5', f.site(g), tt[:100], f'the sampler is only called under `{tt[:60]}`: in a batch where the test fails every candidate is evaluated but none is counted, so the reported counts '
                            'fall short of the number of batches in which each combination was evaluated (and the next capped batch does not start from the least-evaluated ones)')
    for space, lst in by_space.items():
        for f, c, t, counter in lst:
            if space == 'ranking pairs':
                ok = t == ('default',) or t == ('name', 'GLOBAL_PRIOR_COMB_COUNTS') or t == ('lib', f'{CR}.GLOBAL_PRIOR_COMB_COUNTS')
                chk.expect(ok, 'C07.6a', 'R5', f.site(c), ast.unparse(c), 'ranking pairs are counted in the exported ranking counter',
                           f'the ranking sampler must use GLOBAL_PRIOR_COMB_COUNTS (the exported counter); found {show(t)[:100]}')
            elif space == 'feature-construction tuples':
                # must be an auto-creating subscript of the construction store keyed by something that separates ' AND ' from ' AND_REL '
                store_terms = (('name', 'GLOBAL_PRIOR_CONSTRUCTION_COUNTS'), ('lib', f'{CR}.GLOBAL_PRIOR_CONSTRUCTION_COUNTS'))
                flag = f.params[3] if len(f.params) > 3 else 'is_3mr'
                good = t[0] == 'sub' and t[1] in store_terms
                key_ok = good and any(x == ('name', flag) for x in walk_term(t[2]))
                if good and not key_ok and isinstance(counter, ast.Subscript):
                    # the key may be a local that is bound differently on the two sides of a test of the flag
                    from .common import param_deps
                    key_ok = flag in param_deps(f, counter.slice, control=True)
                setdef = t[0] == 'call' and t[1][0] == 'attr' and t[1][2] == 'setdefault' and t[1][1] in store_terms and len(t[2]) >= 1
                if setdef:
                    key_ok = any(x == ('name', flag) for x in walk_term(t[2][0]))
                    good = True
                if good and key_ok:
                    chk.ok('C07.6b', 'R5', f.site(c), ast.unparse(c), 'construction candidates have their own persistent counter per kind of constructed feature (key depends on is_3mr)')
                elif counter is None or t in (('default',), ('name', 'GLOBAL_PRIOR_COMB_COUNTS')):
                    chk.bad('C07.6b', 'R5', f.site(c), ast.unparse(c), 'the feature-construction candidates (k-tuples of column names) share the counter of the ranking pairs: for k = 2 the keys coincide, so building "a AND b" raises the count of the ranking pair (a, b)')
                elif good and not key_ok:
                    chk.bad('C07.6b', 'R5', f.site(c), ast.unparse(c), "' AND ' and ' AND_REL ' candidates (overlapping tuple spaces) must not share a counter: the key does not depend on is_3mr")
                else:
                    chk.bad('C07.6b', 'R5', f.site(c), ast.unparse(c), f'the construction counter must be the auto-creating subscript GLOBAL_PRIOR_CONSTRUCTION_COUNTS[<kind>] (a .get() yields None -> the ranking counter, or a throw-away counter); found {ast.unparse(counter)}')
            else:
                chk.bad('C07.6c', 'R5', f.site(c), ast.unparse(c), f'new call site of the sampler in {f.qualname}: its candidate space and counter are not in the frozen instance table')
    # the construction store must auto-create Counters
    m = repo.mod(CR)
    d = m.assigns.get('GLOBAL_PRIOR_CONSTRUCTION_COUNTS', [])
    ok = len(d) == 1 and expected_term(m, 'collections.defaultdict(collections.Counter)') == term_of_module(m, d[0])
    chk.expect(ok, 'C07.6d', 'R8', m.relpath, 'GLOBAL_PRIOR_CONSTRUCTION_COUNTS = defaultdict(Counter)', 'per-kind counters are created on first use and persist', 'GLOBAL_PRIOR_CONSTRUCTION_COUNTS must be a defaultdict(Counter)')


def term_of_module(m, expr):
    from ..terms import Canon, Scope
    return Canon(m, Scope(None), inline=False).t(expr)


# -- 5 export -------------------------------------------------------------------------
def export(repo, chk):
    est = repo.func(CR, 'estimate_importances_minibatches')
    rk = repo.func(TR, 'outrank_task_conduct_ranking')
    rets = returns(est)
    if len(rets) != 1 or not isinstance(rets[0].value, ast.Tuple):
        chk.unsure('C07.5', 'R6', est.site(), 'return (...)', 'unexpected return of estimate_importances_minibatches')
        return
    elts = rets[0].value.elts
    # which element carries the counts: a .copy() of GLOBAL_PRIOR_COMB_COUNTS or a name defined from it
    idx = None
    for i, e in enumerate(elts):
        src = e
        for _ in range(4):
            if isinstance(src, ast.Name):
                defs = [n for n in own_nodes(est.node) if isinstance(n, ast.Assign) and isinstance(n.targets[0], ast.Name) and n.targets[0].id == src.id]
                if len(defs) == 1:
                    if isinstance(defs[0].value, ast.Name):
                        e = defs[0].value          # the name the copy is first bound to: later stores go through it
                    src = defs[0].value
                    continue
            break
        if 'GLOBAL_PRIOR_COMB_COUNTS' in ast.unparse(src):
            idx = i
            ok = ast.unparse(src) in ('GLOBAL_PRIOR_COMB_COUNTS.copy()', 'dict(GLOBAL_PRIOR_COMB_COUNTS)', 'GLOBAL_PRIOR_COMB_COUNTS', 'Counter(GLOBAL_PRIOR_COMB_COUNTS)')
            if not ok and isinstance(src, ast.Call) and (est.module.dotted(src.func) or '').startswith('outrank.') and any(isinstance(a_, ast.Name) and a_.id == 'GLOBAL_PRIOR_COMB_COUNTS' for a_ in src.args):
                chk.unsure('C07.5a', 'R6', est.site(rets[0]), ast.unparse(src)[:120], 'the exported counts are produced from GLOBAL_PRIOR_COMB_COUNTS by package code in another module that this rule does not analyse')
            else:
                chk.expect(ok, 'C07.5a', 'R6', est.site(rets[0]), ast.unparse(src), 'the streaming function hands out the counter itself (a copy)', 'the exported object must be a plain copy of GLOBAL_PRIOR_COMB_COUNTS')
            if isinstance(e, ast.Name):
                # later stores into the copy may only add string keys (names of constructed features) with unmodified values
                for n in own_nodes(est.node):
                    tg = n.targets[0] if isinstance(n, ast.Assign) else (n.target if isinstance(n, ast.AugAssign) else None)
                    if isinstance(tg, ast.Subscript) and isinstance(tg.value, ast.Name) and tg.value.id == e.id:
                        kexp = tg.slice
                        if isinstance(kexp, ast.Name):
                            kd = [x for x in own_nodes(est.node) if isinstance(x, ast.Assign) and isinstance(x.targets[0], ast.Name) and x.targets[0].id == kexp.id]
                            if len(kd) == 1:
                                kexp = kd[0].value
                        keyt = ast.unparse(kexp)
                        okk = isinstance(n, ast.Assign) and '.join(' in keyt and isinstance(n.value, ast.Name)
                        chk.expect(okk, 'C07.5b', 'R6', est.site(n), ast.unparse(n), 'only counts of constructed features are added, under their (string) names, values unmodified',
                                   'the exported mapping is modified after the copy: ranking-pair counts could be overwritten or changed')
    if idx is None:
        chk.bad('C07.5a', 'R6', est.site(rets[0]), ast.unparse(rets[0])[:120], 'GLOBAL_PRIOR_COMB_COUNTS is no longer returned by the streaming function: the counts cannot be reported')
        return
    # unpacking position in the ranking task
    name = None
    for n in own_nodes(rk.node):
        if isinstance(n, ast.Assign) and isinstance(n.targets[0], ast.Tuple) and isinstance(n.value, ast.Call) and rk.module.dotted(n.value.func) == f'{CR}.estimate_importances_minibatches':
            tg = n.targets[0].elts
            if len(tg) == len(elts) and isinstance(tg[idx], ast.Name):
                name = tg[idx].id
    if name is None:
        chk.bad('C07.5c', 'R6', rk.site(), 'unpacking of estimate_importances_minibatches(...)', 'the ranking task does not unpack the counter from the position it is returned at')
        return
    dumps = [n for n in own_nodes(rk.node) if isinstance(n, ast.DictComp) and isinstance(n.generators[0].iter, ast.Call) and isinstance(n.generators[0].iter.func, ast.Attribute)
             and isinstance(n.generators[0].iter.func.value, ast.Name) and n.generators[0].iter.func.value.id == name]
    if not dumps:
        chk.bad('C07.5c', 'R6', rk.site(), f'{{str(k): v for k, v in {name}.items()}}', 'the counter is not exported to combination_estimation_counts.json')
        return
    dc = dumps[0]
    g = dc.generators[0]
    okd = g.iter.func.attr == 'items' and isinstance(g.target, ast.Tuple) and len(g.target.elts) == 2 and not g.ifs and isinstance(dc.value, ast.Name) and dc.value.id == g.target.elts[1].id \
        and ast.unparse(dc.key) in (f'str({g.target.elts[0].id})', f'repr({g.target.elts[0].id})')
    chk.expect(okd, 'C07.5c', 'R6', rk.site(dc), ast.unparse(dc), 'exported mapping = {str(candidate): count} for every entry, values untouched',
               'the exported mapping must be {str(k): v for k, v in counter.items()} - no filter, no arithmetic on the counts')


# -- 7 duplicate-free candidate lists ---------------------------------------------------
def duplicate_free(repo, chk):
    fn, ea = enumeration(repo)
    for s, why in ea.problems:
        chk.unsure('C07.7', 'pair-set', fn.site(s), ast.unparse(s)[:100], why)
    seen = set()
    for conds, cs, ret in ea.paths:
        key = tuple(repr(c) for c in cs)
        if key in seen:
            continue
        seen.add(key)
        site = fn.site(ret) if ret is not None else fn.site()
        desc = ' + '.join(repr(c) for c in cs) or '(nothing)'
        unknown = [c for c in cs if c.kind == 'unknown']
        if unknown:
            chk.unsure('C07.7', 'pair-set', site, desc, f'cannot classify contribution {unknown[0].text}')
            continue
        dup = None
        for i, a in enumerate(cs):
            for b in cs[i + 1:]:
                if _overlap(a, b):
                    dup = (a, b)
        if dup is not None and any(str(c.colset).startswith('?') for c in dup):
            # one of the two column sets is not known (e.g. a local that is a list on one path and empty on another): overlap is not decided
            chk.unsure('C07.7', 'pair-set', site, desc, f'whether {dup[0]!r} and {dup[1]!r} can produce the same pair depends on a column set this rule could not determine')
            continue
        chk.expect(dup is None, 'C07.7', 'pair-set', site, desc, 'candidate list is duplicate-free by construction',
                   f'contributions {dup[0]!r} and {dup[1]!r} produce the same pairs: duplicate candidates are scored twice and counted twice per batch' if dup else '')
    # interaction candidates
    cc = repo.func(CR, 'compute_combined_features')
    combs = [c for c in calls(cc) if cc.module.dotted(c.func) in ('itertools.combinations', 'itertools.combinations_with_replacement', 'itertools.product', 'itertools.permutations')]
    for c in combs:
        d = cc.module.dotted(c.func)
        chk.expect(d == 'itertools.combinations', 'C07.7b', 'pair-set', cc.site(c), ast.unparse(c), 'k-subsets of distinct column names: duplicate-free', f'{d} over the columns yields tuples that are permutations/repetitions of each other')


def _overlap(a, b):
    def sets_overlap(x, y):
        if str(x).startswith('?') or str(y).startswith('?'):
            return True
        if {x, y} == {'REL', 'NONREL'}:
            return False
        return True
    kinds = {a.kind, b.kind}
    if not sets_overlap(a.colset, b.colset):
        return False
    if kinds <= {'cwr', 'diag'}:
        return True                      # cwr contains the diagonal; two cwr/diag over overlapping sets repeat pairs
    if kinds == {'comb', 'diag'}:
        return False                     # combinations without replacement have no diagonal
    if 'with-label' in kinds or 'label-with' in kinds:
        other = a if a.kind not in ('with-label', 'label-with') else b
        if other.kind in ('cwr', 'comb', 'product', 'perm'):
            return True                  # (c, label) for c in an overlapping column set is already enumerated
        if other.kind == 'diag':
            return True                  # (label, label) at least
        return a.kind == b.kind
    return True
