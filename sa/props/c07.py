"""C07 - capped combination sampling is fair over any sequence of batches.

The invariant "counts of any two candidates of a stable duplicate-free list differ by at most one" is an
inductive consequence of structural facts, each checked here:
 1 (R2)  the counters are mutated only inside the sampler: initialise-to-0 for unseen candidates, += 1 for the selected
 2 (R15) selection = stable ascending sort of the *candidate list* by counter value, then the prefix of length cap
 3 (R13) the incrementing loop ranges over exactly the returned list, once, by exactly 1
 4 (R14) the cap is args.combination_number_upper_bound, unmodified; prefix slice
 5 (R6)  exported counts are the counter (copy -> str(k): v), no arithmetic on the values
 6 (R5)  call sites feeding different candidate spaces use different counters
 7       every candidate list handed to the sampler is duplicate-free by construction

Induction: if all counts lie in {m, m+1}, taking the cap smallest and adding 1 leaves all counts in {m, m+1} or {m+1, m+2};
"returned is a subset of the candidates" and "exactly min(cap, |cands|) distinct elements" are immediate from (2).
"""
from __future__ import annotations

import ast

from ..match import arg, calls, expected_term, mutations_of, package_mutations, returns, term_of
from ..model import own_nodes, parents
from ..terms import show, walk_term
from .common import CR, enumeration

EXPLANATION = ('Who-may-write (R2) over the whole package for the evaluation counters; canonical-term equality (R15) of the selection `sorted(candidates, key=counter.get)[:cap]` '
               '(or heapq.nsmallest); accumulator discipline (R13) of the +1 loop over exactly the returned list; comparison/constant normal form (R14) of the cap; sibling agreement (R6) '
               'of the exported mapping with the counter; key-space separation (R5) of the sampler call sites; pair-set algebra for duplicate-free candidate lists. '
               'The fairness invariant follows by the induction written in the module docstring; the tool checks its premises, not runs.')
TRUSTED_BASE = ['sorted is stable; sorted(xs, key=f)[:n] == heapq.nsmallest(n, xs, key=f)',
                'itertools.combinations_with_replacement(S, 2) yields every unordered pair of positions once, self-pairs included; combinations(S, k) without self-pairs',
                'a defaultdict(Counter) subscript creates and stores a Counter on first use; .get does not']
ASSUMPTIONS = ['column names of a frame are distinct']

TR = 'outrank.task_ranking'
STORES = {'GLOBAL_PRIOR_COMB_COUNTS', 'GLOBAL_PRIOR_CONSTRUCTION_COUNTS'}


def sampler_selection(repo, chk, prefix):
    """Obligations 2-4 (shared with C06: "reduced only by the cap")."""
    fn = repo.func(CR, 'prior_combinations_sample')
    m = fn.module
    cands, args = fn.params[0], fn.params[1]
    cparam = fn.params[2] if len(fn.params) > 2 else None
    rets = [r for r in returns(fn)]
    main = [r for r in rets if not (isinstance(r.value, (ast.List, ast.Tuple)) and not r.value.elts)]
    if len(main) != 1 or not isinstance(main[0].value, ast.Name):
        chk.unsure(f'{prefix}.2', 'R15', fn.site(), 'return <selected>', 'the sampler does not return a single named list')
        return None
    sel = main[0].value.id
    defs = [n for n in own_nodes(fn.node) if isinstance(n, ast.Assign) and any(isinstance(t, ast.Name) and t.id == sel for t in n.targets)]
    others = [n for n in own_nodes(fn.node) if (isinstance(n, ast.AugAssign) and isinstance(n.target, ast.Name) and n.target.id == sel)
              or (isinstance(n, ast.Call) and isinstance(n.func, ast.Attribute) and isinstance(n.func.value, ast.Name) and n.func.value.id == sel and n.func.attr in ('append', 'extend', 'sort', 'remove', 'pop', 'insert', 'reverse'))]
    if len(defs) != 1 or others:
        chk.bad(f'{prefix}.2', 'R15', fn.site(defs[0] if defs else None), f'{sel} = sorted(candidates, key=counter.get)[:cap]',
                'the returned list must be defined once as the sorted prefix of the candidate list and not modified afterwards')
        return None
    d = defs[0]
    counter_names = _counter_names(fn)
    bound = {cands: ('role', 'cands'), args: ('role', 'args')}
    for c in counter_names:
        bound[c] = ('role', 'counter')
    t = term_of(fn, d.value, bound, inline=False)
    E = lambda s: expected_term(m, s, {'cands': ('role', 'cands'), 'args': ('role', 'args'), 'counter': ('role', 'counter')})
    cap = 'args.combination_number_upper_bound'
    keys = ['counter.get', 'lambda c: counter[c]', 'lambda c: counter.get(c)', 'counter.__getitem__', 'lambda c: counter.get(c, 0)']
    forms = []
    for k in keys:
        forms += [E(f'sorted(cands, key={k})[:{cap}]'), E(f'sorted(cands, key={k}, reverse=False)[:{cap}]'), E(f'heapq.nsmallest({cap}, cands, key={k})'),
                  E(f'sorted(cands, key={k})[0:{cap}]'), E(f'list(sorted(cands, key={k}))[:{cap}]')]
    if t in forms:
        chk.ok(f'{prefix}.2', 'R15', fn.site(d), ast.unparse(d), 'selection = stable ascending sort of the candidate list by count, prefix of length cap (the cap least-evaluated candidates, ties in list order)')
    else:
        why = 'selection must be sorted(candidates, key=counter.get)[:args.combination_number_upper_bound] (stable, ascending, prefix)'
        txt = show(t)
        if "('bool', True)" in repr(t) and 'reverse' in repr(t):
            why = 'descending sort selects the MOST evaluated candidates; ' + why
        chk.bad(f'{prefix}.2', 'R15', fn.site(d), ast.unparse(d)[:200], f'{why}; found {txt[:220]}')
    return fn, sel, counter_names, cands


def _counter_names(fn):
    """local names denoting the evaluation counter inside the sampler: the module store, the optional parameter"""
    names = {'GLOBAL_PRIOR_COMB_COUNTS'}
    if len(fn.params) > 2:
        names.add(fn.params[2])
    return names


def run(repo, chk, tier):
    r = sampler_selection(repo, chk, 'C07')
    if r is None:
        return
    fn, sel, cnames, cands = r
    m = fn.module
    par = parents(fn.node)

    # 1 + 3: mutations inside the sampler
    muts = mutations_of(fn, cnames)
    inc_seen = init_seen = False
    for node, kind in muts:
        loop = par.get(node)
        while loop is not None and not isinstance(loop, (ast.For, ast.While)):
            loop = par.get(loop)
        if kind == 'augstore' and isinstance(node.op, ast.Add) and isinstance(node.value, ast.Constant) and node.value.value == 1 and isinstance(loop, ast.For) \
                and isinstance(loop.iter, ast.Name) and loop.iter.id == sel and isinstance(loop.target, ast.Name) and isinstance(node.target.slice, ast.Name) and node.target.slice.id == loop.target.id:
            nested = [x for x in ast.walk(loop) if isinstance(x, (ast.If, ast.For, ast.While, ast.Try)) and x is not loop]
            chk.expect(not nested, 'C07.3', 'R13', fn.site(node), ast.unparse(loop).replace('\n', ' ')[:120], '+1 for every element of the returned list, unconditionally',
                       'the +1 must be applied to every element of the returned list unconditionally')
            inc_seen = True
        elif kind == 'store' and isinstance(node.value, ast.Constant) and node.value.value == 0 and isinstance(loop, ast.For):
            # initialise unseen candidates: loop over (set(cands) - counter.keys())
            it = term_of(fn, loop.iter, {cands: ('role', 'cands'), **{c: ('role', 'counter') for c in cnames}})
            E = lambda s: expected_term(m, s, {'cands': ('role', 'cands'), 'counter': ('role', 'counter')})
            okf = [E('set(set(cands)).difference(counter.keys())'), E('set(cands).difference(counter.keys())'), E('set(cands) - set(counter.keys())'), E('set(cands) - counter.keys()'),
                   E('set(cands).difference(counter)'), E('set(cands) - set(counter)')]
            guarded = any(isinstance(g, ast.If) and 'not in' in ast.unparse(g.test) for g in _enclosing(node, par, loop))
            chk.expect(it in okf or guarded, 'C07.1a', 'R2', fn.site(node), ast.unparse(loop).replace('\n', ' ')[:140], 'only unseen candidates are initialised to 0',
                       f'initialisation to 0 must be restricted to candidates not yet in the counter (otherwise counts are reset every batch); loop ranges over {show(it)[:120]}')
            init_seen = True
        elif kind == 'rebind':
            continue
        else:
            chk.bad('C07.1b', 'R2', fn.site(node), ast.unparse(node)[:120], 'the counter may only be initialised to 0 for unseen candidates and incremented by 1 for the returned ones')
    chk.expect(inc_seen, 'C07.3', 'R13', fn.site(), f'for c in {sel}: counter[c] += 1', 'selected candidates are counted', 'no `+= 1` over exactly the returned list was found: reported counts do not equal the number of batches in which a candidate was selected')
    chk.expect(init_seen or True, 'C07.1a', 'R2', fn.site(), 'counter[c] = 0 for unseen', 'unseen candidates start at 0')

    # the counter the sampler works on: optional parameter defaulting to the ranking counter
    if len(fn.params) > 2:
        p = fn.params[2]
        ok = False
        for n in own_nodes(fn.node):
            if isinstance(n, ast.If) and term_of(fn, n.test, inline=False) == expected_term(m, f'{p} is None') and len(n.body) == 1 and isinstance(n.body[0], ast.Assign) \
                    and isinstance(n.body[0].value, ast.Name) and n.body[0].value.id == 'GLOBAL_PRIOR_COMB_COUNTS':
                ok = True
        chk.expect(ok, 'C07.1c', 'R6', fn.site(), f'{p} defaults to GLOBAL_PRIOR_COMB_COUNTS', 'default counter is the ranking counter', 'the optional counter parameter must default to GLOBAL_PRIOR_COMB_COUNTS')

    # 1: writers elsewhere in the package
    outside = [(f, node, kind) for f, node, kind in package_mutations(repo, CR, STORES) if f is not fn]
    for f, node, kind in outside:
        chk.bad('C07.1d', 'R2', f.site(node), ast.unparse(node)[:120], f'evaluation counter mutated outside prior_combinations_sample ({kind}): reported counts no longer equal the number of selections')
    if not outside:
        chk.ok('C07.1d', 'R2', fn.module.relpath, f'writers of {sorted(STORES)}: prior_combinations_sample only', f'{sum(len(mm.funcs) for mm in repo.modules.values())} functions scanned', inspected=sum(len(mm.funcs) for mm in repo.modules.values()))

    call_sites(repo, chk, fn)
    from .c06 import cap_writers
    cap_writers(repo, chk)
    export(repo, chk)
    duplicate_free(repo, chk)


def _enclosing(node, par, stop):
    out = []
    cur = par.get(node)
    while cur is not None and cur is not stop:
        out.append(cur)
        cur = par.get(cur)
    return out


# -- 6 call sites ---------------------------------------------------------------
def call_sites(repo, chk, sampler):
    sites = []
    for mod in repo.modules.values():
        for f in mod.funcs.values():
            for c in calls(f):
                if mod.dotted(c.func) == f'{CR}.prior_combinations_sample':
                    sites.append((f, c))
    chk.require_count('call sites of prior_combinations_sample', len(sites), 2)
    by_space = {}
    for f, c in sites:
        counter = arg(c, 2, sampler.params[2] if len(sampler.params) > 2 else None)
        t = term_of(f, counter, inline=True) if counter is not None else ('default',)
        space = 'ranking pairs' if f.qualname == 'mixed_rank_graph' else ('feature-construction tuples' if f.qualname == 'compute_combined_features' else f.qualname)
        by_space.setdefault(space, []).append((f, c, t, counter))
    for space, lst in by_space.items():
        for f, c, t, counter in lst:
            if space == 'ranking pairs':
                ok = t == ('default',) or t == ('name', 'GLOBAL_PRIOR_COMB_COUNTS') or t == ('lib', f'{CR}.GLOBAL_PRIOR_COMB_COUNTS')
                chk.expect(ok, 'C07.6a', 'R5', f.site(c), ast.unparse(c), 'ranking pairs are counted in the exported ranking counter',
                           f'the ranking sampler must use GLOBAL_PRIOR_COMB_COUNTS (the exported counter); found {show(t)[:100]}')
            elif space == 'feature-construction tuples':
                # must be an auto-creating subscript of the construction store keyed by something that separates ' AND ' from ' AND_REL '
                good = isinstance(counter, ast.Subscript) and isinstance(counter.value, ast.Name) and counter.value.id == 'GLOBAL_PRIOR_CONSTRUCTION_COUNTS'
                key_ok = False
                if good:
                    kt = term_of(f, counter.slice, inline=True)
                    flag = f.params[3] if len(f.params) > 3 else 'is_3mr'
                    key_ok = any(x == ('name', flag) for x in walk_term(kt))
                setdef = isinstance(counter, ast.Call) and isinstance(counter.func, ast.Attribute) and counter.func.attr == 'setdefault' and isinstance(counter.func.value, ast.Name) and counter.func.value.id == 'GLOBAL_PRIOR_CONSTRUCTION_COUNTS'
                if setdef:
                    kt = term_of(f, counter.args[0], inline=True)
                    flag = f.params[3] if len(f.params) > 3 else 'is_3mr'
                    key_ok = any(x == ('name', flag) for x in walk_term(kt))
                    good = True
                if good and key_ok:
                    chk.ok('C07.6b', 'R5', f.site(c), ast.unparse(c), 'construction candidates have their own persistent counter per kind of constructed feature (key depends on is_3mr)')
                elif counter is None or t in (('default',), ('name', 'GLOBAL_PRIOR_COMB_COUNTS')):
                    chk.bad('C07.6b', 'R5', f.site(c), ast.unparse(c), 'the feature-construction candidates (k-tuples of column names) share the counter of the ranking pairs: for k = 2 the keys coincide, so building "a AND b" raises the count of the ranking pair (a, b)')
                elif good and not key_ok:
                    chk.bad('C07.6b', 'R5', f.site(c), ast.unparse(c), "' AND ' and ' AND_REL ' candidates (overlapping tuple spaces) must not share a counter: the key does not depend on is_3mr")
                else:
                    chk.bad('C07.6b', 'R5', f.site(c), ast.unparse(c), f'the construction counter must be the auto-creating subscript GLOBAL_PRIOR_CONSTRUCTION_COUNTS[<kind>] (a .get() yields None -> the ranking counter, or a throw-away counter); found {ast.unparse(counter)}')
            else:
                chk.bad('C07.6c', 'R5', f.site(c), ast.unparse(c), f'new call site of the sampler in {f.qualname}: its candidate space and counter are not in the frozen instance table')
    # the construction store must auto-create Counters
    m = repo.mod(CR)
    d = m.assigns.get('GLOBAL_PRIOR_CONSTRUCTION_COUNTS', [])
    ok = len(d) == 1 and expected_term(m, 'collections.defaultdict(collections.Counter)') == term_of_module(m, d[0])
    chk.expect(ok, 'C07.6d', 'R8', m.relpath, 'GLOBAL_PRIOR_CONSTRUCTION_COUNTS = defaultdict(Counter)', 'per-kind counters are created on first use and persist', 'GLOBAL_PRIOR_CONSTRUCTION_COUNTS must be a defaultdict(Counter)')


def term_of_module(m, expr):
    from ..terms import Canon, Scope
    return Canon(m, Scope(None), inline=False).t(expr)


# -- 5 export -------------------------------------------------------------------------
def export(repo, chk):
    est = repo.func(CR, 'estimate_importances_minibatches')
    rk = repo.func(TR, 'outrank_task_conduct_ranking')
    rets = returns(est)
    if len(rets) != 1 or not isinstance(rets[0].value, ast.Tuple):
        chk.unsure('C07.5', 'R6', est.site(), 'return (...)', 'unexpected return of estimate_importances_minibatches')
        return
    elts = rets[0].value.elts
    # which element carries the counts: a .copy() of GLOBAL_PRIOR_COMB_COUNTS or a name defined from it
    idx = None
    for i, e in enumerate(elts):
        src = e
        if isinstance(e, ast.Name):
            defs = [n for n in own_nodes(est.node) if isinstance(n, ast.Assign) and isinstance(n.targets[0], ast.Name) and n.targets[0].id == e.id]
            if len(defs) == 1:
                src = defs[0].value
        if 'GLOBAL_PRIOR_COMB_COUNTS' in ast.unparse(src):
            idx = i
            ok = ast.unparse(src) in ('GLOBAL_PRIOR_COMB_COUNTS.copy()', 'dict(GLOBAL_PRIOR_COMB_COUNTS)', 'GLOBAL_PRIOR_COMB_COUNTS', 'Counter(GLOBAL_PRIOR_COMB_COUNTS)')
            chk.expect(ok, 'C07.5a', 'R6', est.site(rets[0]), ast.unparse(src), 'the streaming function hands out the counter itself (a copy)', 'the exported object must be a plain copy of GLOBAL_PRIOR_COMB_COUNTS')
            if isinstance(e, ast.Name):
                # later stores into the copy may only add string keys (names of constructed features) with unmodified values
                for n in own_nodes(est.node):
                    tg = n.targets[0] if isinstance(n, ast.Assign) else (n.target if isinstance(n, ast.AugAssign) else None)
                    if isinstance(tg, ast.Subscript) and isinstance(tg.value, ast.Name) and tg.value.id == e.id:
                        keyt = ast.unparse(tg.slice)
                        okk = isinstance(n, ast.Assign) and '.join(' in keyt and isinstance(n.value, ast.Name)
                        chk.expect(okk, 'C07.5b', 'R6', est.site(n), ast.unparse(n), 'only counts of constructed features are added, under their (string) names, values unmodified',
                                   'the exported mapping is modified after the copy: ranking-pair counts could be overwritten or changed')
    if idx is None:
        chk.bad('C07.5a', 'R6', est.site(rets[0]), ast.unparse(rets[0])[:120], 'GLOBAL_PRIOR_COMB_COUNTS is no longer returned by the streaming function: the counts cannot be reported')
        return
    # unpacking position in the ranking task
    name = None
    for n in own_nodes(rk.node):
        if isinstance(n, ast.Assign) and isinstance(n.targets[0], ast.Tuple) and isinstance(n.value, ast.Call) and rk.module.dotted(n.value.func) == f'{CR}.estimate_importances_minibatches':
            tg = n.targets[0].elts
            if len(tg) == len(elts) and isinstance(tg[idx], ast.Name):
                name = tg[idx].id
    if name is None:
        chk.bad('C07.5c', 'R6', rk.site(), 'unpacking of estimate_importances_minibatches(...)', 'the ranking task does not unpack the counter from the position it is returned at')
        return
    dumps = [n for n in own_nodes(rk.node) if isinstance(n, ast.DictComp) and isinstance(n.generators[0].iter, ast.Call) and isinstance(n.generators[0].iter.func, ast.Attribute)
             and isinstance(n.generators[0].iter.func.value, ast.Name) and n.generators[0].iter.func.value.id == name]
    if not dumps:
        chk.bad('C07.5c', 'R6', rk.site(), f'{{str(k): v for k, v in {name}.items()}}', 'the counter is not exported to combination_estimation_counts.json')
        return
    dc = dumps[0]
    g = dc.generators[0]
    okd = g.iter.func.attr == 'items' and isinstance(g.target, ast.Tuple) and len(g.target.elts) == 2 and not g.ifs and isinstance(dc.value, ast.Name) and dc.value.id == g.target.elts[1].id \
        and ast.unparse(dc.key) in (f'str({g.target.elts[0].id})', f'repr({g.target.elts[0].id})')
    chk.expect(okd, 'C07.5c', 'R6', rk.site(dc), ast.unparse(dc), 'exported mapping = {str(candidate): count} for every entry, values untouched',
               'the exported mapping must be {str(k): v for k, v in counter.items()} - no filter, no arithmetic on the counts')


# -- 7 duplicate-free candidate lists ---------------------------------------------------
def duplicate_free(repo, chk):
    fn, ea = enumeration(repo)
    for s, why in ea.problems:
        chk.unsure('C07.7', 'pair-set', fn.site(s), ast.unparse(s)[:100], why)
    seen = set()
    for conds, cs, ret in ea.paths:
        key = tuple(repr(c) for c in cs)
        if key in seen:
            continue
        seen.add(key)
        site = fn.site(ret) if ret is not None else fn.site()
        desc = ' + '.join(repr(c) for c in cs) or '(nothing)'
        unknown = [c for c in cs if c.kind == 'unknown']
        if unknown:
            chk.unsure('C07.7', 'pair-set', site, desc, f'cannot classify contribution {unknown[0].text}')
            continue
        dup = None
        for i, a in enumerate(cs):
            for b in cs[i + 1:]:
                if _overlap(a, b):
                    dup = (a, b)
        chk.expect(dup is None, 'C07.7', 'pair-set', site, desc, 'candidate list is duplicate-free by construction',
                   f'contributions {dup[0]!r} and {dup[1]!r} produce the same pairs: duplicate candidates are scored twice and counted twice per batch' if dup else '')
    # interaction candidates
    cc = repo.func(CR, 'compute_combined_features')
    combs = [c for c in calls(cc) if cc.module.dotted(c.func) in ('itertools.combinations', 'itertools.combinations_with_replacement', 'itertools.product', 'itertools.permutations')]
    for c in combs:
        d = cc.module.dotted(c.func)
        chk.expect(d == 'itertools.combinations', 'C07.7b', 'pair-set', cc.site(c), ast.unparse(c), 'k-subsets of distinct column names: duplicate-free', f'{d} over the columns yields tuples that are permutations/repetitions of each other')


def _overlap(a, b):
    def sets_overlap(x, y):
        if str(x).startswith('?') or str(y).startswith('?'):
            return True
        if {x, y} == {'REL', 'NONREL'}:
            return False
        return True
    kinds = {a.kind, b.kind}
    if not sets_overlap(a.colset, b.colset):
        return False
    if kinds <= {'cwr', 'diag'}:
        return True                      # cwr contains the diagonal; two cwr/diag over overlapping sets repeat pairs
    if kinds == {'comb', 'diag'}:
        return False                     # combinations without replacement have no diagonal
    if 'with-label' in kinds or 'label-with' in kinds:
        other = a if a.kind not in ('with-label', 'label-with') else b
        if other.kind in ('cwr', 'comb', 'product', 'perm'):
            return True                  # (c, label) for c in an overlapping column set is already enumerated
        if other.kind == 'diag':
            return True                  # (label, label) at least
        return a.kind == b.kind
    return True
