"""E2 - statement-level control-flow graph, dominators, path queries.

Nodes are simple statements, the tests of `if`/`while`, the headers of `for`,
and explicit branch markers (`then` / `else` of a test) so that "dominated by
the true branch of guard G" is an ordinary dominance query.
"""
from __future__ import annotations

import ast
from typing import Callable, Iterable


class Node:
    __slots__ = ('id', 'kind', 'ast', 'test', 'polarity')

    def __init__(self, id, kind, node=None, test=None, polarity=None):
        self.id, self.kind, self.ast, self.test, self.polarity = id, kind, node, test, polarity

    def __repr__(self):
        txt = ''
        if self.ast is not None:
            try:
                txt = ast.unparse(self.ast).split('\n')[0][:60]
            except Exception:
                txt = type(self.ast).__name__
        return f'<{self.id}:{self.kind}{"+" if self.polarity else ("-" if self.polarity is False else "")} {txt}>'


class CFG:
    def __init__(self, fn: ast.AST):
        self.fn = fn
        self.nodes: list[Node] = []
        self.succ: dict[int, set[int]] = {}
        self.pred: dict[int, set[int]] = {}
        self.entry = self._new('entry')
        self.exit = self._new('exit')          # normal return / fall off
        self.raise_exit = self._new('raise')   # uncaught raise
        self._loops: list[tuple[int, list[int]]] = []   # (continue target, break sources)
        self._handlers: list[list[int]] = []
        out = self._seq(fn.body, [self.entry.id])
        for p in out:
            self._edge(p, self.exit.id)
        self._dom = None
        self._pdom = None

    # -- construction -------------------------------------------------------
    def _new(self, kind, node=None, test=None, polarity=None) -> Node:
        n = Node(len(self.nodes), kind, node, test, polarity)
        self.nodes.append(n)
        self.succ[n.id] = set()
        self.pred[n.id] = set()
        return n

    def _edge(self, a: int, b: int):
        self.succ[a].add(b)
        self.pred[b].add(a)

    def _link(self, preds: Iterable[int], n: Node):
        for p in preds:
            self._edge(p, n.id)
        # any statement inside a try body may transfer to the handlers
        for hs in self._handlers:
            for h in hs:
                self._edge(n.id, h)

    def _seq(self, stmts, preds: list[int]) -> list[int]:
        for s in stmts:
            preds = self._stmt(s, preds)
        return preds

    def _stmt(self, s, preds: list[int]) -> list[int]:
        if isinstance(s, ast.If):
            t = self._new('test', s, s.test)
            self._link(preds, t)
            th = self._new('branch', s, s.test, True)
            el = self._new('branch', s, s.test, False)
            self._edge(t.id, th.id)
            self._edge(t.id, el.id)
            out = self._seq(s.body, [th.id]) + self._seq(s.orelse, [el.id])
            return out
        if isinstance(s, (ast.For, ast.AsyncFor)):
            h = self._new('for', s)
            self._link(preds, h)
            body = self._new('branch', s, None, True)
            done = self._new('branch', s, None, False)
            self._edge(h.id, body.id)
            self._edge(h.id, done.id)
            self._loops.append((h.id, []))
            out = self._seq(s.body, [body.id])
            _, breaks = self._loops.pop()
            for p in out:
                self._edge(p, h.id)
            after = self._seq(s.orelse, [done.id])
            return after + breaks
        if isinstance(s, ast.While):
            t = self._new('test', s, s.test)
            self._link(preds, t)
            body = self._new('branch', s, s.test, True)
            done = self._new('branch', s, s.test, False)
            self._edge(t.id, body.id)
            self._edge(t.id, done.id)
            self._loops.append((t.id, []))
            out = self._seq(s.body, [body.id])
            _, breaks = self._loops.pop()
            for p in out:
                self._edge(p, t.id)
            after = self._seq(s.orelse, [done.id])
            return after + breaks
        if isinstance(s, ast.Try) or (hasattr(ast, 'TryStar') and isinstance(s, getattr(ast, 'TryStar'))):
            hentries = []
            hnodes = []
            for h in s.handlers:
                hn = self._new('except', h)
                hentries.append(hn.id)
                hnodes.append((hn, h))
            # the transfer may also happen before the first statement completes
            for p in preds:
                for he in hentries:
                    self._edge(p, he)
            self._handlers.append(hentries)
            out = self._seq(s.body, preds)
            self._handlers.pop()
            out = self._seq(s.orelse, out)
            for hn, h in hnodes:
                out = out + self._seq(h.body, [hn.id])
            if s.finalbody:
                out = self._seq(s.finalbody, out)
            return out
        if isinstance(s, (ast.With, ast.AsyncWith)):
            w = self._new('with', s)
            self._link(preds, w)
            return self._seq(s.body, [w.id])
        if isinstance(s, ast.Return):
            n = self._new('return', s)
            self._link(preds, n)
            self._edge(n.id, self.exit.id)
            return []
        if isinstance(s, ast.Raise):
            n = self._new('raise-stmt', s)
            self._link(preds, n)
            if not self._handlers:
                self._edge(n.id, self.raise_exit.id)
            return []
        if isinstance(s, ast.Break):
            n = self._new('break', s)
            self._link(preds, n)
            if self._loops:
                self._loops[-1][1].append(n.id)
            return []
        if isinstance(s, ast.Continue):
            n = self._new('continue', s)
            self._link(preds, n)
            if self._loops:
                self._edge(n.id, self._loops[-1][0])
            return []
        if isinstance(s, (ast.FunctionDef, ast.AsyncFunctionDef, ast.ClassDef)):
            n = self._new('def', s)
            self._link(preds, n)
            return [n.id]
        if hasattr(ast, 'Match') and isinstance(s, ast.Match):
            m = self._new('test', s, s.subject)
            self._link(preds, m)
            out = [m.id]
            for case in s.cases:
                c = self._new('branch', case, None, True)
                self._edge(m.id, c.id)
                out += self._seq(case.body, [c.id])
            return out
        n = self._new('stmt', s)
        self._link(preds, n)
        if isinstance(s, ast.Expr) and isinstance(s.value, ast.Call) and isinstance(s.value.func, ast.Name) and s.value.func.id in ('exit', 'quit'):
            self._edge(n.id, self.raise_exit.id)
            return []
        return [n.id]

    # -- queries ------------------------------------------------------------
    def node_of(self, stmt: ast.AST) -> Node | None:
        for n in self.nodes:
            if n.ast is stmt and n.kind not in ('branch',):
                return n
        return None

    def nodes_where(self, pred: Callable[[Node], bool]) -> list[Node]:
        return [n for n in self.nodes if pred(n)]

    def containing(self, sub: ast.AST) -> Node | None:
        """The CFG node whose own expression(s) contain the AST node `sub`."""
        best = None
        for n in self.nodes:
            if n.ast is None or n.kind == 'branch':
                continue
            roots = _own_exprs(n)
            for r in roots:
                for x in ast.walk(r):
                    if x is sub:
                        best = n
        return best

    def reachable(self, start: int, blocked: set[int] = frozenset(), forward=True) -> set[int]:
        seen = set()
        stack = [start]
        g = self.succ if forward else self.pred
        while stack:
            x = stack.pop()
            if x in seen or x in blocked:
                continue
            seen.add(x)
            stack.extend(g[x])
        return seen

    def dominators(self) -> dict[int, set[int]]:
        if self._dom is None:
            self._dom = self._dominators(self.entry.id, self.pred)
        return self._dom

    def postdominators(self) -> dict[int, set[int]]:
        if self._pdom is None:
            # virtual sink joining both exits
            pred_rev = {k: set(v) for k, v in self.succ.items()}
            sink = -1
            pred_rev[sink] = set()
            for e in (self.exit.id, self.raise_exit.id):
                pred_rev[e] = set(pred_rev[e]) | {sink}
            self._pdom = self._dominators(sink, pred_rev, extra=[sink])
        return self._pdom

    def _dominators(self, root, pred, extra=()):
        ids = [n.id for n in self.nodes] + list(extra)
        # only nodes reachable from root (in the direction considered)
        succ = {i: set() for i in ids}
        for b, ps in pred.items():
            for a in ps:
                succ[a].add(b)
        reach = set()
        st = [root]
        while st:
            x = st.pop()
            if x in reach:
                continue
            reach.add(x)
            st.extend(succ[x])
        dom = {i: set(reach) for i in reach}
        dom[root] = {root}
        changed = True
        while changed:
            changed = False
            for i in reach:
                if i == root:
                    continue
                ps = [p for p in pred[i] if p in reach]
                new = set.intersection(*(dom[p] for p in ps)) if ps else set()
                new = new | {i}
                if new != dom[i]:
                    dom[i] = new
                    changed = True
        return dom

    def dominates(self, a: int, b: int) -> bool:
        return a in self.dominators().get(b, set())

    def must_pass(self, start: int, targets: Iterable[int], through: Callable[[Node], bool]) -> bool:
        """Every path from `start` (exclusive) to any node of `targets` contains a node satisfying `through`."""
        blocked = {n.id for n in self.nodes if through(n) and n.id != start}
        seen = set()
        stack = list(self.succ[start])
        targets = set(targets)
        while stack:
            x = stack.pop()
            if x in seen or x in blocked:
                continue
            if x in targets:
                return False
            seen.add(x)
            stack.extend(self.succ[x])
        return True

    def must_pass_ordered(self, start: int, targets: Iterable[int], stages: list[Callable[[Node], bool]]) -> tuple[bool, int]:
        """Every path from start to a target passes nodes matching stages[0], then stages[1], ... in that order.
        Returns (ok, furthest stage index missing)."""
        targets = set(targets)
        seen = set()
        stack = [(s, 0) for s in self.succ[start]]
        worst = None
        k = len(stages)
        while stack:
            x, st = stack.pop()
            if st < k and stages[st](self.nodes[x]):
                st += 1
            if (x, st) in seen:
                continue
            seen.add((x, st))
            if x in targets:
                if st < k:
                    worst = st if worst is None else min(worst, st)
                continue
            for y in self.succ[x]:
                stack.append((y, st))
        return (worst is None, -1 if worst is None else worst)

    def paths(self, start: int, end: int, limit: int = 20000) -> list[list[int]]:
        """All acyclic paths start -> end."""
        out = []
        path = [start]
        onpath = {start}

        def rec(x):
            if len(out) >= limit:
                return
            if x == end:
                out.append(list(path))
                return
            for y in sorted(self.succ[x]):
                if y in onpath:
                    continue
                path.append(y)
                onpath.add(y)
                rec(y)
                onpath.discard(y)
                path.pop()
        rec(start)
        return out


def _own_exprs(n: Node) -> list[ast.AST]:
    s = n.ast
    if n.kind == 'test':
        return [n.test]
    if n.kind == 'for':
        return [s.target, s.iter]
    if n.kind == 'with':
        return [i.context_expr for i in s.items] + [i.optional_vars for i in s.items if i.optional_vars is not None]
    if n.kind == 'except':
        return [s.type] if s.type is not None else []
    if n.kind == 'def':
        return []
    if n.kind in ('entry', 'exit', 'raise'):
        return []
    return [s]
