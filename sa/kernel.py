"""R9 - probability-kind inference over the numba MI kernel.

An abstract interpreter over a small vocabulary of "kinds" (what a value *is* in terms of the two code vectors
A = Y (feature) and B = X (target)): the vectors, N, value/count arrays of a histogram, index variables ranging over
complete domains, strata (row sets), sub-vectors, joint counts, probabilities, logs, products and signed reductions.
The result of interpreting the entry point on the path r = 1 is a signed sum of contributions, each with its factors,
the index domains it is summed over and the guards in force.  Obligations compare that summary with the one the
property states.  An operation outside the vocabulary yields Unknown (-> inconclusive), a kinded but wrong value
(wrong normaliser, log base, displaced index, ...) is recorded as a defect (-> violation)."""
from __future__ import annotations

import ast


class Unknown(Exception):
    def __init__(self, msg, node=None):
        super().__init__(msg)
        self.node = node


def K(*a):
    return tuple(a)


ZERO = (K('const', 0), K('const', 0.0))


_NEG = {'==': '!=', '!=': '==', '<': '>=', '>=': '<', '>': '<=', '<=': '>'}


_FLIP = {'==': '==', '!=': '!=', '<': '>', '>': '<', '<=': '>=', '>=': '<='}


def _count_cmp(g):
    """a count of a value that occurs is an integer >= 1: `cnt > 1`, `cnt >= 2`, `1 < cnt` are `cnt != 1`; `cnt < 2`, `cnt <= 1` are `cnt == 1`"""
    if g[0] != 'cmp':
        return g
    op, l, r = g[1], g[2], g[3]
    if l[0] == 'const' and r[0] in ('cnt', 'jcnt'):
        op, l, r = _FLIP[op], r, l
    if l[0] == 'jcnt' and r[0] == 'const' and isinstance(r[1], int) and not isinstance(r[1], bool):
        # a joint count inside a non-empty stratum is zero exactly when the conditional probability count / size of the stratum is zero
        p = K('prob', frozenset([(l[1], l[2]), (l[3], l[4])]), frozenset([(l[3], l[4])]), l[5])
        if (op, r[1]) in (('!=', 0), ('>', 0), ('>=', 1)):
            return K('cmp', '!=', p, K('const', 0))
        if (op, r[1]) in (('==', 0), ('<', 1), ('<=', 0)):
            return K('cmp', '==', p, K('const', 0))
        return K('cmp', op, l, r)
    if l[0] == 'cnt' and r[0] == 'const' and isinstance(r[1], int) and not isinstance(r[1], bool):
        if (op, r[1]) in (('>', 1), ('>=', 2)):
            return K('cmp', '!=', l, K('const', 1))
        if (op, r[1]) in (('<', 2), ('<=', 1)):
            return K('cmp', '==', l, K('const', 1))
        return K('cmp', op, l, r)
    return g


def canon_guard(g):
    """`if c: continue` (skip-if c) and an else branch (not c) are the positive guard with the comparison negated"""
    if g[0] == 'cmp':
        return _count_cmp(g)
    if g[0] in ('skip', 'not') and g[1][0] == 'cmp' and g[1][1] in _NEG:
        return _count_cmp(K('cmp', _NEG[g[1][1]], *g[1][2:]))
    if g[0] in ('skip', 'not') and g[1][0] in ('skip', 'not'):
        return canon_guard(g[1][1]) if g[1][1][0] in ('skip', 'not', 'cmp') else g
    return g


class Contrib:
    """coef * PRODUCT(factors), summed over `domains`, under `guards`"""

    def __init__(self, coef, factors, domains, guards):
        self.coef = coef
        self.factors = tuple(sorted(factors, key=repr))
        self.domains = tuple(sorted(set(domains), key=repr))
        gs = {canon_guard(g) for g in guards}
        # skip-if (a and b) never fires where another guard in force says `not a` (or `not b`)
        gs = {g for g in gs if not (g[0] == 'skip' and g[1][0] == 'and' and any(canon_guard(K('skip', x)) in gs for x in g[1][1:]))}
        self.guards = tuple(sorted(gs, key=repr))

    def key(self):
        return (self.coef, self.factors, self.domains, self.guards)

    def render(self):
        sign = '+' if self.coef > 0 else '-'
        mag = '' if abs(self.coef) == 1 else f'{abs(self.coef)}*'
        return f"{sign} {mag}SUM{[render(d) for d in self.domains]} {' * '.join(render(f) for f in self.factors)} | guards {[render(g) for g in self.guards]}"


def render(k):
    if not isinstance(k, tuple) or not k:
        return repr(k)
    t = k[0]
    if t == 'idx':
        return f'i:{render(k[1])}'
    if t == 'vals':
        return f'Vals({k[1]})'
    if t == 'cnts':
        return f'Cnts({k[1]})'
    if t == 'rowpos':
        return f'Rows({k[1]}={render(k[2])})'
    if t == 'prob':
        ev = ' & '.join(f'{v}={render(i)}' for v, i in sorted(k[1], key=repr))
        cond = ' & '.join(f'{v}={render(i)}' for v, i in sorted(k[2], key=repr))
        star = '*' if len(k) > 3 and k[3] else ''
        return f'P{star}({ev}{" | " + cond if cond else ""})'
    if t == 'log':
        return f'log {render(k[1])}'
    if t == 'cnt':
        return f'Cnt({k[1]}={render(k[2])})'
    if t == 'jcnt':
        return f'Cnt{"*" if k[5] else ""}({k[1]}={render(k[2])} & {k[3]}={render(k[4])})'
    if t == 'n':
        return 'N'
    if t == 'ratio':
        return 'r'
    if t == 'const':
        return repr(k[1])
    if t == 'skip':
        return f'skip-if {render(k[1])}'
    if t == 'cmp':
        return f'({render(k[2])} {k[1]} {render(k[3])})'
    if t == 'not':
        return f'not {render(k[1])}'
    if t in ('and', 'or'):
        return '(' + f' {t} '.join(render(x) for x in k[1:]) + ')'
    if t in ('badratio', 'badlog', 'baddisp', 'badcount'):
        return f'{t.upper()}[{", ".join(render(x) for x in k[1:])}]'
    return f'{t}(' + ', '.join(render(x) for x in k[1:]) + ')'


CMP = {ast.Eq: '==', ast.NotEq: '!=', ast.Lt: '<', ast.LtE: '<=', ast.Gt: '>', ast.GtE: '>='}


class Interp:
    def __init__(self, module):
        self.m = module
        self.funcs = {q: f.node for q, f in module.funcs.items() if '.' not in q}
        self.defects = []      # (kind, node, text)
        self.log_calls = 0
        self.divisions = 0
        self.alloc_depth = {}

    # -- helpers ----------------------------------------------------------
    def is_identity_helper(self, fname):
        from .props.kernel_rules import elementwise_equality_helper
        return elementwise_equality_helper(self.m.funcs.get(fname))

    def lib(self, e):
        return self.m.dotted(e)

    def defect(self, kind, node, text):
        self.defects.append((kind, node, text))

    # -- expressions --------------------------------------------------------
    def ev(self, e, env):
        if isinstance(e, ast.Constant):
            return K('const', e.value)
        if isinstance(e, ast.Name):
            if e.id in env:
                return env[e.id]
            raise Unknown(f'name {e.id} is not bound to a known kind', e)
        if isinstance(e, ast.UnaryOp) and isinstance(e.op, ast.USub):
            return self.mul(K('const', -1), self.ev(e.operand, env))
        if isinstance(e, ast.UnaryOp) and isinstance(e.op, ast.Not):
            v = self.ev(e.operand, env)
            if v[0] == 'flag':
                return K('flag', not v[1])
            return K('not', v)
        if isinstance(e, ast.BoolOp):
            vals = [self.ev(v, env) for v in e.values]
            if all(v[0] == 'flag' for v in vals):
                return K('flag', all(v[1] for v in vals) if isinstance(e.op, ast.And) else any(v[1] for v in vals))
            is_and = isinstance(e.op, ast.And)
            if any(v[0] == 'flag' and v[1] != is_and for v in vals):
                return K('flag', not is_and)        # a False conjunct / a True disjunct decides
            rest = [v for v in vals if v[0] != 'flag']
            if all(v[0] == 'cmp' for v in rest):
                return rest[0] if len(rest) == 1 else K('and' if is_and else 'or', *rest)
            raise Unknown(f'boolean combination {ast.unparse(e)[:60]}', e)
        if isinstance(e, ast.Tuple):
            return K('tuple', *[self.ev(x, env) for x in e.elts])
        if isinstance(e, ast.Attribute):
            base = self.ev(e.value, env)
            if e.attr == 'size' and base[0] == 'rowpos':
                return K('cnt', base[1], base[2])
            if e.attr == 'size' and base[0] == 'sub':
                return K('cnt', base[2], base[3])
            if e.attr == 'shape' and base[0] in ('rowpos', 'sub', 'vec', 'vals', 'cnts'):
                return K('shape', base)
            if e.attr == 'size' and base[0] in ('vec', 'vals', 'cnts', 'uniq'):
                return self.length_of(base, e)
            raise Unknown(f'attribute .{e.attr} of {render(base)}', e)
        if isinstance(e, ast.Subscript):
            return self.index(self.ev(e.value, env), self.ev(e.slice, env), e)
        if isinstance(e, ast.Compare) and len(e.ops) == 1:
            l, r = self.ev(e.left, env), self.ev(e.comparators[0], env)
            op = CMP.get(type(e.ops[0]))
            if op is None:
                raise Unknown(f'comparison {ast.unparse(e)}', e)
            if op in ('>', '>='):
                op, l, r = {'>': '<', '>=': '<='}[op], r, l
            if op in ('==', '!=') and l[0] == 'const' and r[0] != 'const':
                l, r = r, l
            if op == '==' and l[0] == 'extreme' and r[0] == 'extreme' and l[2] == r[2] and {l[1], r[1]} == {'min', 'max'}:
                return K('pure', l[2])
            return K('cmp', op, l, r)
        if isinstance(e, ast.BinOp):
            l, r = self.ev(e.left, env), self.ev(e.right, env)
            if isinstance(e.op, ast.Div):
                self.divisions += 1
                return self.div(l, r, e)
            if isinstance(e.op, ast.Mult):
                return self.mul(l, r)
            if isinstance(e.op, ast.Sub):
                return self.add(l, self.mul(K('const', -1), r))
            if isinstance(e.op, ast.Add):
                return self.add(l, r)
            if isinstance(e.op, ast.Mod):
                return K('mod', l, r)
            return K('binop', type(e.op).__name__, l, r)
        if isinstance(e, ast.Call):
            return self.call(e, env)
        if isinstance(e, (ast.ListComp, ast.GeneratorExp)) and len(e.generators) == 1 and not e.generators[0].ifs and isinstance(e.generators[0].target, ast.Name):
            # [count(sub == c) for c in class_values]: the per-class joint counts of a stratum, built in one expression
            it = self.ev(e.generators[0].iter, env)
            if it[0] == 'vals':
                dom = K('idx', it)
                inner = dict(env)
                inner[e.generators[0].target.id] = K('val', it[1], dom)
                v = self.ev(e.elt, inner)
                if v[0] == 'jcnt' and v[2] == dom:
                    return K('jarr', v[1], v[3], v[4], v[5])
                if v[0] == 'cnt' and v[2] == dom:
                    return K('cnts', v[1])
            raise Unknown(f'comprehension {ast.unparse(e)[:60]}', e)
        raise Unknown(f'expression {ast.unparse(e)[:60]}', e)

    def index(self, base, idx, node):
        if base[0] == 'tuple' and idx[0] == 'const' and isinstance(idx[1], int) and idx[1] < len(base) - 1:
            return base[1 + idx[1]]
        if base[0] == 'shape' and idx == K('const', 0):
            return self.length_of(base[1], node)
        if base[0] == 'rowpos' and idx[0] == 'idx' and idx[1] == base:
            return K('rowelem', base[1], base[2])
        if base[0] in ('cnts', 'vals') and idx[0] == 'idx':
            if idx[1] == K('vals', base[1]):
                return K('cnt' if base[0] == 'cnts' else 'val', base[1], idx)
            self.defect('badindex', node, f'{render(base)} indexed by an index ranging over {render(idx[1])}')
            return K('badindex', base, idx)
        if base[0] == 'rows' and idx == K('const', 0):
            return K('rowpos', base[1], base[2])
        if base[0] == 'rows' and idx[0] == 'const':
            self.defect('badindex', node, f'np.where(...) on a 1-D vector returns a 1-tuple; element [{idx[1]}] does not exist')
            return K('rowpos', base[1], base[2])
        if base[0] == 'vec' and idx[0] in ('rows', 'rowpos'):
            return K('sub', base[1], idx[1], idx[2], False)
        if base[0] == 'vec' and idx[0] == 'condwrap':
            self.defect('baddisp', node, f'the displaced index {render(idx[1])} is wrapped by a single conditional subtraction of {render(idx[2])}, not reduced modulo len(Y): it stays inside the vector only while '
                        'row + size of the stratum < 2 len(Y), which does not hold when the stratum sizes come from the full vector and Y is the sample - the read then leaves the vector')
            idx = K('mod', idx[1], idx[2])
        if base[0] == 'vec' and idx[0] == 'mod' and any(isinstance(x, tuple) and x and x[0] == 'rowpos' for x in _walk(idx)):
            # vectorised displaced read  Y[(Rows(B=i) + Cnt(B=i)) % len(Y)] : one element per row of the stratum by construction
            m = idx
            stratum = None
            if m[2] == K('n',) and m[1][0] == 'sum' and len(m[1][1]) == 2:
                rp = [x for x in m[1][1] if x[0] == 'rowpos']
                cn = [x for x in m[1][1] if x[0] == 'cnt']
                if len(rp) == 1 and len(cn) == 1 and (rp[0][1], rp[0][2]) == (cn[0][1], cn[0][2]):
                    stratum = (rp[0][1], rp[0][2])
            if stratum is None:
                self.defect('baddisp', node, f'the displaced index must be (rows of the stratum + size of the stratum) mod len(Y); found index {render(m)}')
                rp_all = [x for x in _walk(m) if isinstance(x, tuple) and x and x[0] == 'rowpos']
                stratum = (rp_all[0][1], rp_all[0][2])
            elem = K('mod', K('sum', (K('rowelem', stratum[0], stratum[1]), K('cnt', stratum[0], stratum[1]))), K('n',))
            return K('disp', K('dispread', base[1], elem), stratum[0], stratum[1])
        if base[0] == 'vec' and idx[0] == 'mod':
            return K('dispread', base[1], idx)
        if base[0] == 'vec' and idx[0] in ('rowelem', 'sum'):
            return K('dispread', base[1], idx)
        if base[0] == 'jarr' and idx[0] == 'idx':
            if idx[1] == K('vals', base[1]):
                return K('jcnt', base[1], idx, base[2], base[3], base[4])
            self.defect('badindex', node, f'joint counts of {base[1]} indexed by an index over {render(idx[1])}')
            return K('badindex', base, idx)
        raise Unknown(f'subscript {render(base)}[{render(idx)}]', node)

    def length_of(self, a, node):
        if a[0] == 'vec':
            return K('n',)
        if a[0] in ('vals', 'cnts'):
            return K('len', K('vals', a[1]))
        if a[0] == 'rowpos':
            return K('cnt', a[1], a[2])
        if a[0] == 'sub':
            return K('cnt', a[2], a[3])
        if a[0] == 'uniq':
            return K('nuniq', a[1])
        raise Unknown(f'length of {render(a)}', node)

    def div(self, l, r, node):
        if l[0] == 'cnt' and r == K('n',):
            return K('prob', frozenset([(l[1], l[2])]), frozenset())
        if l[0] == 'jcnt' and r[0] == 'cnt' and (r[1], r[2]) == (l[3], l[4]):
            return K('prob', frozenset([(l[1], l[2]), (l[3], l[4])]), frozenset([(l[3], l[4])]), l[5])
        if l[0] in ('cnt', 'jcnt', 'n', 'len') or r[0] in ('cnt', 'jcnt', 'n', 'len'):
            self.defect('badratio', node, f'{render(l)} / {render(r)} is not a probability (numerator must be the count of an event, denominator the count of its conditioning event or N)')
            return K('badratio', l, r)
        if l[0] in ('prob', 'log', 'prod', 'red', 'sum') or r[0] in ('prob', 'log', 'prod', 'red', 'sum'):
            self.defect('badratio', node, f'division {render(l)} / {render(r)} inside the entropy terms: a p*log p term is a product, not a quotient')
            return K('badratio', l, r)
        raise Unknown(f'division {render(l)} / {render(r)}', node)

    def mul(self, l, r):
        def factors(v):
            if v[0] == 'prod':
                return v[1], list(v[2])
            if v[0] == 'const' and isinstance(v[1], (int, float)):
                return v[1], []
            return 1, [v]
        cl, fl = factors(l)
        cr, fr = factors(r)
        if cl * cr == 1 and len(fl) + len(fr) == 1:
            return (fl + fr)[0]
        return K('prod', cl * cr, tuple(fl + fr))

    def add(self, l, r):
        def terms(v):
            if v[0] == 'sum':
                return list(v[1])
            if v in ZERO:
                return []
            return [v]
        return K('sum', tuple(terms(l) + terms(r)))

    def call(self, e, env):
        d = self.lib(e.func) or ''
        if isinstance(e.func, ast.Attribute) and e.func.attr == 'astype':
            return self.ev(e.func.value, env)
        args = [self.ev(a, env) for a in e.args]
        name = d.split('.')[-1]
        if isinstance(e.func, ast.Attribute) and e.func.attr in ('max', 'min', 'sum') and not e.args and not e.keywords and not (d or '').startswith('numpy.'):
            # array method = numpy function of the array
            args = [self.ev(e.func.value, env)]
            d = 'numpy.' + e.func.attr
            name = e.func.attr
        if d == 'len' or name == 'len' and isinstance(e.func, ast.Name):
            return self.length_of(args[0], e)
        if name in ('prange', 'range') and (d in ('numba.prange', 'range', 'prange')):
            if len(args) == 1 and args[0][0] == 'len':
                return K('range', args[0][1])
            if len(args) == 1 and args[0][0] == 'cnt' and args[0][2][0] == 'idx' and args[0][2][1][0] == 'vals' and args[0][2][1][1] == args[0][1]:
                # range(size of the stratum B = i): positions inside the stratum's row list
                return K('range', K('rowpos', args[0][1], args[0][2]))
            doms = [x for a in args for x in _walk(a) if isinstance(x, tuple) and x and x[0] == 'len']
            if doms:
                # a range built from the size of a table of values, but not the whole of it (len - 1, 1 .. len): a class / stratum is dropped for sure
                self.defect('badrange', e, f'loop range {ast.unparse(e)} does not cover the complete index domain (a class / stratum is dropped from the sum)')
                return K('range', doms[0][1])
            # a loop over something else (the rows of a vector, a window of positions): not one of the index domains of the sum
            raise Unknown(f'loop range {ast.unparse(e)[:60]}', e)
        if d == 'enumerate' and len(args) == 1:
            return K('enum', args[0])
        if d == 'zip' and len(args) >= 2 and not e.keywords:
            return K('zip', *args)
        if d.endswith('.numba_unique') and len(args) == 1:
            if args[0][0] != 'vec':
                raise Unknown(f'histogram of {render(args[0])}', e)
            return K('tuple', K('vals', args[0][1]), K('cnts', args[0][1]))
        if d == 'numpy.flatnonzero' and len(args) == 1:
            rows = self.call(ast.copy_location(ast.Call(func=ast.Attribute(value=e.func.value, attr='where', ctx=ast.Load()), args=e.args, keywords=[]), e), env) if isinstance(e.func, ast.Attribute) else None
            if rows is None:
                raise Unknown('flatnonzero imported by name', e)
            return self.index(rows, K('const', 0), e)
        if d == 'numpy.where' and len(args) == 3:
            # np.where(s >= n, s - n, s): ONE conditional subtraction of the length, not a reduction modulo the length
            c, a, b = args
            if c[0] == 'cmp':
                op, l, r = c[1], c[2], c[3]
                if op in ('<=', '<') and r == b:
                    op, l, r = {'<=': '>=', '<': '>'}[op], r, l
                if op in ('>=', '>') and l == b and a == self.add(b, self.mul(K('const', -1), r)):
                    return K('condwrap', b, r)
            raise Unknown(f'np.where({render(c)}, .., ..)', e)
        if d in ('numpy.where', 'numpy.nonzero') and len(args) == 1:
            c = args[0]
            if c[0] == 'cmp' and c[1] != '==' and c[2][0] in ('vec', 'val') and c[3][0] in ('vec', 'val'):
                self.defect('badcount', e, f'a stratum is selected with relation {c[1]} instead of == (rows of other strata are mixed in; on codes only equality is meaningful)')
                c = K('cmp', '==', c[2], c[3])
            if c[0] == 'cmp' and c[1] == '==':
                a, b = c[2], c[3]
                if a[0] != 'vec':
                    a, b = b, a
                if a[0] == 'vec' and b[0] == 'val':
                    if b[1] != a[1]:
                        self.defect('badcount', e, f'rows of vector {a[1]} selected by a value of {b[1]}')
                        return K('rows', a[1], b[2])
                    return K('rows', a[1], b[2])
                if a[0] == 'vec' and b[0] == 'idx' and b[1][0] == 'vals':
                    # the codes are compared with the POSITION of a value in the table of distinct values, not with the value
                    self.defect('badcount', e, f'the rows of a stratum are selected by comparing the codes of {a[1]} with a loop position ({render(b)}), not with the value at that position: '
                                'right only while the distinct codes happen to be exactly 0..k-1 in order')
                    return K('rows', a[1], b)
            raise Unknown(f'np.where({render(c)})', e)
        if d in ('numpy.count_nonzero', 'numpy.sum') and len(args) == 1 and args[0][0] == 'cmp':
            c = args[0]
            if c[1] != '==':
                self.defect('badcount', e, f'class count uses relation {c[1]} instead of ==')
                return K('badcount', c)
            sub, val = c[2], c[3]
            if sub[0] in ('val', 'idx'):
                sub, val = val, sub
            if val[0] == 'idx' and val[1][0] == 'vals' and sub[0] in ('sub', 'disp', 'vec'):
                # the values are compared with the POSITION of a class in the table of distinct values, not with the class value
                self.defect('badcount', e, f'a class count compares the values with a loop position ({render(val)}) instead of the value at that position: right only while the distinct codes are exactly 0..k-1 in order')
                val = K('val', val[1][1], val)
            if sub[0] == 'sub' and val[0] == 'val':
                if val[1] != sub[1]:
                    self.defect('badcount', e, f'values of {sub[1]} compared with a value of {val[1]}')
                return K('jcnt', sub[1], val[2], sub[2], sub[3], sub[4])
            if sub[0] == 'disp' and val[0] == 'val':
                dr = sub[1]
                if val[1] != dr[1]:
                    self.defect('badcount', e, f'displaced values of {dr[1]} compared with a value of {val[1]}')
                return K('jcnt', dr[1], val[2], sub[2], sub[3], True)
            if sub[0] == 'vec' and val[0] == 'val':
                # count over the whole vector: marginal count
                return K('cnt', sub[1], val[2])
            raise Unknown(f'count of {render(c)}', e)
        if d in ('numpy.array_equal', 'numpy.array_equiv') and len(args) == 2 and {args[0][0], args[1][0]} == {'vec'} and args[0][1] != args[1][1]:
            # the summary describes the path of a non-identical pair (the self-pair predicate itself is C02.2 / C03.5)
            return K('flag', False)
        if (d in ('max', 'numpy.maximum', 'numpy.fmax') or (name == 'max' and isinstance(e.func, ast.Name))) and len(args) == 2 and any(a in ZERO for a in args):
            # max(<entropy combination>, 0): the value is clamped from below
            other = args[0] if args[1] in ZERO else args[1]
            if other[0] in ('sum', 'red', 'prod'):
                self.defect('badclamp', e, 'the entropy combination is clamped at 0 (max(.., 0)): H(Y*|X) - H(Y|X) is negative whenever the displaced copy is less entropic than the feature itself, '
                            'and such scores are reported as 0 instead')
                return other
        if d == 'numpy.clip' and args and args[0][0] in ('sum', 'red', 'prod'):
            self.defect('badclamp', e, 'the entropy combination is clipped: scores outside the clip range are not the stated value')
            return args[0]
        if d == 'numpy.zeros':
            return K('zeros', args[0])
        if d == 'numpy.empty':
            return K('zeros', args[0], 'uninitialised')
        if d in ('numpy.min', 'numpy.max') and len(args) == 1 and args[0][0] == 'sub':
            return K('extreme', name, args[0])
        if d == 'numpy.unique' and len(args) == 1 and args[0][0] == 'sub':
            return K('uniq', args[0])
        if d == 'numpy.log':
            self.log_calls += 1
            if args[0][0] == 'prob':
                return K('log', args[0])
            self.defect('badlog', e, f'log of {render(args[0])}, which is not a probability')
            return K('badlog', args[0])
        if d.startswith('numpy.log') or d.startswith('math.log'):
            self.log_calls += 1
            self.defect('badlog', e, f'{d} is not the natural logarithm np.log (the score is defined in nats)')
            return K('badlog', K('const', d))
        if isinstance(e.func, ast.Attribute) and e.func.attr == 'astype':
            return self.ev(e.func.value, env)
        if d in ('numpy.float32', 'numpy.float64', 'float', 'numpy.int32', 'int', 'numpy.uint32') and len(args) == 1:
            return args[0]
        if d in ('numpy.remainder', 'numpy.mod') and len(args) == 2:
            return K('mod', args[0], args[1])
        if d in ('numpy.array', 'numpy.asarray') and len(args) == 1 and args[0][0] in ('jarr', 'cnts', 'vals'):
            return args[0]
        fname = d.split('.')[-1]
        if d.startswith(self.m.name + '.') and fname in self.funcs:
            if len(args) == 2 and {args[0][0], args[1][0]} == {'vec'} and args[0][1] != args[1][1] and self.is_identity_helper(fname):
                return K('flag', False)      # a verified element-wise identity predicate, on the path of a non-identical pair
            if e.keywords:
                # keyword arguments are bound to the callee's parameters by name
                params = [a.arg for a in self.funcs[fname].args.args]
                slots = dict(zip(params, args))
                for k in e.keywords:
                    if k.arg is None or k.arg not in params or k.arg in slots:
                        raise Unknown(f'call {ast.unparse(e.func)}(... {k.arg}=...)', e)
                    slots[k.arg] = self.ev(k.value, env)
                if all(p_ in slots for p_ in params):
                    args = [slots[p_] for p_ in params]
            return self.run(fname, args, e)
        raise Unknown(f'call {ast.unparse(e.func)}(...)', e)

    # -- statements ---------------------------------------------------------
    def run(self, name, args, node=None):
        f = self.funcs[name]
        params = [a.arg for a in f.args.args]
        if len(args) != len(params):
            raise Unknown(f'{name} called with {len(args)} arguments', node)
        env = dict(zip(params, args))
        st = {'domains': [], 'guards': [], 'ret': None}
        self.block(f.body, env, st)
        if st['ret'] is None:
            raise Unknown(f'{name} does not return on this path', node)
        return st['ret']

    def block(self, body, env, st):
        for s in body:
            if st['ret'] is not None or st.get('skip_rest'):
                return
            self.stmt(s, env, st)

    def contribs(self, v, st, sign=1):
        out = []
        if v[0] == 'sum':
            for t in v[1]:
                out += self.contribs(t, st, sign)
            return out
        if v[0] == 'red':
            for c in v[1]:
                out.append(Contrib(c.coef * sign, c.factors, c.domains + tuple(st['domains']), c.guards + tuple(st['guards'])))
            return out
        if v[0] == 'prod':
            reds = [f for f in v[2] if f[0] == 'red']
            rest = [f for f in v[2] if f[0] != 'red']
            if len(reds) == 1:
                for c in reds[0][1]:
                    out.append(Contrib(c.coef * v[1] * sign, c.factors + tuple(rest), c.domains + tuple(st['domains']), c.guards + tuple(st['guards'])))
                return out
            if len(reds) > 1:
                raise Unknown('product of two reductions')
            return [Contrib(v[1] * sign, v[2], st['domains'], st['guards'])]
        if v in ZERO:
            return []
        return [Contrib(sign, [v], st['domains'], st['guards'])]

    def stmt(self, s, env, st):
        if isinstance(s, ast.Expr):
            if isinstance(s.value, ast.Constant):
                return
            raise Unknown(f'statement {ast.unparse(s)[:60]}', s)
        if isinstance(s, ast.Pass):
            return
        if isinstance(s, ast.Assign) and len(s.targets) == 1:
            t = s.targets[0]
            if isinstance(t, ast.Subscript):
                base = self.ev(t.value, env)
                idx = self.ev(t.slice, env)
                val = self.ev(s.value, env)
                name = ast.unparse(t.value)
                dom = st['domains'][-1] if st['domains'] else None
                if base[0] == 'zeros' and len(base) > 2 and len(st['guards']) > (base[2] if isinstance(base[2], int) else 0):
                    raise Unknown('conditional store into an uninitialised (np.empty) buffer', s)
                if base[0] == 'zeros' and st.get('loops'):
                    st['loops'][-1]['stores'].append(name)
                if base[0] == 'zeros' and val[0] == 'jcnt':
                    if idx != val[2] or dom != idx:
                        self.defect('badstore', s, f'joint count for class {render(val[2])} stored at slot {render(idx)}')
                    if base[1][0] != 'len' or base[1][1] != K('vals', val[1]):
                        self.defect('badstore', s, f'joint-count array has {render(base[1])} slots instead of one per class value')
                    env.setdefault('__pending__', {})[name] = K('jarr', val[1], val[3], val[4], val[5])
                    return
                if base[0] == 'zeros' and val[0] == 'cnt' and idx[0] == 'idx':
                    self.defect('badcount', s, f'the per-class count {render(val)} is taken over the whole vector instead of the rows of the current stratum')
                    stratum = [d for d in st['domains'] if d[0] == 'idx' and d[1][0] == 'vals' and d[1][1] != val[1]]
                    sd = stratum[0] if stratum else K('idx', K('vals', 'B'))
                    env.setdefault('__pending__', {})[name] = K('jarr', val[1], sd[1][1], sd, False)
                    return
                if base[0] == 'zeros' and val[0] == 'dispread':
                    ok, disp = self.check_displacement(val, base, idx, dom, s)
                    env.setdefault('__pending__', {})[name] = disp
                    return
                raise Unknown(f'store {name}[{render(idx)}] = {render(val)}', s)
            val = self.ev(s.value, env)
            if val[0] == 'zeros' and len(val) > 2:
                val = K('zeros', val[1], len(st['guards']))       # np.empty: remember the guard depth of the allocation
            if val[0] == 'zeros' and isinstance(t, ast.Name):
                self.alloc_depth[t.id] = len(st['domains'])
            if isinstance(t, ast.Tuple):
                if val[0] != 'tuple' or len(val) - 1 != len(t.elts):
                    raise Unknown(f'unpacking {ast.unparse(s)[:60]}', s)
                for i, el in enumerate(t.elts):
                    env[el.id] = val[1 + i]
            elif isinstance(t, ast.Name):
                env[t.id] = val
            else:
                raise Unknown(f'assignment target {ast.unparse(t)}', s)
            return
        if isinstance(s, ast.AugAssign) and isinstance(s.target, ast.Name):
            tgt = s.target.id
            cur = env.get(tgt)
            if cur is None:
                raise Unknown(f'augmented assignment to unbound {tgt}', s)
            val = self.ev(s.value, env)
            if cur[0] == 'idx' and env.get('__manual__' + tgt):
                if isinstance(s.op, ast.Add) and val == K('const', 1):
                    return
                self.defect('badindex', s, f'manual index {tgt} advanced by {render(val)}')
                return
            if not isinstance(s.op, (ast.Add, ast.Sub)):
                raise Unknown(f'augmented operator in {ast.unparse(s)[:60]}', s)
            if cur[0] in ('cnt', 'jcnt', 'intvar') and val[0] in ('cnt', 'jcnt', 'intvar', 'const'):
                env[tgt] = K('intvar', tgt)        # integer bookkeeping (rows left, ...): never part of a probability
                return
            sign = 1 if isinstance(s.op, ast.Add) else -1
            prev = list(cur[1]) if cur[0] == 'red' else ([] if cur in ZERO else None)
            if prev is None and cur[0] == 'const' and isinstance(cur[1], (int, float)):
                self.defect('badinit', s, f'the accumulator {tgt} starts at {cur[1]} instead of 0: a constant is added to the entropy')
                prev = []
            if prev is None:
                raise Unknown(f'accumulation into {render(cur)}', s)
            env[tgt] = K('red', tuple(prev + self.contribs(val, st, sign)))
            return
        if isinstance(s, ast.For):
            it = self.ev(s.iter, env)
            manual = []
            if it[0] == 'range' and isinstance(s.target, ast.Name):
                dom = K('idx', it[1])
                env[s.target.id] = dom
            elif it[0] == 'badrange' and isinstance(s.target, ast.Name):
                raise Unknown('loop over an incomplete range', s)
            elif it[0] == 'vals' and isinstance(s.target, ast.Name):
                dom = K('idx', it)
                env[s.target.id] = K('val', it[1], dom)
                for n, v in list(env.items()):
                    if v == K('const', 0) and type(v[1]) is int and any(isinstance(b, ast.AugAssign) and isinstance(b.target, ast.Name) and b.target.id == n and isinstance(b.value, ast.Constant) and type(b.value.value) is int for b in ast.walk(s)):
                        env[n] = dom
                        env['__manual__' + n] = True
                        manual.append(n)
            elif it[0] == 'enum' and it[1][0] == 'vals' and isinstance(s.target, ast.Tuple):
                dom = K('idx', it[1])
                env[s.target.elts[0].id] = dom
                env[s.target.elts[1].id] = K('val', it[1][1], dom)
            elif it[0] == 'enum' and it[1][0] == 'rowpos' and isinstance(s.target, ast.Tuple):
                dom = K('idx', it[1])
                env[s.target.elts[0].id] = dom
                env[s.target.elts[1].id] = K('rowelem', it[1][1], it[1][2])
            elif it[0] == 'cnts' and isinstance(s.target, ast.Name):
                dom = K('idx', K('vals', it[1]))
                env[s.target.id] = K('cnt', it[1], dom)
            elif it[0] == 'enum' and it[1][0] == 'cnts' and isinstance(s.target, ast.Tuple):
                dom = K('idx', K('vals', it[1][1]))
                env[s.target.elts[0].id] = dom
                env[s.target.elts[1].id] = K('cnt', it[1][1], dom)
            elif it[0] == 'rowpos' and isinstance(s.target, ast.Name):
                dom = K('idx', it)
                env[s.target.id] = K('rowelem', it[1], it[2])
            elif it[0] == 'jarr' and isinstance(s.target, ast.Name):
                dom = K('idx', K('vals', it[1]))
                env[s.target.id] = K('jcnt', it[1], dom, it[2], it[3], it[4])
            elif it[0] == 'zip' and isinstance(s.target, ast.Tuple) and len(s.target.elts) == len(it) - 1 and all(isinstance(x, ast.Name) for x in s.target.elts):
                # parallel arrays over the same complete domain: the values / counts of one histogram, the per-class joint counts of one stratum
                doms = {K('idx', K('vals', a[1])) if a[0] in ('vals', 'cnts', 'jarr') else None for a in it[1:]}
                if len(doms) != 1 or None in doms:
                    raise Unknown(f'loop over {render(it)}', s)
                dom = next(iter(doms))
                for x, a in zip(s.target.elts, it[1:]):
                    env[x.id] = K('val', a[1], dom) if a[0] == 'vals' else K('cnt', a[1], dom) if a[0] == 'cnts' else K('jcnt', a[1], dom, a[2], a[3], a[4])
            elif it[0] == 'vec' and isinstance(s.target, ast.Name):
                raise Unknown('loop over the elements of a code vector', s)
            else:
                raise Unknown(f'loop over {render(it)}', s)
            st['domains'].append(dom)
            g0 = len(st['guards'])
            st.setdefault('loops', []).append({'stores': [], 'broken': None})
            for b in s.body:
                if isinstance(b, ast.AugAssign) and isinstance(b.target, ast.Name) and b.target.id in manual:
                    # manual enumerate: must be unconditional, at the top level of the body
                    continue
                self.stmt(b, env, st)
                if st['ret'] is not None:
                    raise Unknown('return inside a loop', b)
                if st.pop('skip_rest', False):
                    # an unconditional `continue` on this path (reached through a test decided by the correction flag): the rest of the body is not run
                    break
            for n in manual:
                tops = [b for b in s.body if isinstance(b, ast.AugAssign) and isinstance(b.target, ast.Name) and b.target.id == n]
                if len(tops) != 1 or not (isinstance(tops[0].op, ast.Add) and isinstance(tops[0].value, ast.Constant) and tops[0].value.value == 1):
                    self.defect('badindex', s, f'manual index {n} is not advanced by exactly 1 on every iteration')
                # a `continue` before the advance desynchronises index and value
                pos = s.body.index(tops[0]) if tops else len(s.body)
                for b in s.body[:pos]:
                    if any(isinstance(x, ast.Continue) for x in ast.walk(b)):
                        self.defect('badindex', b, f'a skipped iteration does not advance the manual index {n}: later classes read the wrong count')
            del st['guards'][g0:]
            st['domains'].pop()
            rec = st['loops'].pop()
            if rec['broken'] is not None and rec['stores']:
                hoisted = [n for n in rec['stores'] if self.alloc_depth.get(n, 0) < len(st['domains'])]
                if hoisted:
                    self.defect('badstore', rec['broken'], f'the loop that fills `{hoisted[0]}` can be left early, and `{hoisted[0]}` is allocated outside the enclosing loop: the slots that are not rewritten keep the counts of the previous stratum')
                else:
                    raise Unknown('a break leaves slots of a per-stratum count buffer unwritten', rec['broken'])
            for n, v in env.pop('__pending__', {}).items():
                env[n] = v
            return
        if isinstance(s, ast.If):
            is_skip = len(s.body) == 1 and isinstance(s.body[0], ast.Continue) and not s.orelse
            try:
                c = self.ev(s.test, env)
            except Unknown:
                if not is_skip:
                    raise
                c = K('opaque', ast.unparse(s.test))
            if c[0] == 'flag':
                self.block(s.body if c[1] else s.orelse, env, st)
                return
            if len(s.body) == 1 and isinstance(s.body[0], ast.Continue) and not s.orelse:
                if c[0] == 'or':
                    # skip if a or b  =  skip if a; skip if b
                    for x in c[1:]:
                        st['guards'].append(K('skip', x))
                    return
                st['guards'].append(K('skip', c))
                return
            if len(s.body) == 1 and isinstance(s.body[0], ast.Break) and not s.orelse and st.get('loops'):
                st['loops'][-1]['broken'] = s
                return
            if any(isinstance(x, (ast.Continue, ast.Break, ast.Return)) for b in s.body + s.orelse for x in ast.walk(b)):
                raise Unknown('early exit inside a guarded block', s)
            if c[0] in ('and', 'or'):
                if c[0] == 'or' or s.orelse:
                    raise Unknown(f'guarded block under {render(c)[:80]}', s)
                for x in c[1:]:
                    st['guards'].append(x)
                self.block(s.body, env, st)
                del st['guards'][-(len(c) - 1):]
                return
            st['guards'].append(c)
            self.block(s.body, env, st)
            st['guards'].pop()
            if s.orelse:
                st['guards'].append(K('not', c))
                self.block(s.orelse, env, st)
                st['guards'].pop()
            return
        if isinstance(s, ast.Return):
            st['ret'] = self.ev(s.value, env)
            return
        if isinstance(s, ast.Continue) and st.get('loops'):
            st['skip_rest'] = True
            return
        raise Unknown(f'statement {type(s).__name__}: {ast.unparse(s)[:60]}', s)

    def check_displacement(self, val, base, idx, dom, node):
        """Y*[enx] = Y[(el + Cnt(B=i)) % len(Y)] for (enx, el) in enumerate(Rows(B=i))"""
        m = val[2]
        W = val[1]
        ok = True
        stratum = None
        if m[0] == 'mod' and m[2] == K('n',) and m[1][0] == 'sum' and len(m[1][1]) == 2:
            parts = m[1][1]
            re_ = [x for x in parts if x[0] == 'rowelem']
            cn = [x for x in parts if x[0] == 'cnt']
            if len(re_) == 1 and len(cn) == 1 and (re_[0][1], re_[0][2]) == (cn[0][1], cn[0][2]):
                stratum = (re_[0][1], re_[0][2])
            else:
                ok = False
        else:
            ok = False
        if not ok:
            why = 'the displaced index must be (row + size of the stratum) mod len(Y)'
            if m[0] != 'mod':
                why += ' - without the modulo the read leaves the vector'
            self.defect('baddisp', node, f'{why}; found index {render(m)}')
            re_all = [x for x in _walk(m) if isinstance(x, tuple) and x and x[0] == 'rowelem']
            stratum = (re_all[0][1], re_all[0][2]) if re_all else ('B', K('idx', K('vals', 'B')))
        # the buffer has one slot per row of the stratum, written at the enumerate position
        size = base[1]
        if not (size[0] == 'cnt' and (size[1], size[2]) == stratum):
            self.defect('baddisp', node, f'displaced buffer has {render(size)} slots instead of one per row of the stratum')
        if not (dom is not None and dom[0] == 'idx' and dom[1][0] == 'rowpos' and idx == dom):
            self.defect('baddisp', node, f'displaced value stored at {render(idx)} instead of the position of the row in the stratum')
        return ok, K('disp', val, stratum[0], stratum[1])


def _walk(t):
    yield t
    if isinstance(t, (tuple, frozenset)):
        for x in t:
            yield from _walk(x)


# ---------------------------------------------------------------------------
# summary of the entry point
# ---------------------------------------------------------------------------

def summarise(module, corrected: bool, entry='mutual_info_estimator_numba'):
    """Interpret the entry point on the path r == 1 (sampling block and self-pair test are other rules').
    Returns (interp, ratio_factor_count, contributions)."""
    I = Interp(module)
    f = I.funcs.get(entry)
    if f is None:
        raise Unknown(f'{entry} not found')
    params = [a.arg for a in f.args.args]
    env = {params[0]: K('vec', 'A'), params[1]: K('vec', 'B'), params[2]: K('ratio',), params[3]: K('flag', corrected)}
    st = {'domains': [], 'guards': [], 'ret': None}
    flag = params[3]
    ratio_name = params[2]

    def is_other_rule(s):
        # (a) the sampling block `if <ratio> < 1: Y, X = stratified_subsampling(...)` (C04; not taken at ratio 1)
        if isinstance(s.test, ast.Compare) and len(s.test.ops) == 1 and not s.orelse and any(isinstance(x, ast.Name) and x.id == ratio_name for x in (s.test.left, s.test.comparators[0])) \
                and any(isinstance(c, ast.Call) and 'subsampling' in ast.unparse(c.func) for b in s.body for c in ast.walk(b)):
            return True
        # (b) the self-pair test `if <...>: flag = False` (C02.2 / C03.5)
        if not s.orelse and all(isinstance(b, ast.Assign) and len(b.targets) == 1 and isinstance(b.targets[0], ast.Name) and b.targets[0].id == flag for b in s.body):
            return True
        return False

    results = []

    def walk(body, env):
        env = dict(env)
        for i, s in enumerate(body):
            if isinstance(s, ast.If) and is_other_rule(s):
                continue
            if isinstance(s, ast.If):
                # a branch at the entry level: both outcomes are separate paths through the estimator
                rest = list(body[i + 1:])
                walk(list(s.body) + rest, env)
                walk(list(s.orelse) + rest, env)
                return
            st = {'domains': [], 'guards': [], 'ret': None}
            I.stmt(s, env, st)
            if st['ret'] is not None:
                results.append(st['ret'])
                return
        raise Unknown('entry point does not return on a path')

    try:
        walk(list(f.body), env)
    except Unknown as u:
        u.interp = I
        raise
    out = []
    for ret in results:
        if ret[0] != 'prod':
            ret = K('prod', 1, (ret,))
        ratio = [x for x in ret[2] if x == K('ratio',)]
        rest = [x for x in ret[2] if x != K('ratio',)]
        cs = []
        for x in rest:
            cs += I.contribs(x, {'domains': [], 'guards': []}, ret[1])
        out.append((len(ratio), cs))
    # all paths must agree for the caller to get a single summary; otherwise return the first disagreeing one last
    I.paths = out
    return I, out[0][0], out[0][1]


def expected(corrected: bool, swapped: bool = False):
    a, b = ('B', 'A') if swapped else ('A', 'B')
    iA = K('idx', K('vals', a))
    iB = K('idx', K('vals', b))
    pA = K('prob', frozenset([(a, iA)]), frozenset())
    pB = K('prob', frozenset([(b, iB)]), frozenset())
    skip1 = K('skip', K('cmp', '==', K('cnt', b, iB), K('const', 1)))

    def cond(star):
        p = K('prob', frozenset([(a, iA), (b, iB)]), frozenset([(b, iB)]), star)
        return p, K('cmp', '!=', p, K('const', 0))
    pc, gpc = cond(False)
    ps, gps = cond(True)
    hy = Contrib(-1, [pA, K('log', pA)], [iA], [])
    hyx = Contrib(+1, [pB, pc, K('log', pc)], [iA, iB], [skip1, gpc])          # = -H(A|B)
    hsx = Contrib(-1, [pB, ps, K('log', ps)], [iA, iB], [skip1, gps])          # = +H(A*|B)
    return [hsx, hyx] if corrected else [hy, hyx]


def drop_harmless_guards(found, corrected):
    """On the plain path a stratum in which the feature is constant contributes 0 to H(Y|X): skipping it is harmless.
    (On the corrected path it is not: the displaced copy of such a stratum generally has positive entropy.)"""
    if corrected:
        return found
    out = []
    for c in found:
        gs = []
        for g in c.guards:
            if g[0] == 'skip' and g[1][0] == 'pure' and g[1][1][0] == 'sub' and g[1][1][4] is False:
                continue
            if g[0] == 'cmp' and g[1] == '!=' and g[2][0] == 'nuniq' and g[3] == K('const', 1) and g[2][1][4] is False:
                continue
            gs.append(g)
        out.append(Contrib(c.coef, c.factors, c.domains, gs))
    return out


def diff(found, want):
    """Human-readable differences between two contribution lists."""
    fk = {c.key(): c for c in found}
    wk = {c.key(): c for c in want}
    msgs = []
    for k, c in wk.items():
        if k not in fk:
            # closest found contribution: same factors ignoring coef/guards
            near = [f for f in found if f.factors == c.factors]
            if near:
                f = near[0]
                if f.coef != c.coef:
                    msgs.append(f'term {" * ".join(render(x) for x in c.factors)} has sign/coefficient {f.coef:+g}, expected {c.coef:+g}')
                if f.domains != c.domains:
                    msgs.append(f'term {" * ".join(render(x) for x in c.factors)} is summed over {[render(d) for d in f.domains]}, expected {[render(d) for d in c.domains]}')
                if f.guards != c.guards:
                    extra = [render(g) for g in f.guards if g not in c.guards]
                    missing = [render(g) for g in c.guards if g not in f.guards]
                    msgs.append(f'term {" * ".join(render(x) for x in c.factors)}: guards differ (unexpected {extra}, missing {missing}) - only a one-row stratum (Cnt(B=i) == 1) and p != 0 may be skipped')
            else:
                msgs.append(f'missing term: {c.render()}')
    for k, c in fk.items():
        if k not in wk and not any(c.factors == w.factors for w in want):
            msgs.append(f'unexpected term: {c.render()}')
    if len(found) != len(want) and not msgs:
        msgs.append(f'{len(found)} terms found, {len(want)} expected')
    return msgs
