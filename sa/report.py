"""E7 - obligations, known findings, evidence files and exit status."""
from __future__ import annotations

import hashlib
import json
import os
import sys
import time

VERIF = os.path.dirname(os.path.dirname(os.path.abspath(__file__)))

DISCHARGED, VIOLATED, INCONCLUSIVE = 'discharged', 'violated', 'inconclusive'


# rules that report a construct that is present and forbidden (who-may-write, entropy sources, constants, information flow): never gated
FIRM_RULES = {'R2', 'R8', 'R10', 'R17'}


class Obligation:
    def __init__(self, oid, rule, site, construct, status, why, inspected=1):
        self.oid, self.rule, self.site, self.construct, self.status, self.why, self.inspected = oid, rule, site, construct, status, why, inspected

    def as_dict(self):
        return {'obligation': self.oid, 'rule': self.rule, 'site': self.site, 'construct': self.construct, 'status': self.status, 'why': self.why}

    def key(self):
        # position independent: no line number
        site = self.site
        if ':' in site:
            f, rest = site.split(':', 1)
            rest = rest.split(' ', 1)[1] if ' ' in rest else ''
            site = f'{f} {rest}'
        return {'obligation': self.oid, 'rule': self.rule, 'site': site, 'construct': ' '.join(str(self.construct).split())}


class Check:
    """Collects the obligations of one property run."""

    def __init__(self, pid: str, tier: str, repo_root: str, explanation: str, trusted_base=(), assumptions=()):
        self.pid, self.tier, self.repo_root = pid, tier, repo_root
        self.explanation = explanation
        self.trusted_base = list(trusted_base)
        self.assumptions = list(assumptions)
        self.obs: list[Obligation] = []
        self.notes: list[str] = []
        self.analysed: dict = {}
        self.extra: dict = {}
        self.t0 = time.time()
        self.errors: list[str] = []
        self.locals_of = None       # callable(site) -> local names (not parameters) of the function at that site
        self.gate = None            # callable(site) -> set of new vocabulary of the function at that site
        self.firm = False           # property-wide: violations are decided positively (no vocabulary gate)

    # -- recording ------------------------------------------------------------
    def ok(self, oid, rule, site, construct, why='', inspected=1):
        self.obs.append(Obligation(oid, rule, site, construct, DISCHARGED, why, inspected))

    def bad(self, oid, rule, site, construct, why, soft=False):
        # rules written as shape recognisers abstain when the function they look at applies operations it did not apply in the
        # tree the rules were confirmed on (an unknown spelling); rules that decide violations positively pass firm=True
        if self.gate is not None and soft and rule not in FIRM_RULES:
            new = self.gate(site)
            if new:
                self.obs.append(Obligation(oid, rule, site, construct, INCONCLUSIVE, f'not decided: the function applies operations outside the vocabulary this rule was confirmed on ({", ".join(sorted(new))[:120]}); the rule would otherwise report: {why}'))
                return
        self.obs.append(Obligation(oid, rule, site, construct, VIOLATED, why))

    def unsure(self, oid, rule, site, construct, why):
        self.obs.append(Obligation(oid, rule, site, construct, INCONCLUSIVE, why))

    def expect_term(self, found, accepted, oid, rule, site, construct, why_ok='', why_bad='', extra_ok=True):
        """canonical-term equality with a three-valued outcome: equal to an accepted form -> discharged; different but written
        with the operations of the accepted forms -> violated; written with operations the accepted forms never use -> inconclusive"""
        from .match import within_vocabulary, _walk_term
        if found in accepted and extra_ok:
            self.ok(oid, rule, site, construct, why_ok)
            return
        # a local of the function that is left in the found term although no accepted form mentions it was not resolved to a value
        # (bound by a loop, by unpacking a table entry, or more than once): the comparison would compare names
        if found not in accepted and getattr(self, 'locals_of', None) is not None:
            names = {x[1] for x in _walk_term(found) if isinstance(x, tuple) and len(x) == 2 and x[0] == 'name' and isinstance(x[1], str)}
            acc_names = {x[1] for a in accepted for x in _walk_term(a) if isinstance(x, tuple) and len(x) == 2 and x[0] == 'name' and isinstance(x[1], str)}
            loose = sorted((names - acc_names) & self.locals_of(site))
            if loose:
                self.unsure(oid, rule, site, construct, f'the expression is written over the local(s) {", ".join(loose[:3])} that this rule could not resolve to a value; ' + (why_bad or why_ok))
                return
        if found in accepted or within_vocabulary(found, accepted):
            self.bad(oid, rule, site, construct, why_bad or why_ok)
        else:
            self.unsure(oid, rule, site, construct, 'the expression uses operations outside the vocabulary of the accepted forms; ' + (why_bad or why_ok))

    def expect(self, cond, oid, rule, site, construct, why_ok='', why_bad='', inspected=1, soft=False):
        """soft=True: the obligation is a shape recogniser ("the expected construct was not found"); when the function at `site` applies
        operations it did not apply in the tree the rule was confirmed on, a failure is reported as inconclusive instead of violated"""
        if cond:
            self.ok(oid, rule, site, construct, why_ok, inspected)
        else:
            self.bad(oid, rule, site, construct, why_bad or why_ok, soft=soft)
        return cond

    def note(self, text):
        self.notes.append(text)

    def error(self, text):
        self.errors.append(text)

    def require_count(self, what: str, found: int, at_least: int):
        """A rule that silently matches nothing passes vacuously forever: fail the
        analysis when fewer instances are found than the frozen table lists."""
        if found < at_least:
            self.error(f'{what}: found {found} instance(s), the frozen instance table lists {at_least}')

    # -- finishing ------------------------------------------------------------
    def finish(self, out=sys.stdout) -> int:
        known = load_known(self.pid)
        violations = [o for o in self.obs if o.status == VIOLATED]
        unlisted, listed = [], []
        for o in violations:
            k = match_known(o, known)
            (listed if k else unlisted).append((o, k))
        inconclusive = [o for o in self.obs if o.status == INCONCLUSIVE]
        for o, k in listed:
            print(f'KNOWN-FINDING: property={self.pid} {k["what"]}', file=out)
        vdir = os.environ.get('VERIF_VIOLATIONS_OUT') or os.path.join(VERIF, 'evidence', 'violations')
        for o, _ in unlisted:
            os.makedirs(vdir, exist_ok=True)
            d = o.as_dict()
            d['property'] = self.pid
            d['key'] = o.key()
            d['replay'] = f'./check {self.pid} --explain <this file>'
            h = hashlib.sha1(json.dumps(d['key'], sort_keys=True).encode()).hexdigest()[:10]
            path = os.path.join(vdir, f'{self.pid}-{o.oid.replace("/", "_")}-{h}.json')
            with open(path, 'w') as fh:
                json.dump(d, fh, indent=1)
            print(f'VIOLATION property={self.pid} replay={path}', file=out)
            print(f'  rule {o.rule} [{o.oid}] at {o.site}', file=out)
            print(f'  construct: {o.construct}', file=out)
            print(f'  reason: {o.why}', file=out)
        for o in inconclusive:
            print(f'ANALYSIS-ERROR property={self.pid} inconclusive [{o.oid}] at {o.site}: {o.why} :: {o.construct}', file=out)
        for e in self.errors:
            print(f'ANALYSIS-ERROR property={self.pid} {e}', file=out)
        self._write_evidence(len(unlisted), listed)
        n = len(self.obs)
        nd = sum(1 for o in self.obs if o.status == DISCHARGED)
        print(f'{self.pid} [{self.tier}] obligations={n} discharged={nd} violated={len(violations)} (known={len(listed)}) inconclusive={len(inconclusive)} errors={len(self.errors)} wall={time.time() - self.t0:.2f}s', file=out)
        if unlisted:
            return 1
        if inconclusive or self.errors:
            return 2
        return 0

    def _write_evidence(self, n_viol, listed):
        distinct = {json.dumps(o.key(), sort_keys=True) for o in self.obs if o.inspected > 0}
        ev = {
            'property_id': self.pid,
            'tier': self.tier,
            'seed': int(os.environ.get('VERIF_SEED', '0') or 0),
            'level': 'other',
            'coverage': {
                'explanation': self.explanation,
                'obligations': len(self.obs),
                'discharged': sum(1 for o in self.obs if o.status == DISCHARGED),
                'evaluations': sum(max(o.inspected, 1) for o in self.obs),
                'distinct_nontrivial': len(distinct),
                'rule': 'one case = one obligation (rule instance at a located construct of /repo); non-trivial = the rule inspected at least one construct; distinct = different (obligation, rule, site, construct)',
                'samples': [o.as_dict() for o in self.obs],
                'trusted_base': self.trusted_base,
                'analysed': self.analysed,
                'notes': self.notes,
                'known_findings_matched': [k['what'] for _, k in listed],
                'exhaustive': False,
                **self.extra,
            },
            'assumptions': self.assumptions,
            'wall_s': round(time.time() - self.t0, 3),
            'violations': n_viol,
        }
        os.makedirs(os.path.join(VERIF, 'evidence'), exist_ok=True)
        path = os.environ.get('VERIF_EVIDENCE_OUT') or os.path.join(VERIF, 'evidence', f'{self.pid}.json')
        with open(path, 'w') as fh:
            json.dump(ev, fh, indent=1, default=str)


def load_known(pid):
    path = os.path.join(VERIF, 'known_findings.json')
    if not os.path.exists(path):
        return []
    with open(path) as fh:
        data = json.load(fh)
    return [k for k in data.get('findings', []) if k.get('status') == 'known' and k.get('property') == pid]


def match_known(o: Obligation, known):
    key = o.key()
    for k in known:
        if k.get('rule') == key['rule'] and k.get('obligation') == key['obligation'] and ' '.join(k.get('construct', '').split()) == key['construct'] and k.get('site') == key['site']:
            return k
    return None
